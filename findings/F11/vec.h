typedef float v4 __attribute__((vector_size(16)));
struct S { v4 v; void (*f)(int,int,int,int,int,int,int,int,int,int,int,int,int); };
