#!/bin/bash
# F11: --impl-debug on a struct with a vector member (manual Debug impl forced by a 13-argument function pointer).
# usage: demo.sh <repo root with target/debug/bindgen>; exit 0 = the generated bindings compile, 1 = they do not (the defect).
R=${1:-/repo}; D=$(cd "$(dirname "$0")" && pwd); T=$(mktemp -d)
"$R/target/debug/bindgen" "$D/vec.h" --impl-debug --no-layout-tests -o "$T/b.rs" || exit 2
grep -q "impl ::std::fmt::Debug for S" "$T/b.rs" || { echo "no manual Debug impl emitted"; exit 2; }
rustc --edition 2021 --crate-type lib -A warnings -o "$T/libb.rlib" "$T/b.rs" 2> "$T/err"; rc=$?
[ $rc -ne 0 ] && { head -20 "$T/err"; rm -rf "$T"; exit 1; }
rm -rf "$T"; exit 0
