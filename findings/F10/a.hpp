static inline int foo(int x) { return x + 1; }
static inline int foo(long x) { return (int)x + 2; }
static inline int bar(int x) { return x; }
