#!/bin/sh
# F10 (C16): in C++ mode --wrap-static-fns emits bindings to static functions but no wrapper: every binding names an internal-linkage symbol.
# usage: demo.sh [repo-root]   exit 1 = defect present, 0 = absent
root=${1:-/repo}; here=$(cd "$(dirname "$0")" && pwd); tmp=$(mktemp -d); trap 'rm -rf "$tmp"' EXIT
(cd "$root" && CARGO_NET_OFFLINE=true cargo build --offline -q -p bindgen-cli) || exit 2
"$root/target/debug/bindgen" "$here/a.hpp" --wrap-static-fns --wrap-static-fns-path "$tmp/extern" --experimental -- -x c++ > "$tmp/out.rs" 2>/dev/null || exit 2
n=$(grep -c "pub fn " "$tmp/out.rs")
if [ "$n" -gt 0 ] && ! ls "$tmp"/extern.c* >/dev/null 2>&1; then echo "DEFECT: $n bindings to static functions, no wrapper source generated:"; grep link_name "$tmp/out.rs"; exit 1; fi
echo "ok: $n bindings, wrapper source present or no bindings"; exit 0
