int foo(void) __asm__("_foo");
extern int bar __asm__("_bar");
int baz(void) __asm__("baz_v2");
