#!/bin/bash
# F27: `int foo(void) __asm__("_foo"); extern int bar __asm__("_bar");` on an ELF target: the C symbols are `_foo` / `_bar`
# (ELF has no user-label prefix), so the bindings need #[link_name]; on Mach-O the same labels are what plain `foo` / `bar` decorate to.
# usage: demo.sh <repo root with target/debug/bindgen>; exit 0 = right symbols, 1 = the defect (fixed in /repo by ce8d8d59).
R=${1:-/repo}; D=$(cd "$(dirname "$0")" && pwd)
elf=$("$R/target/debug/bindgen" "$D/asm_label.h" -- --target=x86_64-unknown-linux-gnu 2>/dev/null) || exit 2
mac=$("$R/target/debug/bindgen" "$D/asm_label.h" -- --target=x86_64-apple-darwin 2>/dev/null) || exit 2
rc=0
echo "$elf" | grep -q 'link_name = "\\u{1}_foo"' || { echo "ELF: foo bound without #[link_name = _foo]"; rc=1; }
echo "$elf" | grep -q 'link_name = "\\u{1}_bar"' || { echo "ELF: bar bound without #[link_name = _bar]"; rc=1; }
echo "$mac" | grep -q '_foo' && { echo "Mach-O: needless link_name for foo"; rc=1; }
exit $rc
