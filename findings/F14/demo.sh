#!/bin/bash
# F14: struct A { char a; int b : 30; }: value round trip of the bit-field between C and the bindings.
# usage: demo.sh <repo root with target/debug/bindgen>; exit 0 = round trip agrees, 1 = it does not (the defect).
R=${1:-/repo}; D=$(cd "$(dirname "$0")" && pwd); T=$(mktemp -d)
"$R/target/debug/bindgen" "$D/bf.h" -o "$T/b.rs" 2>/dev/null || exit 2
clang -c "$D/bf.c" -I"$D" -o "$T/bf.o" && ar rcs "$T/libbf.a" "$T/bf.o" || exit 2
OUT="$T" rustc --edition 2021 -A warnings -L "$T" -l static=bf -o "$T/main" "$D/main.rs" 2> "$T/err" || { head -5 "$T/err"; rm -rf "$T"; exit 2; }
"$T/main"; rc=$?; rm -rf "$T"; [ $rc -eq 0 ] && exit 0 || exit 1
