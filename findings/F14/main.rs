#![allow(warnings)]
include!(concat!(env!("OUT"), "/b.rs"));
fn main() {
    let mut a: A = unsafe { std::mem::zeroed() };
    unsafe { c_set_b(&mut a, 0x1234567) };
    assert_eq!(a.b(), 0x1234567, "Rust getter does not read what C stored");
    a.set_b(0x0abcdef);
    assert_eq!(unsafe { c_get_b(&a) }, 0x0abcdef, "C does not read what the Rust setter stored");
}
