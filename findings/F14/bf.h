struct A { char a; int b : 30; };
void c_set_b(struct A *p, int v);
int c_get_b(const struct A *p);
