#include "bf.h"
void c_set_b(struct A *p, int v) { p->b = v; }
int c_get_b(const struct A *p) { return p->b; }
