#!/bin/bash
# F13: pointer to a function whose ABI the Rust target lacks (vectorcall on stable) used as a struct member.
# usage: demo.sh <repo root with target/debug/bindgen>; exit 0 = bindings (with their layout assertions) compile, 1 = they do not (the defect).
R=${1:-/repo}; D=$(cd "$(dirname "$0")" && pwd); T=$(mktemp -d)
"$R/target/debug/bindgen" "$D/vc.h" -o "$T/b.rs" 2>/dev/null || exit 2
rustc --edition 2021 --crate-type lib -A warnings -o "$T/libb.rlib" "$T/b.rs" 2> "$T/err"; rc=$?
[ $rc -ne 0 ] && { grep -E "^error" "$T/err" | head -5; rm -rf "$T"; exit 1; }
rm -rf "$T"; exit 0
