typedef void (__attribute__((vectorcall)) *fp)(int);
struct S { fp f; int x; };
void __attribute__((vectorcall)) g(int);