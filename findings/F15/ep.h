struct E { int x; unsigned b:3; };
