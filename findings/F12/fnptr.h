typedef void (__attribute__((regcall)) *fp)(int);
struct S { fp f; };
