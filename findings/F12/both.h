int ok(int);
void f(int) __attribute__((regcall));
typedef void (__attribute__((regcall)) *fp)(int);
struct S { fp f; int x; };
