void f(int) __attribute__((regcall));
