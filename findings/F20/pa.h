struct __attribute__((packed, aligned(8))) S { char a; int b; };
struct __attribute__((packed, aligned(2))) T { char a; int b; };
