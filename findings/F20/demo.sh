#!/bin/bash
# F20: __attribute__((packed, aligned(N))) on a struct: the bindings (with their layout assertions) must compile.
# usage: demo.sh <repo root with target/debug/bindgen>; exit 0 = they compile, 1 = they do not (the defect).
R=${1:-/repo}; D=$(cd "$(dirname "$0")" && pwd); T=$(mktemp -d)
"$R/target/debug/bindgen" "$D/pa.h" -o "$T/b.rs" 2>/dev/null || exit 2
rustc --edition 2021 --crate-type lib -A warnings -o "$T/libb.rlib" "$T/b.rs" 2> "$T/err"; rc=$?
[ $rc -ne 0 ] && { grep -E "^error" "$T/err" | head -4; rm -rf "$T"; exit 1; }
rm -rf "$T"; exit 0
