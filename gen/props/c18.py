"""C18 - extern-block merging and semantic sorting only regroup items."""
import os
from common import *
G = os.path.dirname(os.path.dirname(os.path.abspath(__file__)))

LEVEL_TEXT = 'bounded model checking of the real visit_items functions of both passes (real slice::sort_by_key) against stub syn item types'
OUTSIDE = ['syn parse / print of the token stream', 'that the result still compiles', 'recursion into modules (the VisitMut shells)', 'pass selection from options (PASSES table)',
           'sequences longer than the bound: e.g. an unstable sort that behaves stably below 21 elements is not distinguishable here']
EXPLANATION = ('merge_extern_blocks::visit_items and sort_semantically::visit_items are compiled unchanged against a stub syn (same variant/field names); '
               'input = symbolic sequence of <=N items of symbolic kind, extern blocks with symbolic (attrs, abi) in 2x2 and 1-2 foreign items; '
               'asserted: multiset preservation, foreign items stay under their original attrs/abi/unsafety, same-kind order, idempotence, for each pass and merge-then-sort.')


def build(tier, seed):
    def k():
        merge = extract_from('codegen/postprocessing/merge_extern_blocks.rs', r'^fn visit_items\(items: &mut Vec<Item>\) \{')
        sort_ = extract_from('codegen/postprocessing/sort_semantically.rs', r'^fn visit_items\(items: &mut \[Item\]\) \{')
        ks = []
        for (n, tr) in ((3, 'quick'), (4, 'thorough')):
            cap = n + 2
            pre = open(os.path.join(G, 'prelude', 'syn_items.rs')).read().replace('/*CAP*/', str(cap))
            har = open(os.path.join(G, 'harness', 'c18.rs')).read().replace('/*N*/', str(n)).replace('/*UNW*/', str(cap + 2))
            text = (pre + '\npub mod merge { use super::*; ' + merge + ' pub fn run(items: &mut Vec<Item>) { visit_items(items) } }\n'
                    'pub mod sort { use super::*; ' + sort_ + ' pub fn run(items: &mut [Item]) { visit_items(items) } }\n' + har)
            kk = Kernel(name='passes_n%d' % n)
            kk.files = {'src/lib.rs': text}
            kk.harnesses = [
                H('merge_only_regroups', tier=tr, timeout=1500, desc='merge pass, sequences <= %d items' % n, sample={'items': '<=%d symbolic kinds' % n, 'blocks': '(attrs,abi) in 2x2, 1-2 foreign items'}),
                H('sort_only_reorders_kinds', tier=tr, timeout=1500, desc='sort pass (real sort_by_key), sequences <= %d items' % n, sample={'items': '<=%d symbolic kinds' % n}),
                H('merge_then_sort_only_regroups', tier=tr, timeout=1500, desc='merge then sort, sequences <= %d items' % n, sample={'items': '<=%d' % n, 'passes': 'merge,sort'}),
            ]
            kk.encoded = [enc('codegen/postprocessing/merge_extern_blocks.rs', 'fn visit_items', merge), enc('codegen/postprocessing/sort_semantically.rs', 'fn visit_items', sort_)]
            kk.stubs = ['syn::{Item, ItemForeignMod, ForeignItem}: enums/structs with the same variant and field names, payload = identity byte',
                        'Vec<T>: fixed capacity %d with concrete-counter iterators; std::mem::take via Default' % cap]
            kk.assumptions = ['all extern blocks of one run carry the same `unsafety` (both emitters read the single unsafe_extern_blocks feature flag); the merge key ignores unsafety']
            kk.bounds = ['sequence length <= %d; at most 2 foreign items in the first block, 1 in the others; attrs, abi in {0,1}' % n]
            ks.append(kk)
        return ks
    try:
        return k()
    except SliceError as e:
        return [Kernel(name='passes', error='slice-failed: %s' % e)]
