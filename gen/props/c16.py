"""C16 - static-function wrappers: the bookkeeping between a binding and its wrapper (decision level)."""
import os, re
from common import *
G = os.path.dirname(os.path.dirname(os.path.abspath(__file__)))
LEVEL_TEXT = ('bounded model checking of the three statements of Function::codegen that decide static-function wrapping (early exit for internal linkage, should_wrap + its link_name attribute, registration in items_to_serialize), '
              'verbatim, with everything between them symbolic: a static function gets a binding iff it is wrapped, the binding names <name><suffix>, exactly one wrapper is registered, nothing for external linkage')
OUTSIDE = ['the C text of a wrapper beyond the spelling of built-in arithmetic types (codegen/serialize.rs: declarators for pointers, arrays, function pointers, qualifiers) and that it compiles against the headers: needs the real IR and a C compiler', 'behavioural equality of wrapper and wrapped function',
           'utils::serialize_items beyond the order and number of lines (paths, .c vs .cpp, the text of the lines)', 'va_list wrappers beyond their registration']
EXPLANATION = ('Each statement is located by its first tokens and brace-matched; the function around them is a stub that passes link_name_attr, canonical_name and the attribute list in. Symbolic: linkage, wrap_static_fns, variadic, '
               'presence of an explicit / mangled link name, the va_list callback answer, all names.')


def build(tier, seed):
    known = load_known()
    def k():
        mod = rd('codegen/mod.rs')
        fc = extract(mod, r'^impl CodeGenerator for Function \{', what='impl CodeGenerator for Function')
        def stmt(rx, what, count=1, pick=0):
            ms = [m for m in re.finditer(rx, fc)]
            if len(ms) != count:
                raise SliceError('Function::codegen: %s found %d times (expected %d)' % (what, len(ms), count))
            m = ms[pick]
            ob = fc.index('{', m.end() - 1)
            return fc[m.start():match_brace(fc, ob)]
        s1 = stmt(r'if is_internal \{', 'early exit for internal linkage')
        m = re.search(r'let should_wrap = [^;]*;', fc)
        if not m:
            raise SliceError('Function::codegen: let should_wrap not found')
        s2 = m.group(0) + '\n' + stmt(r'if should_wrap \{', '`if should_wrap` blocks', count=2, pick=0)
        m = re.search(r'let wrap_as_variadic = if should_wrap[^{]*\{', fc)
        if not m:
            raise SliceError('Function::codegen: let wrap_as_variadic not found')
        e1 = match_brace(fc, m.end() - 1)
        m2 = re.match(r'\s*else\s*\{', fc[e1:])
        if not m2:
            raise SliceError('Function::codegen: wrap_as_variadic else branch not found')
        e2 = match_brace(fc, e1 + m2.end() - 1)
        s2b = fc[m.start():e2] + ';'
        s3 = stmt(r'if should_wrap \{', '`if should_wrap` blocks', count=2, pick=1)
        h = (open(os.path.join(G, 'harness', 'c16_wrap.rs')).read().replace('/*S1_EARLY_EXIT*/', s1).replace('/*S2_SHOULD_WRAP*/', s2).replace('/*S2B_VARIADIC*/', s2b).replace('/*S3_REGISTER*/', s3))
        kern = Kernel(name='wrapper_bookkeeping')
        kern.files = {'src/lib.rs': h}
        f10 = 'F10' in known
        kern.harnesses = [H('static_fn_binding_has_exactly_its_wrapper', timeout=600, desc='no explicit link name: static function bound iff wrapped (wrap_static_fns and not variadic), binding names <name><suffix>, exactly one wrapper registered; external linkage: none', sample='all flag combinations'),
                          H('explicit_link_name_outside_the_f10_region', timeout=600, desc='binding with an explicit / mangled #[link_name]: external linkage gets no wrapper; static functions that are not wrapped (option off, variadic) get no binding', sample={'explicit_link_name': True, 'region': 'not (static and wrapping and not variadic)'}),
                          H('static_fn_with_explicit_or_mangled_link_name', timeout=600, expect='finding:F10' if f10 else 'pass',
                            desc='static, wrapping on, not variadic, and the binding already has a #[link_name] (asm label, callback override, or the C++ mangled name): bound iff wrapped' + (' - inverted: must keep failing while finding F10 stands' if f10 else ''), sample={'explicit_link_name': True})]
        kern.encoded = [enc('codegen/mod.rs', 'Function::codegen: if is_internal {..}', s1), enc('codegen/mod.rs', 'Function::codegen: let should_wrap + if should_wrap {link_name}', s2),
                        enc('codegen/mod.rs', 'Function::codegen: let wrap_as_variadic', s2b), enc('codegen/mod.rs', 'Function::codegen: if should_wrap {items_to_serialize.push}', s3)]
        kern.stubs = ['names: (base, suffixed) pairs with `+ suffix`', 'attributes::link_name::<MANGLE>: records the name', 'utils::wrap_as_variadic_fn: symbolic answer', 'Vec: capacity 4']
        kern.bounds = ['one function; all flag combinations']
        return [kern]
    def spelling():
        ser = rd('codegen/serialize.rs')
        ti = extract(ser, r"^impl<'a> CSerialize<'a> for Type \{", what='impl CSerialize for Type')
        def match_stmt(after_rx, scrut, what):
            m = re.search(after_rx, ti)
            if not m:
                raise SliceError('CSerialize for Type: arm %s not found' % what)
            m2 = re.compile(r'match %s \{' % scrut).search(ti, m.end())
            if not m2:
                raise SliceError('CSerialize for Type: match %s not found in arm %s' % (scrut, what))
            return ti[m2.start():match_brace(ti, m2.end() - 1)]
        mi = match_stmt(r'TypeKind::Int\(int_kind\) => \{', 'int_kind', 'Int')
        mf = match_stmt(r'TypeKind::Float\(float_kind\) => \{', 'float_kind', 'Float')
        mc = match_stmt(r'TypeKind::Complex\(float_kind\) => \{', 'float_kind', 'Complex')
        ik = extract_from('ir/int.rs', r'^pub enum IntKind \{')
        fk = extract_from('ir/ty.rs', r'^pub\(crate\) enum FloatKind \{')
        h = open(os.path.join(G, 'harness', 'c16_spelling.rs')).read().replace('/*ENUMS*/', ik + '\n' + fk).replace('/*MATCH_INT*/', mi).replace('/*MATCH_FLOAT*/', mf).replace('/*MATCH_COMPLEX*/', mc)
        kern = Kernel(name='c_spelling')
        kern.files = {'src/lib.rs': h}
        kern.harnesses = [H('integer_kinds_are_spelled_as_the_same_c_type', timeout=600, desc='serialize.rs integer table: every IntKind C can spell is written with the ISO C spelling of that very type; the others are refused', sample='all IntKind values'),
                          H('floating_kinds_are_spelled_as_the_same_c_type', timeout=600, desc='serialize.rs float and complex tables', sample='all FloatKind values')]
        kern.encoded = [enc('codegen/serialize.rs', 'CSerialize for Type: match int_kind', mi), enc('codegen/serialize.rs', 'CSerialize for Type: match float_kind (Float)', mf), enc('codegen/serialize.rs', 'CSerialize for Type: match float_kind (Complex)', mc),
                        enc('ir/int.rs', 'enum IntKind', ik), enc('ir/ty.rs', 'enum FloatKind', fk)]
        kern.stubs = ['write!(writer, "lit"): records the literal', 'CodegenError / get_loc / format!: units']
        kern.bounds = ['finite tables: exhaustive']
        return kern
    ks = []
    try:
        ks += k()
    except SliceError as e:
        ks.append(Kernel(name='wrapper_bookkeeping', error='slice-failed: %s' % e))
    ks.append(kernel_or_error('c_spelling', spelling))
    def wfile():
        mod = rd('codegen/mod.rs')
        si = extract(mod, r'^    pub\(super\) fn serialize_items\(', what='utils::serialize_items')
        a = si.find('let mut code = Vec::new();')
        b = si.find('std::fs::write(source_path, code)')
        if a < 0 or b < 0 or b < a:
            raise SliceError('serialize_items: assembly region not found')
        region = si[a:b]
        if 'item.serialize(' not in region or '#include' not in region:
            raise SliceError('serialize_items: assembly region changed shape')
        h = open(os.path.join(G, 'harness', 'c16_file.rs')).read().replace('/*ASSEMBLY*/', region)
        kern = Kernel(name='wrapper_file')
        kern.files = {'src/lib.rs': h}
        kern.harnesses = [H('wrapper_file_includes_every_header_then_one_wrapper_per_item', timeout=600, desc='serialize_items assembly: one #include per input header, all before the wrappers; exactly one wrapper per registered item, in order', sample='0..3 headers, 0..1 inline contents, 1..3 registered items')]
        kern.encoded = [enc('codegen/mod.rs', 'utils::serialize_items (from `let mut code` to the final write)', region)]
        kern.stubs = ['writeln!: one arm per literal format string, records the kind of line', 'Item::serialize: records a wrapper line for the item', 'Vec::new() = line buffer']
        kern.bounds = ['<= 3 headers, <= 1 inline contents, <= 3 registered items']
        return kern
    ks.append(kernel_or_error('wrapper_file', wfile))
    def body():
        ser = rd('codegen/serialize.rs')
        imp = extract(ser, r"^impl<'a> CSerialize<'a> for Function \{", what='impl CSerialize for Function')
        a = imp.find('let args = {')
        m = re.search(r'writeln!\(writer, "\}\}"\)\?;\s*Ok\(\(\)\)', imp)
        if a < 0 or not m:
            raise SliceError('Function::serialize: body region (let args = { .. writeln!(writer, "}}")?; Ok(())) not found')
        region = imp[a:m.end()]
        n = {}
        region, n['count'] = re.subn(r'format!\("arg_\{count\}"\)', 'format!("arg_{}", count)', region)
        region, n['name'] = re.subn(r'write!\(buf, "\{name\}"\)', 'write!(buf, "{}", name)', region)
        region, n['ap'] = re.subn(r'"ap"\.to_owned\(\)', 'Tok::from("ap")', region)
        if n['count'] != 1 or n['name'] != 1:
            raise SliceError('Function::serialize: expected format!("arg_{count}") and write!(buf, "{name}") once each')
        sargs = extract(ser, r'^fn serialize_args<W: Write>\(', what='serialize_args')
        ssep = extract(ser, r'^fn serialize_sep<', what='serialize_sep')
        h = open(os.path.join(G, 'harness', 'c16_body.rs')).read().replace('/*BODY*/', region).replace('/*SERIALIZE_ARGS*/', sargs.replace('<W: Write>', '').replace('&mut W', '&mut Out')).replace('/*SERIALIZE_SEP*/', ssep.replace('W: Write,', '').replace('&mut W', '&mut Out'))
        kern = Kernel(name='wrapper_body')
        kern.files = {'src/lib.rs': h}
        kern.harnesses = [H('wrapper_forwards_every_parameter_in_its_place', timeout=900, desc='body of CSerialize for Function with the real serialize_args / serialize_sep: the wrapper declares the wrapped parameters (minus the va_list), forwards each at its original position with `ap` where the va_list was, va_start names the last named parameter', sample='<= 3 parameters named or not, va_list at any position or none, void or not')]
        kern.encoded = [enc('codegen/serialize.rs', 'impl CSerialize for Function: body', region if False else imp[a:m.end()]), enc('codegen/serialize.rs', 'fn serialize_args', sargs), enc('codegen/serialize.rs', 'fn serialize_sep', ssep)]
        kern.stubs = ['write! / writeln!: one arm per literal format string, recording an event', 'String = Tok (identity of a name)', 'rewrites: format!("arg_{count}") -> format!("arg_{}", count), write!(buf, "{name}") -> write!(buf, "{}", name) (macro hygiene), "ap".to_owned() -> Tok::from("ap"); the writer type parameter W of serialize_args / serialize_sep is fixed to the event sink',
                      'ArgList adaptors cloned / enumerate / filter_map: inherent and eager', 'Type::serialize / TypeId::serialize: record the return type / a parameter']
        kern.assumptions = ['utils::wrap_as_variadic_fn only wraps functions with at least two parameters and exactly one va_list (read)']
        kern.bounds = ['<= 3 parameters']
        return kern
    ks.append(kernel_or_error('wrapper_body', body))
    # registrations made inside modules must reach the top-level result (CodegenResult::inner; kernel shared with C01)
    try:
        from props import c01
        for kk in c01.build(tier, seed):
            if kk.name == 'module_helpers':
                kk.name = 'registrations_survive_modules'
                ks.append(kk)
    except Exception as e:
        ks.append(Kernel(name='registrations_survive_modules', error='build-failed: %s' % e))
    return ks
