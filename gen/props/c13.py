"""C13 - builder configuration and command-line flags round-trip (codec level)."""
import os, re
from common import *
from props import features_text
G = os.path.dirname(os.path.dirname(os.path.abspath(__file__)))
LEVEL_TEXT = 'bounded model checking of the text codecs every option value crosses the command line with: Display/FromStr pairs, --generate list, header ordering'
OUTSIDE = ["clap's derive layer and apply_args!", 'the 117-entry correspondence between as_args entries and builder methods (a finite table, not a computation)', 'defaults', 'byte-identical bindings (needs libclang)',
           'regex / path arguments of arbitrary length']
EXPLANATION = 'parse(to_string(v)) = v for every value of every enum-like option type; RustTarget for symbolic digits of stated shapes; CodegenConfig <-> --generate for all 64 values; header order flags vs generate().'


def codecs():
    mod = rd('codegen/mod.rs'); lib = rd('lib.rs'); ann = rd('ir/annotations.rs'); fun = rd('ir/function.rs')
    parts = ['#![allow(warnings)]\nuse std::fmt;\nuse std::str::FromStr;\n']
    encd = []
    for src, rel, ty in ((mod, 'codegen/mod.rs', 'EnumVariation'), (mod, 'codegen/mod.rs', 'MacroTypeVariation'), (mod, 'codegen/mod.rs', 'AliasVariation'),
                         (mod, 'codegen/mod.rs', 'NonCopyUnionStyle'), (lib, 'lib.rs', 'Formatter'), (ann, 'ir/annotations.rs', 'FieldVisibilityKind'), (fun, 'ir/function.rs', 'Abi')):
        e = extract(src, r'^pub enum %s \{' % ty, what='enum ' + ty)
        d = extract(src, r'^impl (std::)?fmt::Display for %s \{' % ty, what='Display for ' + ty)
        f = extract(src, r'^impl (std::str::)?FromStr for %s \{' % ty, what='FromStr for ' + ty)
        parts += [e, d, f]
        encd += [enc(rel, 'enum %s + Display + FromStr' % ty, e + d + f)]
    parts.append(open(os.path.join(G, 'harness', 'c13_codecs.rs')).read())
    k = Kernel(name='codecs')
    k.files = {'src/lib.rs': '\n'.join(parts)}
    k.harnesses = [H(n, stubbing=True, timeout=600, desc='parse(to_string(v)) == v for every value', sample=n) for n in
                   ('enum_variation_roundtrip', 'macro_type_variation_roundtrip', 'alias_variation_roundtrip', 'non_copy_union_style_roundtrip', 'formatter_roundtrip', 'field_visibility_roundtrip', 'abi_roundtrip')]
    k.encoded = encd
    k.stubs = ['-Z stubbing: core::slice::memchr::memchr -> naive loop', '-Z stubbing: alloc::fmt::format -> empty string (only the error arms of FromStr build messages; the message is not the subject)']
    k.assumptions = ['EnumVariation::NewType{is_bitfield:true,is_global:true} is not a configuration (Display prints it as "bitfield"; code generation ignores is_global for bit-field newtypes)',
                     'feature prettyplease off in the spliced crate (Formatter has two values)']
    k.bounds = ['all values of each enum; literals <= 20 bytes (unwind 24)']
    return k


def build(tier, seed):
    def q(md, pd, sid):
        return (md, pd, sid) in [(2, 0, 0), (2, 1, 0), (2, 0, 3)]
    ks = [kernel_or_error('codecs', codecs), kernel_or_error('features_text', lambda: features_text.features_kernel(True, tier, q))]
    try:
        from props import c13_flags
        ks += c13_flags.kernels(tier, seed)
    except ImportError:
        pass
    return ks
