"""C01 - generated bindings compile (narrow kernel: identifier mangling; plus the compile-critical templates checked under C03)."""
import os, re
from common import *
LEVEL_TEXT = 'bounded model checking of the real BindgenContext::rust_mangle on all identifiers of length 1..8 over [a-z0-9_$@?SA]: result is a legal, non-keyword Rust identifier and is unchanged when the input already was one'
OUTSIDE = ['path resolution, generics / PhantomData, derive soundness as rustc sees it, every quote! template: i.e. almost all of the property', 'name uniqueness (overload counters, seen sets): real hash maps and item ids',
           'injectivity of mangling is not claimed: `a$` and `a@` collide by design']
EXPLANATION = 'String LENGTH is the harness parameter; every byte is symbolic over the identifier alphabet plus the three characters clang accepts but Rust does not. Oracle: keyword list of the Rust Reference (editions 2015-2024), written in the harness.'

HARNESS = r'''
#![allow(warnings)]
use std::borrow::Cow;
pub struct BindgenContext;
impl BindgenContext {
/*MANGLE*/
}
#[cfg(kani)]
mod proofs {
    use super::*;
    pub fn naive_memchr(x: u8, text: &[u8]) -> Option<usize> { let mut i = 0; while i < text.len() { if text[i] == x { return Some(i); } i += 1; } None }
    /// Rust Reference: strict + reserved keywords of every edition, and `_`
    fn is_keyword(s: &[u8]) -> bool {
        const KW: &[&[u8]] = &[b"as", b"break", b"const", b"continue", b"crate", b"else", b"enum", b"extern", b"false", b"fn", b"for", b"if", b"impl", b"in", b"let", b"loop", b"match", b"mod", b"move", b"mut", b"pub",
            b"ref", b"return", b"self", b"Self", b"static", b"struct", b"super", b"trait", b"true", b"type", b"unsafe", b"use", b"where", b"while", b"async", b"await", b"dyn", b"abstract", b"become", b"box", b"do",
            b"final", b"macro", b"override", b"priv", b"typeof", b"unsized", b"virtual", b"yield", b"try", b"gen", b"_"];
        let mut i = 0;
        while i < KW.len() { if KW[i].len() == s.len() { let mut eq = true; let mut j = 0; while j < s.len() { if KW[i][j] != s[j] { eq = false; } j += 1; } if eq { return true; } } i += 1; }
        false
    }
    fn case<const L: usize>() {
        let bytes: [u8; L] = kani::any();
        let mut i = 0;
        while i < L { let b = bytes[i]; kani::assume((b >= b'a' && b <= b'z') || b == b'_' || b == b'$' || b == b'@' || b == b'?' || b == b'S' || b == b'A' || (i > 0 && b >= b'0' && b <= b'9')); i += 1; }
        let s = unsafe { core::str::from_utf8_unchecked(&bytes) };
        let out = BindgenContext.rust_mangle(s);
        let ob = out.as_bytes();
        let mut k = 0; while k < ob.len() { assert!(ob[k] != b'$' && ob[k] != b'@' && ob[k] != b'?', "mangled identifier still contains a character Rust rejects"); k += 1; }
        assert!(!is_keyword(ob), "mangled identifier is a Rust keyword");
        assert!(ob.len() >= L);
        // definition and use sites agree: a name that needs no mangling is returned unchanged
        let mut clean = !is_keyword(&bytes); let mut k = 0; while k < L { if bytes[k] == b'$' || bytes[k] == b'@' || bytes[k] == b'?' { clean = false; } k += 1; }
        let prim = matches!(s, "str" | "bool" | "f32" | "f64" | "usize" | "isize" | "u128" | "i128" | "u64" | "i64" | "u32" | "i32" | "u16" | "i16" | "u8" | "i8")
            || matches!(s, "alignof" | "offsetof" | "sizeof" | "pure" | "proc");    // names bindgen escapes although Rust would accept them
        if clean && !prim { assert!(ob.len() == L, "a legal identifier was altered"); let mut k = 0; while k < L { assert!(ob[k] == bytes[k], "a legal identifier was altered"); k += 1; } }
        core::mem::forget(out);
    }
    /*GENERATED*/
}
'''


def build(tier, seed):
    def k():
        mangle = extract_from('ir/context.rs', r"^    pub\(crate\) fn rust_mangle<'a>\(")
        gen, hs = [], []
        for L in range(1, 9):
            gen.append('#[kani::proof] #[kani::unwind(%d)] #[kani::stub(core::slice::memchr::memchr, naive_memchr)] fn mangle_len%d() { case::<%d>() }' % (max(60, 2 * L + 12), L, L))
            hs.append(H('mangle_len%d' % L, stubbing=True, timeout=1500, weight=2, tier='quick' if L in (2, 3, 5) else 'thorough', desc='rust_mangle on every identifier of length %d over [a-z0-9_$@?SA]' % L, sample={'length': L}))
        kern = Kernel(name='mangle')
        kern.files = {'src/lib.rs': HARNESS.replace('/*MANGLE*/', mangle).replace('/*GENERATED*/', '\n    '.join(gen))}
        kern.harnesses = hs
        kern.encoded = [enc('ir/context.rs', 'BindgenContext::rust_mangle', mangle)]
        kern.stubs = ['-Z stubbing: core::slice::memchr::memchr -> naive loop', 'BindgenContext: unit struct (rust_mangle never reads self)']
        kern.assumptions = ['identifier alphabet: a-z, 0-9 (not first), _, S, A plus $ @ ?']
        kern.bounds = ['identifier length 1..8 (quick: 2, 3, 5)']
        return [kern]
    try:
        return k()
    except SliceError as e:
        return [Kernel(name='mangle', error='slice-failed: %s' % e)]
