"""C01 - generated bindings compile (narrow kernel: identifier mangling; plus the compile-critical templates checked under C03)."""
import os, re
from common import *
LEVEL_TEXT = 'bounded model checking of the escaping DECISION of BindgenContext::rust_mangle (its condition, sliced verbatim) on all identifiers of length 1..8 over [a-z0-9_$@?SA]: every keyword / name with $ @ ? is escaped, nothing else is (beyond the documented extras); and of the real Module::codegen / CodegenResult::inner: helper types used by items nested in namespaces are defined exactly once at the root'
OUTSIDE = ['the escaping itself (String::replace x3 + push): not encodable under CBMC (measured: no result in 19 min for 2-byte names)', 'path resolution, generics / PhantomData, derive soundness as rustc sees it, every quote! template: i.e. almost all of the property', 'name uniqueness (overload counters, seen sets): real hash maps and item ids',
           'injectivity of mangling is not claimed: `a$` and `a@` collide by design']
EXPLANATION = 'String LENGTH is the harness parameter; every byte is symbolic over the identifier alphabet plus the three characters clang accepts but Rust does not. Oracle: keyword list of the Rust Reference (editions 2015-2024), written in the harness.'

HARNESS = r'''
#![allow(warnings)]
use std::borrow::Cow;
/// the decision of BindgenContext::rust_mangle: does this name get escaped?  (the `if` condition, sliced verbatim;
/// the escaping itself - three String::replace calls and a push - is not encodable: CBMC did not finish it in 19 min for 2-byte names)
pub fn needs_mangling(name: &str) -> bool {
    /*CONDITION*/
}
#[cfg(kani)]
mod proofs {
    use super::*;
    pub fn naive_memchr(x: u8, text: &[u8]) -> Option<usize> { let mut i = 0; while i < text.len() { if text[i] == x { return Some(i); } i += 1; } None }
    /// Rust Reference: strict + reserved keywords of every edition, and `_`
    fn is_keyword(s: &[u8]) -> bool {
        const KW: &[&[u8]] = &[b"as", b"break", b"const", b"continue", b"crate", b"else", b"enum", b"extern", b"false", b"fn", b"for", b"if", b"impl", b"in", b"let", b"loop", b"match", b"mod", b"move", b"mut", b"pub",
            b"ref", b"return", b"self", b"Self", b"static", b"struct", b"super", b"trait", b"true", b"type", b"unsafe", b"use", b"where", b"while", b"async", b"await", b"dyn", b"abstract", b"become", b"box", b"do",
            b"final", b"macro", b"override", b"priv", b"typeof", b"unsized", b"virtual", b"yield", b"try", b"gen", b"_"];
        let mut i = 0;
        while i < KW.len() { if KW[i].len() == s.len() { let mut eq = true; let mut j = 0; while j < s.len() { if KW[i][j] != s[j] { eq = false; } j += 1; } if eq { return true; } } i += 1; }
        false
    }
    fn case<const L: usize>() {
        let bytes: [u8; L] = kani::any();
        let mut i = 0;
        while i < L { let b = bytes[i]; kani::assume((b >= b'a' && b <= b'z') || b == b'_' || b == b'$' || b == b'@' || b == b'?' || b == b'S' || b == b'A' || (i > 0 && b >= b'0' && b <= b'9')); i += 1; }
        let s = unsafe { core::str::from_utf8_unchecked(&bytes) };
        let m = needs_mangling(s);
        let mut illegal = false; let mut k = 0; while k < L { if bytes[k] == b'$' || bytes[k] == b'@' || bytes[k] == b'?' { illegal = true; } k += 1; }
        // every name rustc would reject as an identifier is escaped
        assert!(!(illegal || is_keyword(&bytes)) || m, "a name that is not a legal Rust identifier (keyword, or contains $ @ ?) is emitted unescaped");
        // definition and use sites agree: nothing else is touched, except the names bindgen escapes although Rust would accept them
        let extra = matches!(s, "str" | "bool" | "f32" | "f64" | "usize" | "isize" | "u128" | "i128" | "u64" | "i64" | "u32" | "i32" | "u16" | "i16" | "u8" | "i8" | "alignof" | "offsetof" | "sizeof" | "pure" | "proc");
        assert!(!m || illegal || is_keyword(&bytes) || extra, "a legal identifier is escaped");
        kani::cover!(m && !illegal, "keyword escaped");
    }
    /*GENERATED*/
}
'''


def build(tier, seed):
    def k():
        mangle = extract_from('ir/context.rs', r"^    pub\(crate\) fn rust_mangle<'a>\(")
        m = re.search(r'\bif (name\.contains.*?)\{\s*let mut s = name\.to_owned\(\);', mangle, flags=re.S)
        if not m:
            raise SliceError('rust_mangle: condition / escaping shape changed')
        cond = m.group(1).strip()
        gen, hs = [], []
        for L in range(1, 9):
            gen.append('#[kani::proof] #[kani::unwind(%d)] #[kani::stub(core::slice::memchr::memchr, naive_memchr)] fn mangle_len%d() { case::<%d>() }' % (60, L, L))
            hs.append(H('mangle_len%d' % L, stubbing=True, timeout=1500, weight=2, tier='quick' if L in (1, 2, 3, 5, 8) else 'thorough', may_unsat=('keyword escaped',) if L == 1 else (), desc='rust_mangle on every identifier of length %d over [a-z0-9_$@?SA]' % L, sample={'length': L}))
        kern = Kernel(name='mangle')
        kern.files = {'src/lib.rs': HARNESS.replace('/*CONDITION*/', cond).replace('/*GENERATED*/', '\n    '.join(gen))}
        kern.harnesses = hs
        kern.encoded = [enc('ir/context.rs', 'BindgenContext::rust_mangle', mangle)]
        kern.stubs = ['-Z stubbing: core::slice::memchr::memchr -> naive loop', 'only the `if` condition of rust_mangle is compiled (as fn needs_mangling)']
        kern.assumptions = ['identifier alphabet: a-z, 0-9 (not first), _, S, A plus $ @ ?']
        kern.bounds = ['identifier length 1..8 (quick: 2, 3, 5)']
        return [kern]
    ks = []
    try:
        ks += k()
    except SliceError as e:
        ks.append(Kernel(name='mangle', error='slice-failed: %s' % e))
    # compile-critical token templates: the bit-field accessor / constructor templates instantiated as real code (kernel shared with C03);
    # a template that stops compiling shows up here as INCONCLUSIVE (finding F6 was found that way)
    def templates():
        from props import c03
        kk = c03.k3(tier, seed, load_known())
        kk.harnesses = [h for h in kk.harnesses if h.expect == 'pass' and (h.name.startswith('t_u_') or h.name.startswith('t_s_bool'))]
        for i, h in enumerate(kk.harnesses):
            h.tier = 'quick' if i % 5 == 0 else 'thorough'
        kk.name = 'accessor_templates'
        return kk
    ks.append(kernel_or_error('accessor_templates', templates))
    def modules():
        G = os.path.dirname(os.path.dirname(os.path.abspath(__file__)))
        st = extract_from('codegen/mod.rs', r"^struct CodegenResult<'a> \{")
        meths = [extract_from('codegen/mod.rs', r'^    fn %s[<(]' % n) for n in ('new', 'saw_bindgen_union', 'saw_incomplete_array', 'saw_objc', 'saw_block', 'saw_bitfield_unit', 'inner')]
        deref = extract_from('codegen/mod.rs', r"^impl ops::Deref for CodegenResult<'_> \{") + '\n' + extract_from('codegen/mod.rs', r"^impl ops::DerefMut for CodegenResult<'_> \{")
        mc = extract_from('codegen/mod.rs', r'^impl CodeGenerator for Module \{')
        h = open(os.path.join(G, 'harness', 'c01_modules.rs')).read()
        levels = []
        for L in range(3):
            t = re.sub(r'\bModule\b', 'Module%d' % L, mc)
            t = re.sub(r'\bItem\b', 'Item%d' % L, t)
            t = re.sub(r'&BindgenContext\b', '&Ctx%d' % L, t)
            t = t.replace('type Extra = Item%d;' % L, 'type Extra = Item%d; type Ctx = Ctx%d;' % (L, L))
            levels.append(t)
        if 'BindgenContext' in ''.join(levels):
            raise SliceError('Module::codegen: unexpected use of BindgenContext')
        h = h.replace('/*STRUCT*/', st).replace('/*METHODS*/', '\n'.join(meths)).replace('/*DEREF*/', deref).replace('/*MODULE_CODEGEN_LEVELS*/', '\n'.join(levels))
        kk = Kernel(name='module_helpers')
        kk.files = {'src/lib.rs': h}
        kk.harnesses = [H('helpers_defined_depth%d' % dd, timeout=900, desc='chain of %d module(s) ending in an item: every helper the item uses is defined exactly once where uses look for it (real Module::codegen, CodegenResult::inner)' % dd,
                          sample={'modules_on_chain': dd, 'helper_masks': 'all', 'options': 'all'}) for dd in (1, 2, 3)]
        kk.encoded = [enc('codegen/mod.rs', 'struct CodegenResult', st), enc('codegen/mod.rs', 'CodegenResult::{new, saw_*, inner}', '\n'.join(meths)), enc('codegen/mod.rs', 'Deref / DerefMut for CodegenResult', deref), enc('codegen/mod.rs', 'impl CodeGenerator for Module', mc)]
        kk.stubs = ['rename per nesting level: Module / Item / BindgenContext -> Module<L> / Item<L> / Ctx<L> (breaks the Module -> Item -> Module recursion for CBMC; text otherwise verbatim)', 'proc_macro2::TokenStream: a summary (helpers used / defined here / defined inside); quote!{pub mod ..} sums its inner items', 'leaf items: emit one item using a symbolic set of helpers and announce them through the real saw_* methods',
                    'utils::prepend_*: insert a definition marker at the front', 'Vec: running summary of what was pushed; HashSet / HashMap / DynamicItems: unit stubs (not used on this path)', 'module_lines / canonical names: tokens']
        kk.bounds = ['chains of 1..3 nested modules with one leaf item; helper use sets: all; one child per module']
        return kk
    ks.append(kernel_or_error('module_helpers', modules))
    def argnames():
        G = os.path.dirname(os.path.dirname(os.path.abspath(__file__)))
        mod = rd('codegen/mod.rs')
        it = extract(mod, r'^    pub\(crate\) fn fnsig_arguments_iter<', what='utils::fnsig_arguments_iter')
        fa = extract(mod, r'^    pub\(crate\) fn fnsig_arguments\(', what='utils::fnsig_arguments')
        fi = extract(mod, r'^    pub\(crate\) fn fnsig_argument_identifiers\(', what='utils::fnsig_argument_identifiers')
        def rw(t):
            t, k = re.subn(r'format!\("arg\{unnamed_arguments\}"\)', 'format!("arg{}", unnamed_arguments)', t)
            if k != 1:
                raise SliceError('expected one format!("arg{unnamed_arguments}") per function')
            return t
        h = open(os.path.join(G, 'harness', 'c01_args.rs')).read().replace('/*ARGS_ITER*/', rw(it)).replace('/*ARGS*/', fa).replace('/*IDENTS*/', rw(fi))
        kk = Kernel(name='parameter_names')
        kk.files = {'src/lib.rs': h}
        kk.harnesses = [H('binding_parameters_have_distinct_names_and_calls_use_the_same_ones', timeout=900, desc='fnsig_arguments(_iter) and fnsig_argument_identifiers: named parameters keep their names, made-up names never collide with them or with each other, the identifier list used for forwarding calls is the same sequence, `...` comes last', sample='<= 3 parameters: unnamed / named / called arg<k> by the user; variadic or not')]
        kk.encoded = [enc('codegen/mod.rs', 'utils::fnsig_arguments_iter', it), enc('codegen/mod.rs', 'utils::fnsig_arguments', fa), enc('codegen/mod.rs', 'utils::fnsig_argument_identifiers', fi)]
        kk.stubs = ['String = Tok (identity of a name); rust_mangle / rust_ident: identity (the escaping decision is kernel mangle)', 'quote!: three arms (`name: type`, `...`, identifier)', 'rewrite: format!("arg{unnamed_arguments}") -> format!("arg{}", unnamed_arguments) (macro hygiene)']
        kk.assumptions = ['names written by the user are pairwise distinct (C)']
        kk.bounds = ['<= 3 parameters']
        return kk
    ks.append(kernel_or_error('parameter_names', argnames))
    return ks
