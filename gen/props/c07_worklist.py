"""C07-A: the real work-list loop (ir/analysis/mod.rs::analyze + ConstrainResult) on a generic symbolic framework."""
import os, re
from common import *

PRELUDE = r'''
#![allow(warnings)]
use std::ops;
pub const N: usize = /*N*/;
pub const CAP: usize = /*CAP*/;
#[derive(Clone, Debug)]
pub struct Vec<T> { buf: [Option<T>; CAP], len: usize }
impl<T: Copy> Vec<T> {
    pub fn new() -> Self { Vec { buf: [None; CAP], len: 0 } }
    pub fn push(&mut self, t: T) { assert!(self.len < CAP, "stub Vec capacity"); self.buf[self.len] = Some(t); self.len += 1; }
    pub fn pop(&mut self) -> Option<T> { if self.len == 0 { None } else { self.len -= 1; self.buf[self.len] } }
    // more of the std API, so that a schedule change written with it is decided rather than failing to compile
    pub fn len(&self) -> usize { self.len }
    pub fn is_empty(&self) -> bool { self.len == 0 }
    pub fn retain<F: FnMut(&T) -> bool>(&mut self, mut f: F) { let mut w = 0; let mut r = 0; while r < CAP { if r < self.len { let x = self.buf[r].unwrap(); if f(&x) { self.buf[w] = Some(x); w += 1; } } r += 1; } self.len = w; }
    pub fn contains(&self, x: &T) -> bool where T: PartialEq { let mut i = 0; let mut r = false; while i < CAP { if i < self.len && self.buf[i].as_ref() == Some(x) { r = true; } i += 1; } r }
    pub fn dedup(&mut self) where T: PartialEq { let mut w = 0; let mut r = 0; while r < CAP { if r < self.len { let x = self.buf[r].unwrap(); if w == 0 || self.buf[w - 1] != Some(x) { self.buf[w] = Some(x); w += 1; } } r += 1; } self.len = w; }
}
#[derive(Clone, Debug)]
pub struct HashSet<T> { items: Vec<T> }
impl<T: Copy + PartialEq> Default for HashSet<T> { fn default() -> Self { HashSet { items: Vec::new() } } }
impl<T: Copy + PartialEq> HashSet<T> {
    pub fn new() -> Self { Self::default() }
    pub fn insert(&mut self, t: T) -> bool { if self.items.contains(&t) { false } else { self.items.push(t); true } }
    pub fn contains(&self, t: &T) -> bool { self.items.contains(t) }
}
'''
HARNESS = r'''
/// generic monotone framework: nodes 0..N, symbolic graph, per-node lattice {0,1,2}, constrain = seed v join of successors,
/// each_depending_on = exact reverse relation (minus one edge in the twin)
#[derive(Debug)]
pub struct Sym { g: [[bool; N]; N], seed: [u8; N], val: [u8; N], order: [u8; N], break_edge: Option<(u8, u8)> }
impl MonotoneFramework for Sym {
    type Node = u8; type Extra = Sym; type Output = [u8; N];
    fn new(e: Sym) -> Sym { e }
    fn initial_worklist(&self) -> Vec<u8> { let mut v = Vec::new(); let mut i = 0; while i < N { v.push(self.order[i]); i += 1; } v }
    fn constrain(&mut self, n: u8) -> ConstrainResult {
        let n = n as usize; let mut m = self.seed[n]; if self.val[n] > m { m = self.val[n]; }
        let mut j = 0; while j < N { if self.g[n][j] && self.val[j] > m { m = self.val[j]; } j += 1; }
        if m != self.val[n] { self.val[n] = m; ConstrainResult::Changed } else { ConstrainResult::Same }
    }
    fn each_depending_on<F: FnMut(u8)>(&self, n: u8, mut f: F) {
        let mut i = 0; while i < N { if self.g[i][n as usize] && self.break_edge != Some((i as u8, n)) { f(i as u8); } i += 1; }
    }
}
impl From<Sym> for [u8; N] { fn from(s: Sym) -> [u8; N] { s.val } }

/// The situation CannotDerive creates (ir/analysis/derive.rs): items 0..N-2 are allowlisted referrers, item N-1 is a NON-allowlisted neighbour.
/// Its fact only exists once it has been constrained (before that readers see the default), and nothing depends on it in the reverse map
/// (generate_dependencies records allowlisted targets only).  The initial work list is built as CannotDerive::initial_worklist builds it:
/// for every allowlisted item, the item followed by everything it traces - so the neighbour is queued once per referrer and, popped last-in
/// first-out, is constrained right before each of them.  analyze() must therefore process EVERY queued copy.
#[derive(Debug)]
pub struct Lazy { refers: [bool; N], seed: [u8; N], val: [u8; N], known: bool, fact: u8, calls: usize }
impl MonotoneFramework for Lazy {
    type Node = u8; type Extra = Lazy; type Output = [u8; N];
    fn new(e: Lazy) -> Lazy { e }
    fn initial_worklist(&self) -> Vec<u8> { let mut v = Vec::new(); let mut i = 0; while i < N - 1 { v.push(i as u8); if self.refers[i] { v.push((N - 1) as u8); } i += 1; } v }
    fn constrain(&mut self, n: u8) -> ConstrainResult {
        self.calls += 1;
        let n = n as usize;
        if n == N - 1 { if self.known { return ConstrainResult::Same; } self.known = true; self.val[n] = self.fact; return if self.fact != 0 { ConstrainResult::Changed } else { ConstrainResult::Same }; }
        let mut m = self.seed[n]; if self.val[n] > m { m = self.val[n]; }
        if self.refers[n] && self.known && self.val[N - 1] > m { m = self.val[N - 1]; }
        if m != self.val[n] { self.val[n] = m; ConstrainResult::Changed } else { ConstrainResult::Same }
    }
    fn each_depending_on<F: FnMut(u8)>(&self, _n: u8, _f: F) {}      // referrers do not refer to each other here; the neighbour has no recorded dependants
}
impl From<Lazy> for [u8; N] { fn from(s: Lazy) -> [u8; N] { s.val } }
#[cfg(kani)]
mod proofs {
    use super::*;
    fn lfp(g: &[[bool; N]; N], seed: &[u8; N]) -> [u8; N] {
        let mut cur = *seed; let mut r = 0;
        while r < N { let mut nxt = cur; let mut i = 0; while i < N { let mut j = 0; while j < N { if g[i][j] && cur[j] > nxt[i] { nxt[i] = cur[j]; } j += 1; } i += 1; } cur = nxt; r += 1; }
        cur
    }
    fn setup(break_edge: bool) -> (Sym, [u8; N]) {
        let g: [[bool; N]; N] = kani::any();
        let seed: [u8; N] = kani::any(); let mut i = 0; while i < N { kani::assume(seed[i] <= 2); i += 1; }
        let order: [u8; N] = kani::any();
        let mut seen = [false; N]; let mut k = 0; while k < N { kani::assume((order[k] as usize) < N); kani::assume(!seen[order[k] as usize]); seen[order[k] as usize] = true; k += 1; }
        let be = if break_edge { let a: u8 = kani::any(); let b: u8 = kani::any(); kani::assume((a as usize) < N && (b as usize) < N && g[a as usize][b as usize] && a != b); Some((a, b)) } else { None };
        let want = lfp(&g, &seed);
        (Sym { g, seed, val: [0; N], order, break_edge: be }, want)
    }
    #[kani::proof] #[kani::unwind(/*UNW*/)]
    fn analyze_reaches_least_fixed_point_for_every_initial_order() {
        let (s, want) = setup(false);
        let got = analyze::<Sym>(s);
        let mut i = 0; while i < N { assert!(got[i] == want[i], "work-list result is not the least fixed point"); i += 1; }
    }
    #[kani::proof] #[kani::unwind(/*UNW*/)]
    fn twin_with_one_dependency_edge_removed() {
        let (s, want) = setup(true);
        let got = analyze::<Sym>(s);
        let mut i = 0; while i < N { assert!(got[i] == want[i], "work-list result is not the least fixed point"); i += 1; }
    }
    #[kani::proof] #[kani::unwind(/*UNW*/)]
    fn every_queued_copy_is_processed_so_late_facts_reach_all_referrers() {
        let refers: [bool; N] = kani::any(); let seed: [u8; N] = kani::any(); let fact: u8 = kani::any();
        let mut i = 0; while i < N { kani::assume(seed[i] <= 2); i += 1; } kani::assume(fact <= 2);
        let got = analyze::<Lazy>(Lazy { refers, seed, val: [0; N], known: false, fact, calls: 0 });
        let mut i = 0; while i < N - 1 {
            let want = if refers[i] && fact > seed[i] { fact } else { seed[i] };
            assert!(got[i] == want, "a referrer of a non-allowlisted item was left with a fact computed before that item had one (the result depends on item numbering)");
            i += 1; }
        kani::cover!(refers[0] && refers[1] && fact == 2, "two referrers share the neighbour");
    }
    #[kani::proof]
    fn constrain_result_bitor_is_join() {
        let a = if kani::any() { ConstrainResult::Changed } else { ConstrainResult::Same };
        let b = if kani::any() { ConstrainResult::Changed } else { ConstrainResult::Same };
        let c = a | b;
        assert!((c == ConstrainResult::Changed) == (a == ConstrainResult::Changed || b == ConstrainResult::Changed));
        let mut d = a; d |= b; assert!(d == c);
    }
}
'''


def kernel(tier, seed):
    amod = strip_test_mods(strip_uses(strip_inner(rd('ir/analysis/mod.rs'))))
    amod = re.sub(r'pub\(crate\) use self::[^;]*;', '', amod, flags=re.S)
    amod = re.sub(r'pub use self::[^;]*;', '', amod, flags=re.S)
    gd = extract(amod, r'^pub\(crate\) fn generate_dependencies<F>\(', what='generate_dependencies')
    amod = amod.replace(gd, '')     # needs the IR; exercised by the one-step kernels
    amod = re.sub(r'^use std::ops;\s*$', '', amod, flags=re.M)
    n = 3
    # every node can be re-queued once per lattice step of each predecessor: N + N*N*height pops at most
    cap, unw = 24, 26
    text = PRELUDE.replace('/*N*/', str(n)).replace('/*CAP*/', str(cap)) + amod + HARNESS.replace('/*UNW*/', str(unw))
    k = Kernel(name='worklist')
    k.files = {'src/lib.rs': text}
    k.harnesses = [
        H('analyze_reaches_least_fixed_point_for_every_initial_order', timeout=1500, weight=3, desc='real analyze() on a symbolic %dx%d graph, seeds <= 2, symbolic initial order: result = least fixed point' % (n, n), sample={'nodes': n, 'graph': 'any', 'order': 'any permutation'}),
        H('twin_with_one_dependency_edge_removed', expect='twin', timeout=1500, weight=3, desc='same with one reverse edge withheld: must fail (witness that the check can see a missing re-queue)'),
        H('every_queued_copy_is_processed_so_late_facts_reach_all_referrers', timeout=900, desc='real analyze() on the framework shape CannotDerive creates: a non-allowlisted neighbour without recorded dependants, queued once per referrer as CannotDerive::initial_worklist does; every referrer ends with the neighbour\'s fact', sample={'referrers': n - 1, 'facts': '0..2'}),
        H('constrain_result_bitor_is_join', desc='ConstrainResult | and |= are the join', sample='2x2'),
    ]
    k.encoded = [enc('ir/analysis/mod.rs', 'fn analyze, trait MonotoneFramework, enum ConstrainResult + BitOr/BitOrAssign', rd('ir/analysis/mod.rs'))]
    k.stubs = ['Vec: fixed capacity %d (capacity asserted)' % cap, 'generate_dependencies removed from this kernel (exercised by the one-step kernels)']
    k.assumptions = ['framework under test: monotone inflationary constrain with exact reverse-dependency relation (what the one-step kernels establish for the real analyses)']
    k.bounds = ['N = %d nodes, lattice height 2, unwind %d' % (n, unw)]
    return k
