"""Shape-parameterised harnesses for RustTarget::from_str, spliced into the features kernel (used by C12 and C13)."""
import os, re
from common import *
G = os.path.dirname(os.path.dirname(os.path.abspath(__file__)))

SUFFIXES = [(0, ''), (1, '-beta'), (2, '-beta.3'), (3, '-nightly'), (4, '-x')]

SHAPE_TMPL = """
    #[kani::proof] #[kani::unwind(%(unw)d)] #[kani::stub(core::slice::memchr::memchr, naive_memchr)] #[kani::stub(alloc::fmt::format, stub_format)]
    fn %(name)s() {
        let m: [u8; %(md)d] = [%(mdig)s]; let p: [u8; %(pdn)d] = [%(pdig)s];
        let buf: [u8; %(n)d] = [%(bytes)s];
        check(&buf, val(&m), %(pval)s, %(sid)d);
    }"""


def shapes():
    out = []
    for md in (1, 2, 3):
        for pd in (0, 1, 2):
            for sid, suf in SUFFIXES:
                out.append((md, pd, sid, suf))
    return out


def gen_shape(md, pd, sid, suf):
    name = 'from_str_m%d_p%d_s%d' % (md, pd, sid)
    parts = ["b'1'", "b'.'"] + ["b'0' + m[%d]" % i for i in range(md)]
    if pd:
        parts += ["b'.'"] + ["b'0' + p[%d]" % i for i in range(pd)]
    parts += ["b'%s'" % c for c in suf]
    n = len(parts)
    body = SHAPE_TMPL % dict(name=name, unw=n + 3, md=md, mdig=', '.join(['digit()'] * md), pdn=pd if pd else 1,
                             pdig=', '.join(['digit()'] * pd) if pd else '0', n=n, bytes=', '.join(parts),
                             pval='val(&p)' if pd else '0', sid=sid)
    return name, body, '1.' + 'D' * md + ('.' + 'D' * pd if pd else '') + suf


def features_kernel(include_roundtrip, tier, quick_pred):
    src = strip_test_mods(strip_inner(rd('features.rs')))
    gen, hs = [], []
    for (md, pd, sid, suf) in shapes():
        name, body, shape = gen_shape(md, pd, sid, suf)
        gen.append(body)
        hs.append(H(name, path='features::codec_proofs::' + name, stubbing=True, timeout=900,
                    tier='quick' if quick_pred(md, pd, sid) else 'thorough',
                    desc='RustTarget::from_str on shape "%s" (D = symbolic digit): no panic, accepts exactly supported targets, value = text' % shape,
                    sample={'shape': shape}))
    har = open(os.path.join(G, 'harness', 'c13_features.rs')).read().replace('/*GENERATED*/', '\n'.join(gen))
    if include_roundtrip:
        # (target_roundtrip_* through u64 Display do not finish under CBMC: not registered; the shape harnesses cover the parsing side)
        for n in ('nightly_roundtrip', 'edition_roundtrip'):
            hs.append(H(n, path='features::codec_proofs::' + n, stubbing=True, timeout=900, tier='quick',
                        desc='Display then FromStr is the identity', sample=n))
    k = Kernel(name='features_text')
    k.files = {'src/lib.rs': '#![allow(warnings)]\npub mod features;\n', 'src/features.rs': src + '\n' + har}
    k.cargo_features = ['__cli']
    k.harnesses = hs
    k.encoded = [enc('features.rs', 'whole file (FromStr/Display for RustTarget, RustEdition)', rd('features.rs'))]
    k.stubs = ['-Z stubbing: core::slice::memchr::memchr -> naive loop (pointer-alignment loops of the real one cannot be bounded)',
               '-Z stubbing: alloc::fmt::format -> empty string, only in harnesses whose property does not mention the error text']
    k.assumptions = ['string shapes come from the stated list; each digit position is symbolic over 0..=9']
    k.bounds = ['shapes 1.D{1,3}[.D{1,2}] x suffix in {"", -beta, -beta.3, -nightly, -x}: 45 shapes; round trip: minor 2-3 digits, patch 1-2 digits']
    return k
