"""C13 kernels: CodegenConfig <-> --generate, and header ordering between command_line_flags() and generate()."""
import os, re
from common import *
G = os.path.dirname(os.path.dirname(os.path.abspath(__file__)))

TOK = r'''
// ---- token stand-ins for String / Box<str> (heap-backed Vec<String> code is intractable under CBMC, measured) ----
#[derive(Clone, Copy, Debug, PartialEq)]
pub enum Tok { Lit(&'static str), Join([&'static str; 6], usize) }
impl From<&'static str> for Tok { fn from(s: &'static str) -> Tok { Tok::Lit(s) } }
impl Tok {
    pub fn join(v: &Vec<Tok>, _sep: &str) -> Tok { let mut a = [""; 6]; let mut i = 0; while i < 6 { if i < v.len { if let Tok::Lit(s) = v.buf[i] { a[i] = s; } } i += 1; } Tok::Join(a, v.len) }
    pub fn is(&self, s: &str) -> bool { match self { Tok::Lit(x) => *x == s, _ => false } }
}
pub const CAP: usize = 12;
#[derive(Clone, Copy, Debug, PartialEq)]
pub struct Vec<T: Copy> { pub buf: [T; CAP], pub len: usize }
impl<T: Copy + Default> Vec<T> { pub fn new() -> Self { Vec { buf: [T::default(); CAP], len: 0 } } }
impl Default for Tok { fn default() -> Tok { Tok::Lit("") } }
impl<T: Copy> Vec<T> {
    pub fn push(&mut self, t: T) { assert!(self.len < CAP); self.buf[self.len] = t; self.len += 1; }
    pub fn is_empty(&self) -> bool { self.len == 0 }
    pub fn extend<I: IntoIterator<Item = T>>(&mut self, it: I) { for x in it { self.push(x); } }
}
impl<T: Copy> core::ops::Deref for Vec<T> { type Target = [T]; fn deref(&self) -> &[T] { &self.buf[..self.len] } }
macro_rules! vec { () => { Vec::new() } }
'''

GEN_HARNESS = r'''
#![allow(warnings)]
#[derive(Copy, Clone, Debug, PartialEq, Eq)] pub struct CodegenConfig(pub u32);
impl CodegenConfig {
    pub const FUNCTIONS: Self = Self(1 << 0); pub const TYPES: Self = Self(1 << 1); pub const VARS: Self = Self(1 << 2);
    pub const METHODS: Self = Self(1 << 3); pub const CONSTRUCTORS: Self = Self(1 << 4); pub const DESTRUCTORS: Self = Self(1 << 5);
    pub fn empty() -> Self { Self(0) }
    pub fn insert(&mut self, o: Self) { self.0 |= o.0; }
    pub fn contains(self, o: Self) -> bool { self.0 & o.0 == o.0 }
    pub fn remove(&mut self, o: Self) { self.0 &= !o.0; }
    pub fn all() -> Self { Self(63) }
}
/*CONFIG_IMPL*/
pub struct Options { pub codegen_config: CodegenConfig }
pub struct Builder { pub options: Options }
/// the `methods: { .. }` block of the codegen_config entry of options! (options/mod.rs): ignore_functions, ignore_methods, with_codegen_config
impl Builder {
/*BUILDER_METHODS*/
}
fn app_flag<F: Fn(Builder, bool) -> Builder>(b: Builder, given: bool, f: F) -> Builder { if given { f(b, true) } else { b } }
fn app_value<F: Fn(Builder, CodegenConfig) -> Builder>(b: Builder, v: Option<CodegenConfig>, f: F) -> Builder { match v { Some(v) => f(b, v), None => b } }
/// the three entries of the apply_args! table of builder_from_flags (options/cli.rs), applied in table order as CliArg::apply does
pub fn apply_cli(mut builder: Builder, generate: Option<CodegenConfig>, ignore_functions: bool, ignore_methods: bool) -> Builder {
/*APPLY_ENTRIES*/
    builder
}
pub enum ErrorKind { InvalidValue }
pub struct Error; impl Error { pub fn raw<T>(_: ErrorKind, _: T) -> Error { Error } }
/*PARSE*/
pub mod flags { use super::*; /*TOK*/
    pub fn as_args(codegen_config: &CodegenConfig, args: &mut Vec<Tok>) { /*AS_ARGS*/ }
}
#[cfg(kani)]
mod proofs {
    use super::*; use super::flags::*;
    pub fn naive_memchr(x: u8, text: &[u8]) -> Option<usize> { let mut i = 0; while i < text.len() { if text[i] == x { return Some(i); } i += 1; } None }
    pub fn stub_format(_: core::fmt::Arguments<'_>) -> String { String::new() }
    /// the text a joined token denotes
    fn render(parts: &[&'static str; 6], n: usize, buf: &mut [u8; 64]) -> usize {
        let mut k = 0; let mut i = 0;
        while i < 6 { if i < n { if i > 0 { buf[k] = b','; k += 1; } let b = parts[i].as_bytes(); let mut j = 0; while j < b.len() { buf[k] = b[j]; k += 1; j += 1; } } i += 1; }
        k
    }
    fn case(bits: u32) {
        let c = CodegenConfig(bits);
        let mut args: Vec<Tok> = Vec::new();
        as_args(&c, &mut args);
        let mut got: Option<u32> = None; let mut ign_f = false; let mut ign_m = false;
        let mut i = 0;
        while i < CAP {
            if i < args.len {
                if args.buf[i].is("--generate") {
                    assert!(i + 1 < args.len, "--generate without a value");
                    match args.buf[i + 1] { Tok::Join(parts, n) => { let mut buf = [0u8; 64]; let k = render(&parts, n, &mut buf);
                            let s = unsafe { core::str::from_utf8_unchecked(&buf[..k]) };
                            match parse_codegen_config(s) { Ok(v) => got = Some(v.0), Err(_) => assert!(false, "the --generate value written by as_args is rejected by the parser") } }
                        _ => assert!(false, "--generate value is not the joined list") }
                } else if args.buf[i].is("--ignore-functions") { ign_f = true; } else if args.buf[i].is("--ignore-methods") { ign_m = true; }
            }
            i += 1;
        }
        // the flags-to-builder direction: the real table entries and builder methods, starting from the default configuration
        let b = apply_cli(Builder { options: Options { codegen_config: CodegenConfig::all() } }, got.map(CodegenConfig), ign_f, ign_m);
        assert!(b.options.codegen_config.0 == bits, "CodegenConfig does not round-trip through --generate / --ignore-functions / --ignore-methods");
    }
    // concrete configurations (a symbolic one makes the rendered --generate text symbolic and the real parser intractable): all 63 non-empty sets
    /*GENERATED*/
}
'''

HDR_HARNESS = r'''
#![allow(warnings)]
/*TOK*/
#[derive(Clone, Copy, Debug, PartialEq, Default)] pub struct Hdr(pub u8);           // a header path or clang argument, by identity; 255 = "-include", 254 = "--"
impl From<&'static str> for Hdr { fn from(s: &'static str) -> Hdr { if s == "-include" { Hdr(255) } else if s == "--" { Hdr(254) } else { Hdr(253) } } }
pub struct Options { pub input_headers: Vec<Hdr>, pub clang_args: Vec<Hdr> }
pub struct Builder { pub options: Options }
impl Builder {
    /// the header-related statements of Builder::command_line_flags (options/mod.rs); other option fields omitted
    pub fn command_line_flags(&self) -> Vec<Hdr> {
        let mut args = vec![];
        /*FLAGS_HEAD*/
        args.push(Hdr::from("--"));
        if !self.options.clang_args.is_empty() { args.extend(self.options.clang_args.iter().map(|s| s.clone().into())); }
        /*FLAGS_TAIL*/
        args
    }
    /// the header-related statement of Builder::generate (lib.rs): what clang finally sees
    pub fn clang_command_line(mut self) -> (Vec<Hdr>, Option<Hdr>) {
        /*GENERATE_STMT*/
        let main = self.options.input_headers.last().cloned();
        (self.options.clang_args, main)
    }
}
#[cfg(kani)]
mod proofs {
    use super::*;
    #[kani::proof] #[kani::unwind(16)]
    fn header_order_roundtrips() {
        let n: usize = kani::any(); kani::assume(n >= 1 && n <= 4);
        let mut hs: Vec<Hdr> = Vec::new();
        let mut i = 0; while i < 4 { if i < n { hs.push(Hdr(i as u8 + 1)); } i += 1; }
        let mut ca: Vec<Hdr> = Vec::new(); if kani::any() { ca.push(Hdr(100)); }
        let b1 = Builder { options: Options { input_headers: hs, clang_args: ca } };
        let flags = b1.command_line_flags();
        // flags -> builder, as cli.rs does: the positional argument is the header, everything after `--` goes to clang
        let positional = flags.buf[0];
        assert!(flags.len >= 2 && flags.buf[1] == Hdr(254), "only the header precedes `--` in this slice");
        let mut ca2: Vec<Hdr> = Vec::new();
        let mut i = 2; while i < CAP { if i < flags.len { ca2.push(flags.buf[i]); } i += 1; }
        let mut h2: Vec<Hdr> = Vec::new(); h2.push(positional);
        let b2 = Builder { options: Options { input_headers: h2, clang_args: ca2 } };
        let (c1, m1) = b1.clang_command_line();
        let (c2, m2) = b2.clang_command_line();
        assert!(m1 == m2, "main header differs after the flags round trip");
        assert!(c1 == c2, "-include order / clang arguments differ after the flags round trip");
        kani::cover!(n == 4, "four headers");
    }
}
'''



FA_HARNESS = r"""
#![allow(warnings)]
pub enum ErrorKind { InvalidValue }
pub struct Error; impl Error { pub fn raw<T>(_: ErrorKind, _: T) -> Error { Error } }
pub struct TokenStream; impl TokenStream { pub fn from_str(_: &str) -> Result<TokenStream, ()> { Ok(TokenStream) } }
/// owned strings of the result are kept as the slices they were copied from (rewrite: .to_owned() -> .verif_ref())
pub type String<'a> = &'a str;
pub trait VerifStr { fn verif_ref(&self) -> &str; fn verif_rsplit_once<'a>(&'a self, pat: &str) -> Option<(&'a str, &'a str)>; fn verif_split_once<'a>(&'a self, pat: &str) -> Option<(&'a str, &'a str)>; }
fn at(h: &[u8], i: usize, p: &[u8]) -> bool { if i + p.len() > h.len() { return false; } let mut j = 0; while j < p.len() { if h[i + j] != p[j] { return false; } j += 1; } true }
impl VerifStr for str {
    fn verif_ref(&self) -> &str { self }
    /// str::rsplit_once with a string pattern (std uses the two-way searcher, which CBMC cannot get through): last occurrence, naive search
    fn verif_rsplit_once<'a>(&'a self, pat: &str) -> Option<(&'a str, &'a str)> {
        let (h, p) = (self.as_bytes(), pat.as_bytes()); let mut i = h.len();
        loop { if at(h, i, p) { return Some(unsafe { (core::str::from_utf8_unchecked(&h[..i]), core::str::from_utf8_unchecked(&h[i + p.len()..])) }); } if i == 0 { return None; } i -= 1; }
    }
    fn verif_split_once<'a>(&'a self, pat: &str) -> Option<(&'a str, &'a str)> {
        let (h, p) = (self.as_bytes(), pat.as_bytes()); let mut i = 0;
        while i <= h.len() { if at(h, i, p) { return Some(unsafe { (core::str::from_utf8_unchecked(&h[..i]), core::str::from_utf8_unchecked(&h[i + p.len()..])) }); } i += 1; }
        None
    }
}
/*PARSE_FIELD_ATTR*/
#[cfg(kani)]
mod proofs {
    use super::*;
    pub fn naive_memchr(x: u8, text: &[u8]) -> Option<usize> { let mut i = 0; while i < text.len() { if text[i] == x { return Some(i); } i += 1; } None }
    pub fn naive_memrchr(x: u8, text: &[u8]) -> Option<usize> { let mut i = text.len(); while i > 0 { i -= 1; if text[i] == x { return Some(i); } } None }
    pub fn stub_format(_: core::fmt::Arguments<'_>) -> ::std::string::String { ::std::string::String::new() }
    fn ident() -> u8 { let b: u8 = kani::any(); kani::assume(b >= b'a' && b <= b'z'); b }
    /// text as the as_args closure prints it: format!("{type_pat}::{field_pat}={attr}"); T = length of the type pattern (4: it contains "::" itself, as in ns::T),
    /// `attr_eq`: the attribute itself contains '=' at that index (doc = "...", serde(rename = "x"))
    fn case<const T: usize, const A: usize>(attr_eq: usize) {
        let mut ty = [0u8; T]; let mut i = 0; while i < T { ty[i] = ident(); i += 1; }
        if T == 4 { ty[1] = b':'; ty[2] = b':'; }
        let f = ident();
        let mut attr = [0u8; A]; let mut i = 0; while i < A { attr[i] = ident(); i += 1; }
        if attr_eq < A { attr[attr_eq] = b'='; }
        let mut buf = [0u8; 16]; let mut n = 0;
        let mut i = 0; while i < T { buf[n] = ty[i]; n += 1; i += 1; }
        buf[n] = b':'; buf[n + 1] = b':'; buf[n + 2] = f; buf[n + 3] = b'='; n += 4;
        let mut i = 0; while i < A { buf[n] = attr[i]; n += 1; i += 1; }
        let s = unsafe { core::str::from_utf8_unchecked(&buf[..n]) };
        match parse_field_attr(s) {
            Ok((t, field, a)) => {
                assert!(t.as_bytes().len() == T, "type pattern does not read back");
                let mut i = 0; while i < T { assert!(t.as_bytes()[i] == ty[i], "type pattern does not read back"); i += 1; }
                assert!(field.as_bytes().len() == 1 && field.as_bytes()[0] == f, "field pattern does not read back");
                assert!(a.as_bytes().len() == A, "attribute text truncated or extended");
                let mut i = 0; while i < A { assert!(a.as_bytes()[i] == attr[i], "attribute text does not read back"); i += 1; }
            }
            Err(_) => assert!(false, "--field-attr value written by as_args is rejected"),
        }
    }
    /*GENERATED*/
}
"""


OA_HARNESS = r"""
#![allow(warnings)]
use std::fmt;
use std::str::FromStr;
/*ABI*/
pub mod cli {
    use super::*;
    pub enum ErrorKind { InvalidValue }
    pub struct Error; impl Error { pub fn raw<T>(_: ErrorKind, _: T) -> Error { Error } }
    /// the owned regex of the result is kept as the slice it was copied from (rewrite: .to_owned() -> .verif_ref())
    pub type String<'a> = &'a str;
    pub trait VerifStr { fn verif_ref(&self) -> &str; }
    impl VerifStr for str { fn verif_ref(&self) -> &str { self } }
/*PARSE*/
}
#[cfg(kani)]
mod proofs {
    use super::*;
    pub fn naive_memchr(x: u8, text: &[u8]) -> Option<usize> { let mut i = 0; while i < text.len() { if text[i] == x { return Some(i); } i += 1; } None }
    pub fn naive_memrchr(x: u8, text: &[u8]) -> Option<usize> { let mut i = text.len(); while i > 0 { i -= 1; if text[i] == x { return Some(i); } } None }
    pub fn stub_format(_: core::fmt::Arguments<'_>) -> String { String::new() }
    fn rx() -> u8 { let b: u8 = kani::any(); kani::assume((b >= b'a' && b <= b'z') || b == b'.' || b == b'*' || b == b'=' || b == b'|'); b }
    fn case<const R: usize>() {
        let abis = [Abi::C, Abi::Stdcall, Abi::EfiApi, Abi::Fastcall, Abi::ThisCall, Abi::Vectorcall, Abi::Aapcs, Abi::Win64, Abi::CUnwind, Abi::System];
        let mut regex = [0u8; R]; let mut i = 0; while i < R { regex[i] = rx(); i += 1; }
        let mut k = 0;
        while k < abis.len() {
            let abi = abis[k];
            let text = abi.to_string();
            let mut buf = [0u8; 24]; let mut n = 0;
            let mut i = 0; while i < R { buf[n] = regex[i]; n += 1; i += 1; }
            buf[n] = b'='; n += 1;
            let tb = text.as_bytes(); let mut i = 0; while i < tb.len() { buf[n] = tb[i]; n += 1; i += 1; }
            let s = unsafe { core::str::from_utf8_unchecked(&buf[..n]) };
            match cli::parse_abi_override(s) {
                Ok((a, r)) => {
                    assert!(a == abi, "ABI does not read back");
                    assert!(r.as_bytes().len() == R, "regex truncated or extended");
                    let mut i = 0; while i < R { assert!(r.as_bytes()[i] == regex[i], "regex does not read back"); i += 1; }
                }
                Err(_) => assert!(false, "--override-abi value written by as_args is rejected"),
            }
            core::mem::forget(text);
            k += 1;
        }
    }
    /*GENERATED*/
}
"""


OAE_HARNESS = r'''
// C13: the builder -> flags direction of --override-abi: the as_args closure of the abi_overrides option (options/mod.rs), real text.
// Listed rewrites: "lit".to_owned() -> Tok::from("lit"); format!("{item}={abi}") -> format!("{}={}", item, abi) (macro hygiene).
#![allow(warnings)]
/*ABI*/
pub const CAP: usize = 8;
#[derive(Clone, Copy, PartialEq, Debug)] pub enum Tok { None, Flag, Pair(u8, Abi), Lit }
impl From<&'static str> for Tok { fn from(s: &'static str) -> Tok { if s.len() == 14 { Tok::Flag } else { Tok::Lit } } }     // "--override-abi"
macro_rules! format { ("{}={}", $i:expr, $a:expr) => { Tok::Pair(*$i, *$a) } }
pub struct Vec<T> { pub a: [T; CAP], pub n: usize }
impl Vec<Tok> { pub fn push(&mut self, t: Tok) { assert!(self.n < CAP); self.a[self.n] = t; self.n += 1; } }
pub struct List<T, const K: usize> { pub a: [T; K], pub n: usize }
pub struct LIter<'a, T, const K: usize> { l: &'a List<T, K>, i: usize }
impl<'a, T, const K: usize> Iterator for LIter<'a, T, K> { type Item = &'a T; fn next(&mut self) -> Option<&'a T> { if self.i >= K { return None; } let k = self.i; self.i += 1; if k < self.l.n { Some(&self.l.a[k]) } else { None } } }
impl<'a, T, const K: usize> IntoIterator for &'a List<T, K> { type Item = &'a T; type IntoIter = LIter<'a, T, K>; fn into_iter(self) -> LIter<'a, T, K> { LIter { l: self, i: 0 } } }
pub struct RegexSet { pub items: List<u8, 2> } impl RegexSet { pub fn get_items(&self) -> &List<u8, 2> { &self.items } }
/// HashMap<Abi, RegexSet> iterates as (&Abi, &RegexSet)
pub struct Overrides { pub a: [(Abi, RegexSet); 2], pub n: usize }
pub struct OIter<'a> { o: &'a Overrides, i: usize }
impl<'a> Iterator for OIter<'a> { type Item = (&'a Abi, &'a RegexSet); fn next(&mut self) -> Option<Self::Item> { if self.i >= 2 { return None; } let k = self.i; self.i += 1; if k < self.o.n { Some((&self.o.a[k].0, &self.o.a[k].1)) } else { None } } }
impl<'a> IntoIterator for &'a Overrides { type Item = (&'a Abi, &'a RegexSet); type IntoIter = OIter<'a>; fn into_iter(self) -> OIter<'a> { OIter { o: self, i: 0 } } }
pub fn as_args(overrides: &Overrides, args: &mut Vec<Tok>) { /*AS_ARGS*/ }
#[cfg(kani)]
mod proofs {
    use super::*;
    fn any_abi() -> Abi { let abis = [/*ALL_ABIS*/]; let i: usize = kani::any(); kani::assume(i < abis.len()); abis[i] }
    #[kani::proof] #[kani::unwind(10)]
    fn every_override_is_written_whatever_its_abi() {
        let set = |_: u8| { let n: usize = kani::any(); kani::assume(n <= 2); RegexSet { items: List { a: [kani::any(), kani::any()], n } } };
        let n: usize = kani::any(); kani::assume(n <= 2);
        let (a0, a1) = (any_abi(), any_abi()); kani::assume(a0 != a1);          // a map: one entry per ABI
        let ov = Overrides { a: [(a0, set(0)), (a1, set(1))], n };
        let mut args = Vec { a: [Tok::None; CAP], n: 0 };
        as_args(&ov, &mut args);
        // expected: for every entry, for every pattern: the flag, then pattern=abi
        let mut k = 0; let mut e = 0;
        while e < 2 { if e < ov.n { let mut j = 0; while j < 2 { if j < ov.a[e].1.items.n {
            assert!(k + 1 < args.n && args.a[k] == Tok::Flag && args.a[k + 1] == Tok::Pair(ov.a[e].1.items.a[j], ov.a[e].0), "an --override-abi entry of the builder is not written to the flag list (or is written for another ABI / pattern)");
            k += 2; } j += 1; } } e += 1; }
        assert!(args.n == k, "extra arguments written");
        kani::cover!(k == 8, "four overrides written");
    }
}
'''

def flag_tables():
    """(emitted, defined): long flags written by the as_args side of options!, long flags the clap struct defines."""
    om = rd('options/mod.rs'); cli = rd('options/cli.rs')
    m = re.search(r'^options! \{', om, flags=re.M)
    if not m:
        raise SliceError('options! invocation not found')
    body = om[m.start():match_brace(om, m.end() - 1)]
    emitted = sorted(set(re.findall(r'"(--[A-Za-z0-9_-]+)"', body)))
    m = re.search(r'^struct BindgenCommand \{', cli, flags=re.M)
    if not m:
        raise SliceError('struct BindgenCommand not found')
    sb = cli[m.start():match_brace(cli, m.end() - 1)]
    defined = set()
    i = 0
    while True:
        am = re.search(r'#\[arg\(', sb[i:])
        if not am:
            break
        a = i + am.end() - 1
        e = match_brace(sb, a)
        attrs = sb[a + 1:e - 1]
        fm = re.match(r'\s*\]\s*(?:#\[[^\n]*\]\s*)*(\w+)\s*:', sb[e:])
        i = e
        if not fm:
            continue
        field = fm.group(1)
        if re.search(r'\blong\b', attrs):
            lm = re.search(r'\blong\s*=\s*"([^"]+)"', attrs)
            defined.add('--' + (lm.group(1) if lm else field.replace('_', '-')))
        for al in re.findall(r'(?:visible_)?alias\s*=\s*"([^"]+)"', attrs):
            defined.add('--' + al)
    if len(emitted) < 50 or len(defined) < 50:
        raise SliceError('flag tables implausibly small (%d emitted, %d defined)' % (len(emitted), len(defined)))
    return emitted, sorted(defined), body, sb


def fnv(s):
    h = 0xcbf29ce484222325
    for b in s.encode():
        h = ((h ^ b) * 0x100000001b3) & 0xffffffffffffffff
    return h


def kernels(tier, seed):
    def gen():
        om = rd('options/mod.rs'); cli = rd('options/cli.rs'); lib = rd('lib.rs')
        m = re.search(r'^    codegen_config: CodegenConfig \{', om, flags=re.M)
        if not m:
            raise SliceError('options! entry codegen_config not found')
        entry = om[m.start():match_brace(om, m.end() - 1)]
        m2 = re.search(r'as_args: \|codegen_config, args\| \{', entry)
        if not m2:
            raise SliceError('codegen_config as_args closure not found')
        body = entry[m2.end():match_brace(entry, m2.end() - 1) - 1]
        m3 = re.search(r'methods: \{', entry)
        if not m3:
            raise SliceError('codegen_config methods block not found')
        methods = entry[m3.end():match_brace(entry, m3.end() - 1) - 1]
        # the apply_args! table: entries `name => expr,` / `name,` in order
        ma = re.search(r'builder = apply_args!\(\s*builder \{', cli)
        if not ma:
            raise SliceError('apply_args! invocation not found')
        table = cli[ma.end():match_brace(cli, ma.end() - 1) - 1]
        ents = []
        for name in ('generate', 'ignore_functions', 'ignore_methods'):
            mm = re.search(r'^\s*%s(\s*=>\s*(?P<f>.*?))?,\s*$' % name, table, flags=re.M)
            if not mm:
                raise SliceError('apply_args! entry %s not found' % name)
            ents.append((mm.start(), name, mm.group('f') or 'Builder::%s' % name))
        ents.sort()
        apply_lines = '\n'.join('    builder = %s(builder, %s, %s);' % ('app_value' if n == 'generate' else 'app_flag', n, f) for _, n, f in ents)
        apply_src = '\n'.join('%s => %s' % (n, f) for _, n, f in ents)
        parse = extract(cli, r'^fn parse_codegen_config\(', what='parse_codegen_config')
        impl = extract(lib, r'^impl CodegenConfig \{', what='impl CodegenConfig')
        # mechanical rewrites of the sliced closure (listed in evidence): owned strings -> tokens
        body_t = re.sub(r'("(?:[^"\\\\]|\\\\.)*")\.to_owned\(\)', r'Tok::from(\1)', body).replace('Vec<String>', 'Vec<Tok>').replace('options.join(",")', 'Tok::join(&options, ",")')
        gens, hs = [], []
        for g in range(4):
            vals = [v for v in range(g * 16, g * 16 + 16) if v != 0]    # the empty set prints `--generate ""`, which no parser accepts
            gens.append('#[kani::proof] #[kani::unwind(66)] #[kani::stub(core::slice::memchr::memchr, naive_memchr)] #[kani::stub(alloc::fmt::format, stub_format)] fn generate_flag_roundtrips_%d() { %s }' % (g, ' '.join('case(%d);' % v for v in vals)))
            hs.append(H('generate_flag_roundtrips_%d' % g, stubbing=True, timeout=900, tier='quick' if g in (0, 3) else 'thorough',
                        desc='CodegenConfig values %d..%d: as_args -> --generate/--ignore-* -> parse_codegen_config -> the real apply_args! entries and builder methods = identity' % (vals[0], vals[-1]), sample={'configs': vals}))
        text = GEN_HARNESS.replace('/*GENERATED*/', '\n    '.join(gens)).replace('/*TOK*/', TOK).replace('/*CONFIG_IMPL*/', impl).replace('/*PARSE*/', parse).replace('/*AS_ARGS*/', body_t).replace('/*BUILDER_METHODS*/', methods).replace('/*APPLY_ENTRIES*/', apply_lines)
        k = Kernel(name='generate_flag')
        k.files = {'src/lib.rs': text}
        k.harnesses = hs
        k.encoded = [enc('options/mod.rs', 'options! codegen_config: methods block (ignore_functions, ignore_methods, with_codegen_config)', methods), {'file': 'bindgen/options/cli.rs', 'item': 'apply_args! entries generate / ignore_functions / ignore_methods (table order)', 'sha256': sha(apply_src), 'lines': None}, enc('options/mod.rs', 'options! codegen_config: as_args closure', body), enc('options/cli.rs', 'fn parse_codegen_config', parse), enc('lib.rs', 'impl CodegenConfig', impl)]
        k.stubs = ['CodegenConfig: u32 newtype with the constants/empty/insert/contains of the bitflags type', 'clap Error::raw: unit', '-Z stubbing: memchr naive loop, fmt::format empty', 'mechanical rewrites of the as_args closure: "lit".to_owned() -> Tok::from("lit"), Vec<String> -> Vec<Tok>, options.join(",") -> Tok::join(&options, ",") (token stand-ins for heap strings; the joined token is rendered to text by the harness before the real parser runs)']
        k.assumptions = ['CliArg::apply calls the entry for a bool flag iff it is given and for an Option iff it is Some (options/cli.rs impl CliArg; read, modelled by app_flag / app_value)', 'the empty CodegenConfig is excluded (prints `--generate ""`)']
        k.bounds = ['all 63 non-empty CodegenConfig values, concrete per call (exhaustive finite domain)']
        return k

    def hdr():
        om = rd('options/mod.rs'); lib = rd('lib.rs')
        m = re.search(r'let headers = match self\.options\.input_headers\.[a-z_]+\(\) \{', om)
        if not m:
            raise SliceError('command_line_flags header statement not found')
        e = match_brace(om, m.end() - 1)
        head = om[m.start():e] + ';'
        m2 = re.search(r'for header in headers \{', om)
        if not m2:
            raise SliceError('command_line_flags -include loop not found')
        tail = om[m2.start():match_brace(om, m2.end() - 1)]
        m3 = re.search(r'self\.options\.clang_args\.extend\(\s*self\.options\.input_headers', lib)
        if not m3:
            raise SliceError('Builder::generate -include statement not found')
        i = lib.index('(', m3.start())
        stmt = lib[m3.start():match_brace(lib, i)] + ';'
        rw = lambda t: re.sub(r'("(?:[^"\\\\]|\\\\.)*")\.to_owned\(\)', r'Hdr::from(\1)', t)
        text = HDR_HARNESS.replace('/*TOK*/', TOK).replace('/*FLAGS_HEAD*/', rw(head)).replace('/*FLAGS_TAIL*/', rw(tail)).replace('/*GENERATE_STMT*/', stmt)
        k = Kernel(name='header_order')
        k.files = {'src/lib.rs': text}
        k.harnesses = [H('header_order_roundtrips', timeout=900, desc='1..4 input headers, 0..1 extra clang argument: flags -> builder -> clang command line equals the original builder\'s', sample={'headers': '1..4', 'clang_arg': '0..1'})]
        k.encoded = [enc('options/mod.rs', 'Builder::command_line_flags: header statements', head + tail), enc('lib.rs', 'Builder::generate: -include statement', stmt)]
        k.stubs = ['Builder/Options: two-field stand-ins; other option fields omitted from command_line_flags', 'header paths / arguments are identity tokens (Hdr), Vec is a fixed-capacity array that derefs to a slice; rewrite "lit".to_owned() -> Hdr::from("lit")']
        k.assumptions = ['cli.rs puts the positional header into input_headers and everything after `--` into clang_args (clap; outside the claim)', 'generate() uses input_headers.last() as the main file (lib.rs:880)']
        k.bounds = ['1..4 headers, 0..1 extra clang argument']
        return k
    def fattr():
        cli = rd('options/cli.rs')
        pf = extract(cli, r'^fn parse_field_attr\(', what='parse_field_attr')
        if pf.count('.to_owned()') != 3:
            raise SliceError('parse_field_attr: expected three .to_owned() results')
        pf_t = pf.replace('.to_owned()', '.verif_ref()')
        pf_t = re.sub(r'\.rsplit_once\(("[^"]*")\)', r'.verif_rsplit_once(\1)', pf_t)
        pf_t = re.sub(r'\.split_once\(("[^"]*")\)', r'.verif_split_once(\1)', pf_t)
        gens, hs = [], []
        for (T, A, eq, tier_) in ((1, 2, 9, 'quick'), (1, 3, 1, 'quick'), (4, 3, 1, 'quick'), (2, 4, 0, 'thorough'), (2, 4, 3, 'thorough'), (4, 2, 9, 'thorough')):
            n = 'field_attr_t%d_a%d_%s' % (T, A, 'plain' if eq >= A else 'eq%d' % eq)
            gens.append('#[kani::proof] #[kani::unwind(18)] #[kani::stub(core::slice::memchr::memchr, naive_memchr)] #[kani::stub(core::slice::memchr::memrchr, naive_memrchr)] #[kani::stub(alloc::fmt::format, stub_format)] fn %s() { case::<%d, %d>(%d) }' % (n, T, A, eq))
            hs.append(H(n, stubbing=True, timeout=900, tier=tier_, desc='TYPE::FIELD=ATTR as printed by as_args reads back through parse_field_attr: type pattern of %d bytes%s, attribute of %d bytes%s' % (T, ' (containing ::)' if T == 4 else '', A, ' containing "=" at %d' % eq if eq < A else ''),
                        sample={'type_len': T, 'attr_len': A, 'attr_has_equals_at': eq if eq < A else None}))
        k = Kernel(name='field_attr')
        k.files = {'src/lib.rs': FA_HARNESS.replace('/*PARSE_FIELD_ATTR*/', pf_t).replace('/*GENERATED*/', '\n    '.join(gens))}
        k.harnesses = hs
        k.encoded = [enc('options/cli.rs', 'fn parse_field_attr', pf)]
        k.stubs = ['clap Error::raw: unit', 'proc_macro2::TokenStream::from_str: always Ok (attribute syntax is not the subject)', '-Z stubbing: memchr / memrchr naive loops, fmt::format empty',
                   'mechanical rewrites: .to_owned() -> .verif_ref() (results stay borrowed slices; String = &str), .rsplit_once("lit") / .split_once("lit") with a STRING pattern -> naive search with the same contract (std two-way searcher is out of reach); char patterns run the real std code']
        k.assumptions = ['as_args prints format!("{type_pat}::{field_pat}={attr}") (options/mod.rs field_attr_patterns); the harness builds that text byte by byte']
        k.bounds = ['type pattern 1, 2 or 4 bytes (a::b), 1-byte field pattern, attribute of 2-4 bytes with "=" at a chosen index']
        return k
    def oabi():
        cli = rd('options/cli.rs'); fun = rd('ir/function.rs')
        pf = extract(cli, r'^fn parse_abi_override\(', what='parse_abi_override')
        if pf.count('.to_owned()') != 1:
            raise SliceError('parse_abi_override: expected one .to_owned() result')
        pf_t = pf.replace('.to_owned()', '.verif_ref()').replace('fn parse_abi_override', 'pub fn parse_abi_override')
        pf_t = re.sub(r'\.rsplit_once\(("[^"]*")\)', r'.verif_rsplit_once(\1)', pf_t)
        pf_t = re.sub(r'\.split_once\(("[^"]*")\)', r'.verif_split_once(\1)', pf_t)
        e = extract(fun, r'^pub enum Abi \{', what='enum Abi'); d = extract(fun, r'^impl (std::)?fmt::Display for Abi \{', what='Display for Abi'); f = extract(fun, r'^impl (std::str::)?FromStr for Abi \{', what='FromStr for Abi')
        gens, hs = [], []
        for R in (1, 2, 3):
            n = 'override_abi_regex_len%d' % R
            gens.append('#[kani::proof] #[kani::unwind(24)] #[kani::stub(core::slice::memchr::memchr, naive_memchr)] #[kani::stub(core::slice::memchr::memrchr, naive_memrchr)] #[kani::stub(alloc::fmt::format, stub_format)] fn %s() { case::<%d>() }' % (n, R))
            hs.append(H(n, stubbing=True, timeout=1200, weight=2, tier='quick' if R == 2 else 'thorough', desc='--override-abi REGEX=ABI as printed by as_args reads back through parse_abi_override for every ABI and every %d-byte regex over [a-z.*=|]' % R, sample={'regex_len': R, 'abis': 'all 10'}))
        k = Kernel(name='override_abi')
        k.files = {'src/lib.rs': OA_HARNESS.replace('/*ABI*/', e + '\n' + d + '\n' + f).replace('/*PARSE*/', pf_t).replace('/*GENERATED*/', '\n    '.join(gens))}
        k.harnesses = hs
        k.encoded = [enc('options/cli.rs', 'fn parse_abi_override', pf), enc('ir/function.rs', 'enum Abi + Display + FromStr', e + d + f)]
        k.stubs = ['clap Error::raw: unit', '-Z stubbing: memchr / memrchr naive loops, fmt::format empty', 'mechanical rewrite: .to_owned() -> .verif_ref() (the regex stays a borrowed slice; String = &str inside mod cli)']
        k.assumptions = ['as_args prints format!("{item}={abi}") (options/mod.rs abi_overrides); the harness builds that text byte by byte from Abi::to_string()']
        k.bounds = ['regex of 1-3 bytes over [a-z . * = |]; all 10 ABIs (concrete per iteration)']
        return k
    def oae():
        om = rd('options/mod.rs'); fun = rd('ir/function.rs')
        m = re.search(r'^    abi_overrides: [^\n]*\{', om, flags=re.M)
        if not m:
            raise SliceError('options! entry abi_overrides not found')
        entry = om[m.start():match_brace(om, m.end() - 1)]
        m2 = re.search(r'as_args: \|overrides, args\| \{', entry)
        if not m2:
            raise SliceError('abi_overrides as_args closure not found')
        body = entry[m2.end():match_brace(entry, m2.end() - 1) - 1]
        bt = re.sub(r'("(?:[^"\\\\]|\\\\.)*")\.to_owned\(\)', r'Tok::from(\1)', body)
        bt, k = re.subn(r'format!\("\{item\}=\{abi\}"\)', 'format!("{}={}", item, abi)', bt)
        if k != 1:
            raise SliceError('abi_overrides as_args: format!("{item}={abi}") not found once')
        e = extract(fun, r'^pub enum Abi \{', what='enum Abi')
        variants = re.findall(r'^\s*([A-Z]\w*),\s*$', e, flags=re.M)
        if len(variants) < 8:
            raise SliceError('enum Abi: variants not recognised')
        kk = Kernel(name='override_abi_emission')
        kk.files = {'src/lib.rs': OAE_HARNESS.replace('/*ABI*/', e).replace('/*AS_ARGS*/', bt).replace('/*ALL_ABIS*/', ', '.join('Abi::' + v for v in variants))}
        kk.harnesses = [H('every_override_is_written_whatever_its_abi', desc='as_args closure of abi_overrides: one `--override-abi PATTERN=ABI` pair per pattern of every entry, for every ABI value (%d), nothing else' % len(variants), sample={'entries': '<= 2', 'patterns_per_entry': '<= 2', 'abis': len(variants)})]
        kk.encoded = [enc('options/mod.rs', 'options! abi_overrides: as_args closure', body), enc('ir/function.rs', 'enum Abi', e)]
        kk.stubs = ['HashMap<Abi, RegexSet> / RegexSet::get_items: fixed-capacity lists', 'rewrites: "lit".to_owned() -> Tok::from("lit"); format!("{item}={abi}") -> positional (macro hygiene)']
        kk.bounds = ['<= 2 entries x <= 2 patterns']
        return kk
    def names():
        emitted, defined, body, sb = flag_tables()
        asserts = '\n        '.join('assert!(defined(0x%016x), "Builder::command_line_flags can write %s, which the command line does not define");' % (fnv(f), f) for f in emitted)
        text = '''#![allow(warnings)]
// long flags defined by `struct BindgenCommand` (clap derive: field name or explicit long = "..", aliases), as FNV-1a hashes of their text
pub const DEFINED: [u64; %d] = [%s];
pub fn defined(h: u64) -> bool { let mut i = 0; let mut r = false; while i < DEFINED.len() { if DEFINED[i] == h { r = true; } i += 1; } r }
#[cfg(kani)]
mod proofs {
    use super::*;
    #[kani::proof] #[kani::unwind(%d)]
    fn every_flag_the_builder_writes_is_a_flag_the_command_line_defines() {
        %s
    }
}
''' % (len(defined), ', '.join('0x%016x' % fnv(f) for f in defined), len(defined) + 2, asserts)
        k = Kernel(name='flag_names')
        k.files = {'src/lib.rs': text}
        k.harnesses = [H('every_flag_the_builder_writes_is_a_flag_the_command_line_defines', desc='every "--flag" literal on the as_args side of options! (%d flags) is a long option or alias of the clap struct (%d): a finite table, decided by constant propagation, one assertion per flag' % (len(emitted), len(defined)), sample={'emitted': len(emitted), 'defined': len(defined)})]
        k.encoded = [{'file': 'bindgen/options/mod.rs', 'item': 'options! invocation: every "--flag" string literal', 'sha256': sha(body), 'lines': None}, {'file': 'bindgen/options/cli.rs', 'item': 'struct BindgenCommand: #[arg(long ..)] fields and aliases', 'sha256': sha(sb), 'lines': None}]
        k.stubs = ['the two tables are extracted textually by the generator and compared by hash (FNV-1a 64); clap\'s derive rule (field name with _ -> -) is applied by the generator']
        k.assumptions = ['no two distinct flag names collide under FNV-1a 64']
        k.bounds = ['finite: %d emitted x %d defined' % (len(emitted), len(defined))]
        return k
    return [kernel_or_error('flag_names', names), kernel_or_error('override_abi', oabi), kernel_or_error('override_abi_emission', oae), kernel_or_error('generate_flag', gen), kernel_or_error('header_order', hdr), kernel_or_error('field_attr', fattr)]
