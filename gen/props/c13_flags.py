"""C13 kernels: CodegenConfig <-> --generate, and header ordering between command_line_flags() and generate()."""
import os, re
from common import *
G = os.path.dirname(os.path.dirname(os.path.abspath(__file__)))

TOK = r'''
// ---- token stand-ins for String / Box<str> (heap-backed Vec<String> code is intractable under CBMC, measured) ----
#[derive(Clone, Copy, Debug, PartialEq)]
pub enum Tok { Lit(&'static str), Join([&'static str; 6], usize) }
impl From<&'static str> for Tok { fn from(s: &'static str) -> Tok { Tok::Lit(s) } }
impl Tok {
    pub fn join(v: &Vec<Tok>, _sep: &str) -> Tok { let mut a = [""; 6]; let mut i = 0; while i < 6 { if i < v.len { if let Tok::Lit(s) = v.buf[i] { a[i] = s; } } i += 1; } Tok::Join(a, v.len) }
    pub fn is(&self, s: &str) -> bool { match self { Tok::Lit(x) => *x == s, _ => false } }
}
pub const CAP: usize = 12;
#[derive(Clone, Copy, Debug, PartialEq)]
pub struct Vec<T: Copy> { pub buf: [T; CAP], pub len: usize }
impl<T: Copy + Default> Vec<T> { pub fn new() -> Self { Vec { buf: [T::default(); CAP], len: 0 } } }
impl Default for Tok { fn default() -> Tok { Tok::Lit("") } }
impl<T: Copy> Vec<T> {
    pub fn push(&mut self, t: T) { assert!(self.len < CAP); self.buf[self.len] = t; self.len += 1; }
    pub fn is_empty(&self) -> bool { self.len == 0 }
    pub fn extend<I: IntoIterator<Item = T>>(&mut self, it: I) { for x in it { self.push(x); } }
}
impl<T: Copy> core::ops::Deref for Vec<T> { type Target = [T]; fn deref(&self) -> &[T] { &self.buf[..self.len] } }
macro_rules! vec { () => { Vec::new() } }
'''

GEN_HARNESS = r'''
#![allow(warnings)]
#[derive(Copy, Clone, Debug, PartialEq, Eq)] pub struct CodegenConfig(pub u32);
impl CodegenConfig {
    pub const FUNCTIONS: Self = Self(1 << 0); pub const TYPES: Self = Self(1 << 1); pub const VARS: Self = Self(1 << 2);
    pub const METHODS: Self = Self(1 << 3); pub const CONSTRUCTORS: Self = Self(1 << 4); pub const DESTRUCTORS: Self = Self(1 << 5);
    pub fn empty() -> Self { Self(0) }
    pub fn insert(&mut self, o: Self) { self.0 |= o.0; }
    pub fn contains(self, o: Self) -> bool { self.0 & o.0 == o.0 }
}
/*CONFIG_IMPL*/
pub enum ErrorKind { InvalidValue }
pub struct Error; impl Error { pub fn raw<T>(_: ErrorKind, _: T) -> Error { Error } }
/*PARSE*/
pub mod flags { use super::*; /*TOK*/
    pub fn as_args(codegen_config: &CodegenConfig, args: &mut Vec<Tok>) { /*AS_ARGS*/ }
}
#[cfg(kani)]
mod proofs {
    use super::*; use super::flags::*;
    pub fn naive_memchr(x: u8, text: &[u8]) -> Option<usize> { let mut i = 0; while i < text.len() { if text[i] == x { return Some(i); } i += 1; } None }
    pub fn stub_format(_: core::fmt::Arguments<'_>) -> String { String::new() }
    /// the text a joined token denotes
    fn render(parts: &[&'static str; 6], n: usize, buf: &mut [u8; 64]) -> usize {
        let mut k = 0; let mut i = 0;
        while i < 6 { if i < n { if i > 0 { buf[k] = b','; k += 1; } let b = parts[i].as_bytes(); let mut j = 0; while j < b.len() { buf[k] = b[j]; k += 1; j += 1; } } i += 1; }
        k
    }
    fn case(bits: u32) {
        let c = CodegenConfig(bits);
        let mut args: Vec<Tok> = Vec::new();
        as_args(&c, &mut args);
        let mut got: Option<u32> = None; let mut ign_f = false; let mut ign_m = false;
        let mut i = 0;
        while i < CAP {
            if i < args.len {
                if args.buf[i].is("--generate") {
                    assert!(i + 1 < args.len, "--generate without a value");
                    match args.buf[i + 1] { Tok::Join(parts, n) => { let mut buf = [0u8; 64]; let k = render(&parts, n, &mut buf);
                            let s = unsafe { core::str::from_utf8_unchecked(&buf[..k]) };
                            match parse_codegen_config(s) { Ok(v) => got = Some(v.0), Err(_) => assert!(false, "the --generate value written by as_args is rejected by the parser") } }
                        _ => assert!(false, "--generate value is not the joined list") }
                } else if args.buf[i].is("--ignore-functions") { ign_f = true; } else if args.buf[i].is("--ignore-methods") { ign_m = true; }
            }
            i += 1;
        }
        let mut v = got.unwrap();
        if ign_f { v &= !1; } if ign_m { v &= !8; }
        assert!(v == bits, "CodegenConfig does not round-trip through --generate");
    }
    // concrete configurations (a symbolic one makes the rendered --generate text symbolic and the real parser intractable): all 63 non-empty sets
    /*GENERATED*/
}
'''

HDR_HARNESS = r'''
#![allow(warnings)]
/*TOK*/
#[derive(Clone, Copy, Debug, PartialEq, Default)] pub struct Hdr(pub u8);           // a header path or clang argument, by identity; 255 = "-include", 254 = "--"
impl From<&'static str> for Hdr { fn from(s: &'static str) -> Hdr { if s == "-include" { Hdr(255) } else if s == "--" { Hdr(254) } else { Hdr(253) } } }
pub struct Options { pub input_headers: Vec<Hdr>, pub clang_args: Vec<Hdr> }
pub struct Builder { pub options: Options }
impl Builder {
    /// the header-related statements of Builder::command_line_flags (options/mod.rs); other option fields omitted
    pub fn command_line_flags(&self) -> Vec<Hdr> {
        let mut args = vec![];
        /*FLAGS_HEAD*/
        args.push(Hdr::from("--"));
        if !self.options.clang_args.is_empty() { args.extend(self.options.clang_args.iter().map(|s| s.clone().into())); }
        /*FLAGS_TAIL*/
        args
    }
    /// the header-related statement of Builder::generate (lib.rs): what clang finally sees
    pub fn clang_command_line(mut self) -> (Vec<Hdr>, Option<Hdr>) {
        /*GENERATE_STMT*/
        let main = self.options.input_headers.last().cloned();
        (self.options.clang_args, main)
    }
}
#[cfg(kani)]
mod proofs {
    use super::*;
    #[kani::proof] #[kani::unwind(16)]
    fn header_order_roundtrips() {
        let n: usize = kani::any(); kani::assume(n >= 1 && n <= 4);
        let mut hs: Vec<Hdr> = Vec::new();
        let mut i = 0; while i < 4 { if i < n { hs.push(Hdr(i as u8 + 1)); } i += 1; }
        let mut ca: Vec<Hdr> = Vec::new(); if kani::any() { ca.push(Hdr(100)); }
        let b1 = Builder { options: Options { input_headers: hs, clang_args: ca } };
        let flags = b1.command_line_flags();
        // flags -> builder, as cli.rs does: the positional argument is the header, everything after `--` goes to clang
        let positional = flags.buf[0];
        assert!(flags.len >= 2 && flags.buf[1] == Hdr(254), "only the header precedes `--` in this slice");
        let mut ca2: Vec<Hdr> = Vec::new();
        let mut i = 2; while i < CAP { if i < flags.len { ca2.push(flags.buf[i]); } i += 1; }
        let mut h2: Vec<Hdr> = Vec::new(); h2.push(positional);
        let b2 = Builder { options: Options { input_headers: h2, clang_args: ca2 } };
        let (c1, m1) = b1.clang_command_line();
        let (c2, m2) = b2.clang_command_line();
        assert!(m1 == m2, "main header differs after the flags round trip");
        assert!(c1 == c2, "-include order / clang arguments differ after the flags round trip");
        kani::cover!(n == 4, "four headers");
    }
}
'''



FA_HARNESS = r"""
#![allow(warnings)]
pub enum ErrorKind { InvalidValue }
pub struct Error; impl Error { pub fn raw<T>(_: ErrorKind, _: T) -> Error { Error } }
pub struct TokenStream; impl TokenStream { pub fn from_str(_: &str) -> Result<TokenStream, ()> { Ok(TokenStream) } }
/*PARSE_FIELD_ATTR*/
#[cfg(kani)]
mod proofs {
    use super::*;
    pub fn naive_memchr(x: u8, text: &[u8]) -> Option<usize> { let mut i = 0; while i < text.len() { if text[i] == x { return Some(i); } i += 1; } None }
    pub fn stub_format(_: core::fmt::Arguments<'_>) -> String { String::new() }
    fn ident() -> u8 { let b: u8 = kani::any(); kani::assume(b >= b'a' && b <= b'z'); b }
    /// text as the as_args closure prints it: format!("{type_pat}::{field_pat}={attr}"); `attr_eq`: the attribute itself contains '=' at that index
    fn case<const A: usize>(attr_eq: Option<usize>) {
        let t = ident(); let f = ident();
        let mut attr = [0u8; A]; let mut i = 0; while i < A { attr[i] = ident(); i += 1; }
        if let Some(k) = attr_eq { attr[k] = b'='; }
        let mut buf = [0u8; 16]; buf[0] = t; buf[1] = b':'; buf[2] = b':'; buf[3] = f; buf[4] = b'=';
        let mut i = 0; while i < A { buf[5 + i] = attr[i]; i += 1; }
        let s = unsafe { core::str::from_utf8_unchecked(&buf[..5 + A]) };
        match parse_field_attr(s) {
            Ok((ty, field, a)) => {
                assert!(ty.as_bytes().len() == 1 && ty.as_bytes()[0] == t, "type pattern does not read back");
                assert!(field.as_bytes().len() == 1 && field.as_bytes()[0] == f, "field pattern does not read back");
                assert!(a.as_bytes().len() == A, "attribute text truncated or extended");
                let mut i = 0; while i < A { assert!(a.as_bytes()[i] == attr[i], "attribute text does not read back"); i += 1; }
                core::mem::forget(ty); core::mem::forget(field); core::mem::forget(a);
            }
            Err(_) => assert!(false, "--field-attr value written by as_args is rejected"),
        }
    }
    #[kani::proof] #[kani::unwind(12)] #[kani::stub(core::slice::memchr::memchr, naive_memchr)] #[kani::stub(alloc::fmt::format, stub_format)]
    fn field_attr_plain_roundtrips() { case::<2>(None) }
    #[kani::proof] #[kani::unwind(12)] #[kani::stub(core::slice::memchr::memchr, naive_memchr)] #[kani::stub(alloc::fmt::format, stub_format)]
    fn field_attr_with_equals_roundtrips() { case::<3>(Some(1)) }
}
"""


def kernels(tier, seed):
    def gen():
        om = rd('options/mod.rs'); cli = rd('options/cli.rs'); lib = rd('lib.rs')
        m = re.search(r'^    codegen_config: CodegenConfig \{', om, flags=re.M)
        if not m:
            raise SliceError('options! entry codegen_config not found')
        entry = om[m.start():match_brace(om, m.end() - 1)]
        m2 = re.search(r'as_args: \|codegen_config, args\| \{', entry)
        if not m2:
            raise SliceError('codegen_config as_args closure not found')
        body = entry[m2.end():match_brace(entry, m2.end() - 1) - 1]
        parse = extract(cli, r'^fn parse_codegen_config\(', what='parse_codegen_config')
        impl = extract(lib, r'^impl CodegenConfig \{', what='impl CodegenConfig')
        # mechanical rewrites of the sliced closure (listed in evidence): owned strings -> tokens
        body_t = re.sub(r'("(?:[^"\\\\]|\\\\.)*")\.to_owned\(\)', r'Tok::from(\1)', body).replace('Vec<String>', 'Vec<Tok>').replace('options.join(",")', 'Tok::join(&options, ",")')
        gens, hs = [], []
        for g in range(4):
            vals = [v for v in range(g * 16, g * 16 + 16) if v != 0]    # the empty set prints `--generate ""`, which no parser accepts
            gens.append('#[kani::proof] #[kani::unwind(66)] #[kani::stub(core::slice::memchr::memchr, naive_memchr)] #[kani::stub(alloc::fmt::format, stub_format)] fn generate_flag_roundtrips_%d() { %s }' % (g, ' '.join('case(%d);' % v for v in vals)))
            hs.append(H('generate_flag_roundtrips_%d' % g, stubbing=True, timeout=900, tier='quick' if g in (0, 3) else 'thorough',
                        desc='CodegenConfig values %d..%d: as_args -> --generate/--ignore-* -> parse_codegen_config = identity' % (vals[0], vals[-1]), sample={'configs': vals}))
        text = GEN_HARNESS.replace('/*GENERATED*/', '\n    '.join(gens)).replace('/*TOK*/', TOK).replace('/*CONFIG_IMPL*/', impl).replace('/*PARSE*/', parse).replace('/*AS_ARGS*/', body_t)
        k = Kernel(name='generate_flag')
        k.files = {'src/lib.rs': text}
        k.harnesses = hs
        k.encoded = [enc('options/mod.rs', 'options! codegen_config: as_args closure', body), enc('options/cli.rs', 'fn parse_codegen_config', parse), enc('lib.rs', 'impl CodegenConfig', impl)]
        k.stubs = ['CodegenConfig: u32 newtype with the constants/empty/insert/contains of the bitflags type', 'clap Error::raw: unit', '-Z stubbing: memchr naive loop, fmt::format empty', 'mechanical rewrites of the as_args closure: "lit".to_owned() -> Tok::from("lit"), Vec<String> -> Vec<Tok>, options.join(",") -> Tok::join(&options, ",") (token stand-ins for heap strings; the joined token is rendered to text by the harness before the real parser runs)']
        k.assumptions = ['cli.rs applies --ignore-functions / --ignore-methods after --generate by clearing the bit (modelled in the harness)', 'the empty CodegenConfig is excluded (prints `--generate ""`)']
        k.bounds = ['all 63 non-empty CodegenConfig values, concrete per call (exhaustive finite domain)']
        return k

    def hdr():
        om = rd('options/mod.rs'); lib = rd('lib.rs')
        m = re.search(r'let headers = match self\.options\.input_headers\.[a-z_]+\(\) \{', om)
        if not m:
            raise SliceError('command_line_flags header statement not found')
        e = match_brace(om, m.end() - 1)
        head = om[m.start():e] + ';'
        m2 = re.search(r'for header in headers \{', om)
        if not m2:
            raise SliceError('command_line_flags -include loop not found')
        tail = om[m2.start():match_brace(om, m2.end() - 1)]
        m3 = re.search(r'self\.options\.clang_args\.extend\(\s*self\.options\.input_headers', lib)
        if not m3:
            raise SliceError('Builder::generate -include statement not found')
        i = lib.index('(', m3.start())
        stmt = lib[m3.start():match_brace(lib, i)] + ';'
        rw = lambda t: re.sub(r'("(?:[^"\\\\]|\\\\.)*")\.to_owned\(\)', r'Hdr::from(\1)', t)
        text = HDR_HARNESS.replace('/*TOK*/', TOK).replace('/*FLAGS_HEAD*/', rw(head)).replace('/*FLAGS_TAIL*/', rw(tail)).replace('/*GENERATE_STMT*/', stmt)
        k = Kernel(name='header_order')
        k.files = {'src/lib.rs': text}
        k.harnesses = [H('header_order_roundtrips', timeout=900, desc='1..4 input headers, 0..1 extra clang argument: flags -> builder -> clang command line equals the original builder\'s', sample={'headers': '1..4', 'clang_arg': '0..1'})]
        k.encoded = [enc('options/mod.rs', 'Builder::command_line_flags: header statements', head + tail), enc('lib.rs', 'Builder::generate: -include statement', stmt)]
        k.stubs = ['Builder/Options: two-field stand-ins; other option fields omitted from command_line_flags', 'header paths / arguments are identity tokens (Hdr), Vec is a fixed-capacity array that derefs to a slice; rewrite "lit".to_owned() -> Hdr::from("lit")']
        k.assumptions = ['cli.rs puts the positional header into input_headers and everything after `--` into clang_args (clap; outside the claim)', 'generate() uses input_headers.last() as the main file (lib.rs:880)']
        k.bounds = ['1..4 headers, 0..1 extra clang argument']
        return k
    def fattr():
        cli = rd('options/cli.rs')
        pf = extract(cli, r'^fn parse_field_attr\(', what='parse_field_attr')
        k = Kernel(name='field_attr')
        k.files = {'src/lib.rs': FA_HARNESS.replace('/*PARSE_FIELD_ATTR*/', pf)}
        k.harnesses = [H('field_attr_plain_roundtrips', stubbing=True, timeout=2400, weight=2, tier='thorough', desc='TYPE::FIELD=ATTR as printed by as_args reads back through parse_field_attr (attribute without "=")', sample={'shape': 'T::f=aa'}),
                       H('field_attr_with_equals_roundtrips', stubbing=True, timeout=2400, weight=2, tier='thorough', desc='same with an attribute that itself contains "=" (e.g. doc = "...")', sample={'shape': 'T::f=a=b'})]
        k.encoded = [enc('options/cli.rs', 'fn parse_field_attr', pf)]
        k.stubs = ['clap Error::raw: unit', 'proc_macro2::TokenStream::from_str: always Ok (attribute syntax is not the subject)', '-Z stubbing: memchr naive loop, fmt::format empty']
        k.assumptions = ['as_args prints format!("{type_pat}::{field_pat}={attr}") (options/mod.rs field_attr_patterns); the harness builds that text byte by byte']
        k.bounds = ['1-byte type and field patterns, attribute of 2-3 bytes']
        return k
    return [kernel_or_error('generate_flag', gen), kernel_or_error('header_order', hdr), kernel_or_error('field_attr', fattr)]
