"""C06 - embedded layout assertions are complete and state the numbers of the IR (assertion-block level)."""
import os, re
from common import *
G = os.path.dirname(os.path.dirname(os.path.abspath(__file__)))
LEVEL_TEXT = ('bounded model checking of the two places that assemble layout assertions - the layout_tests statement of CompInfo::codegen and the whole impl CodeGenerator for TemplateInstantiation - '
              'compiled against token stubs that decode every quote! template: which assertions are emitted, for which members, with which numbers')
OUTSIDE = ['that the numbers in the IR (Layout, field offsets) are what the C compiler computes for the selected target: they come from libclang (clang.rs Type::fallible_layout, Cursor::offset_of_field) and are trusted',
           'that the enclosing conditions of CompInfo::codegen hold as modelled: the statement runs only for non-template composites (all_template_params.is_empty()), with `layout` = the type\'s layout and `is_opaque` as computed (checked under C10)',
           'that the emitted assertion text compiles (C01)', 'cross-target runs']
EXPLANATION = ('The statement / impl text is taken verbatim; quote! is a pattern-matching macro with one arm per template shape that records what the template asserts (expression kind, number, member, const vs test form). '
               'Symbolic: layout (any usize size/align or unknown), up to 3 fields (data member or bit-field unit, name / offset known or not), forward-declaration, opacity, layout_tests, offset_of.')


def build(tier, seed):
    def k():
        mod = rd('codegen/mod.rs')
        ci = extract(mod, r'^impl CodeGenerator for CompInfo \{', what='impl CodeGenerator for CompInfo')
        m = [x.start() for x in re.finditer(r'if\s+ctx\s*\.options\(\)\s*\.layout_tests\b[^{;]*\{', ci)]
        if len(m) != 1:
            raise SliceError('CompInfo::codegen: layout_tests statement not found exactly once')
        ob = ci.index('{', m[0])
        stmt = ci[m[0]:match_brace(ci, ob)]
        # the statement must still sit under `if all_template_params.is_empty() {` (not a template definition)
        pre = ci[:m[0]]
        if 'if all_template_params.is_empty() {' not in pre:
            raise SliceError('CompInfo::codegen: layout_tests statement is no longer guarded by all_template_params.is_empty()')
        ti = extract(mod, r'^impl CodeGenerator for TemplateInstantiation \{', what='impl CodeGenerator for TemplateInstantiation')
        h = open(os.path.join(G, 'harness', 'c06_assertions.rs')).read().replace('/*COMP_STATEMENT*/', stmt).replace('/*INSTANTIATION_IMPL*/', ti)
        kern = Kernel(name='assertion_blocks')
        kern.files = {'src/lib.rs': h}
        kern.harnesses = [H('composite_assertion_block_is_complete_and_right', timeout=900, desc='CompInfo::codegen layout_tests statement: exactly one block with the layout size and alignment and the offset of every named non-bit-field member with a known offset, in order; none when disabled / forward declaration / unknown layout; none of the member checks for opaque blobs; const vs #[test] form follows offset_of', sample='<= 3 fields, any layout'),
                          H('instantiation_assertion_block_is_complete_and_right', timeout=900, desc='TemplateInstantiation::codegen: a size + alignment block iff layout tests are on and the instantiation is concrete, not opaque and has a known layout', sample='all flag combinations, any layout')]
        kern.encoded = [enc('codegen/mod.rs', 'CompInfo::codegen: layout_tests statement', stmt), enc('codegen/mod.rs', 'impl CodeGenerator for TemplateInstantiation', ti)]
        kern.stubs = ['quote!: one pattern arm per template shape (12), each recording what the template asserts', 'format! / write!: unit values (messages and test names are not the subject)', 'Vec: fixed capacity 3 with FromIterator',
                      'BindgenContext / CompInfo / Field / Item / Type: the accessors the two slices use']
        kern.assumptions = ['offsets of non-bit-field members are multiples of 8 bits']
        kern.bounds = ['<= 3 fields per composite; sizes, alignments, offsets: any usize']
        return [kern]
    def field():
        comp = rd('ir/comp.rs')
        m = re.search(r'CXCursor_FieldDecl => \{', comp)
        if not m:
            raise SliceError('CompInfo::from_ty: CXCursor_FieldDecl arm not found')
        arm = comp[m.end() - 1:match_brace(comp, m.end() - 1)]
        a = arm.find('let comment = cur.raw_comment();')
        endtok = 'ci.fields.append_raw_field(field);'
        b = arm.find(endtok, a)
        if a < 0 or b < 0:
            raise SliceError('FieldDecl arm: record region (let comment .. append_raw_field) not found')
        region = arm[a:b + len(endtok)]
        h = open(os.path.join(G, 'harness', 'c06_field.rs')).read().replace('/*FIELD_RECORD*/', region)
        kk = Kernel(name='field_record')
        kk.files = {'src/lib.rs': h}
        kk.harnesses = [H('a_member_is_recorded_with_the_numbers_libclang_reports_whatever_the_options', desc='tail of the CXCursor_FieldDecl arm of CompInfo::from_ty: the recorded RawField carries the offset libclang reported (Some iff Ok), the bit width, type, access and name - for every combination of options', sample='12 options x cursor answers')]
        kk.encoded = [enc('ir/comp.rs', 'CompInfo::from_ty: CXCursor_FieldDecl arm, record region', region)]
        kk.stubs = ['clang::Cursor: raw_comment / spelling / public_accessible / offset_of_field answers', 'RawField::new: records its arguments', 'Options: twelve presentation options, all symbolic']
        kk.bounds = ['no loops; every option combination']
        return kk
    try:
        ks = k()
    except SliceError as e:
        ks = [Kernel(name='assertion_blocks', error='slice-failed: %s' % e)]
    ks.append(kernel_or_error('field_record', field))
    return ks
