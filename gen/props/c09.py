"""C09 - allowlisting yields a self-contained, minimal subset (traversal level)."""
import os, re
from common import *
from props import ir_kernel
G = os.path.dirname(os.path.dirname(os.path.abspath(__file__)))
LEVEL_TEXT = 'bounded model checking of the real ItemTraversal::next / AllowlistedItemsTraversal::next / codegen_edges and of the real Trace impls (edge enumeration per IR node) on a stub IR: one step from an arbitrary (seen, queue) state; plus the real root-selection closure against the documented rule per item kind (pattern sets as answer tables)'
OUTSIDE = ['regex matching itself and path_for_allowlisting strings (regex crate not encodable: a pattern set is a table of answers; the ^(...)$ wrapper of RegexSet::build is not checked - seeded change C09-m1 is not decided)', 'textual identity of an item between the allowlisted and the full run', 'compiling the subset',
           'composition: queue-subset-of-seen + per-step closure/minimality => on exhaustion seen = exactly the reachable set (paper argument)']
EXPLANATION = ('Per TypeKind variant: (1) the edges the real Trace impls emit equal the references the IR node holds (opaque items expose no fields/bases); (2) one next() from an arbitrary state yields the queue top, records exactly '
               'its predicate-admitted successors and queues exactly the new ones; (3) the allowlisting wrapper skips blocklisted items but follows their references; (4) codegen_edges equals its documented table.')

KINDS = ['Int', 'Float', 'Pointer', 'Array', 'Alias', 'ResolvedTypeRef', 'Vector', 'Reference', 'BlockPointer', 'TemplateAlias', 'Function', 'Enum', 'Comp',
         'TemplateInstantiation', 'Void', 'NullPtr', 'TypeParam', 'Complex', 'ObjCId', 'ObjCSel', 'ObjCInterface', 'Opaque']


def traversal_kernel(tier, which):
    base, encd = ir_kernel.base_text(4, 12, ic=1)
    tr = rd('ir/traversal.rs'); cx = rd('ir/context.rs')
    parts = []
    def ex(src, rel, rx, what):
        t = extract(src, rx, what=what); encd.append(enc(rel, what, t)); parts.append(t); return t
    ex(tr, 'ir/traversal.rs', r'^pub\(crate\) struct Edge \{', 'struct Edge')
    ex(tr, 'ir/traversal.rs', r'^impl Edge \{', 'impl Edge')
    m = re.search(r'^pub\(crate\) type TraversalPredicate =[^;]*;', tr, flags=re.M)
    if not m:
        raise SliceError('TraversalPredicate not found')
    parts.append(m.group(0))
    for f in ('all_edges', 'only_inner_type_edges', 'codegen_edges'):
        ex(tr, 'ir/traversal.rs', r'^pub\(crate\) fn %s\(' % f, 'fn ' + f)
    ex(tr, 'ir/traversal.rs', r"^pub\(crate\) trait TraversalStorage<'ctx> \{", 'trait TraversalStorage')
    ex(tr, 'ir/traversal.rs', r"^impl<'ctx> TraversalStorage<'ctx> for ItemSet \{", 'impl TraversalStorage for ItemSet')
    ex(tr, 'ir/traversal.rs', r'^pub\(crate\) trait TraversalQueue: Default \{', 'trait TraversalQueue')
    ex(tr, 'ir/traversal.rs', r'^impl TraversalQueue for Vec<ItemId> \{', 'impl TraversalQueue for Vec<ItemId>')
    ex(tr, 'ir/traversal.rs', r"^pub\(crate\) struct ItemTraversal<'ctx, Storage, Queue>", 'struct ItemTraversal')
    ex(tr, 'ir/traversal.rs', r"^impl<'ctx, Storage, Queue> ItemTraversal<'ctx, Storage, Queue>", 'impl ItemTraversal::new')
    ex(tr, 'ir/traversal.rs', r"^impl<'ctx, Storage, Queue> Tracer for ItemTraversal<'ctx, Storage, Queue>", 'impl Tracer for ItemTraversal')
    ex(tr, 'ir/traversal.rs', r"^impl<'ctx, Storage, Queue> Iterator for ItemTraversal<'ctx, Storage, Queue>", 'impl Iterator for ItemTraversal')
    ex(cx, 'ir/context.rs', r"^struct AllowlistedItemsTraversal<'ctx> \{", 'struct AllowlistedItemsTraversal')
    ex(cx, 'ir/context.rs', r"^impl Iterator for AllowlistedItemsTraversal<'_> \{", 'impl Iterator for AllowlistedItemsTraversal')
    ex(cx, 'ir/context.rs', r"^impl<'ctx> AllowlistedItemsTraversal<'ctx> \{", 'impl AllowlistedItemsTraversal::new')
    gen, hs = [], []
    P = 'trav::trav_proofs::'
    for tag, kn in enumerate(KINDS):
        quick = kn in ('Comp', 'Alias', 'TemplateInstantiation', 'Function', 'Enum', 'TemplateAlias')
        if 'edges' in which:
            gen.append('#[kani::proof] #[kani::unwind(18)] fn edges_%s() { edges_case(%d) }' % (kn, tag))
            hs.append(H('edges_' + kn, path=P + 'edges_' + kn, timeout=900, tier='quick' if quick else 'thorough',
                        desc='TypeKind::%s: edges emitted by the real Trace impls == references the IR node holds (opaque: no fields / bases)' % kn, sample={'X_kind': kn, 'opaque': 'symbolic'}))
        if 'step' in which and kn in ('Comp', 'Alias', 'TemplateInstantiation', 'Function', 'Enum', 'TemplateAlias', 'Pointer', 'Int'):
            for pa, pn in ((True, 'all'), (False, 'codegen')):
                hn = 'step_%s_%s' % (kn, pn)
                gen.append('#[kani::proof] #[kani::unwind(18)] fn %s() { step_case(%d, %s) }' % (hn, tag, 'true' if pa else 'false'))
                hs.append(H(hn, path=P + hn, timeout=900, weight=2, tier='quick' if kn in ('Comp', 'TemplateInstantiation') or (kn == 'Function' and not pa) else 'thorough',
                            desc='one ItemTraversal::next() with the queue top = a %s node, predicate %s_edges, arbitrary seen/queue: closure, minimality, queue bookkeeping' % (kn, pn), sample={'X_kind': kn, 'predicate': pn}))
        if 'block' in which and kn in ('Comp', 'Alias', 'Pointer'):
            gen.append('#[kani::proof] #[kani::unwind(6)] fn blocklisted_%s() { blocklist_case(%d) }' % (kn, tag))
            hs.append(H('blocklisted_' + kn, path=P + 'blocklisted_' + kn, timeout=1800, weight=2, tier='thorough',
                        desc='AllowlistedItemsTraversal: a blocklisted %s root is never yielded, what it refers to is' % kn, sample={'root_kind': kn, 'blocklisted': True}))
    hs.append(H('codegen_edges_table', path=P + 'codegen_edges_table', desc='codegen_edges over every EdgeKind x CodegenConfig', sample='15 kinds x 64 configs'))
    har = open(os.path.join(G, 'harness', 'ir_traversal.rs')).read().replace('/*GENERATED*/', '\n    '.join(gen))
    text = '\n'.join([base, open(os.path.join(G, 'harness', 'ir_ctx.rs')).read(), 'pub mod trav { use super::*; ' + '\n'.join(parts) + '\n' + har + ' }'])
    k = Kernel(name='traversal')
    k.files = {'src/lib.rs': text}
    k.harnesses = hs
    k.encoded = encd
    k.stubs = ['stub IR (prelude/ir_env.rs) with inner_types / inner_vars / methods / constructors lists of capacity 1', 'CodegenConfig: 6-bit stand-in with the accessor names of the bitflags type',
               'Item::is_enabled_for_codegen: by item kind (function sub-kinds collapsed)', 'ItemSet / Vec<ItemId>: array backed']
    k.assumptions = ['IR invariants as in C07; children 1, 2 and the root module are the only possible successors', 'invariant of the traversal state: the queue is a subset of seen']
    k.bounds = ['4 items; one step; all 22 TypeKind variants for edge enumeration']
    return k


def build(tier, seed):
    ks = [kernel_or_error('traversal', lambda: traversal_kernel(tier, ('edges', 'step', 'block')))]
    # the traversal stops at <stdint.h> names (Trace for Type): that is only closed if code generation replaces exactly those names by primitives
    def tables():
        from props import c02
        for k in c02.build(tier, seed):
            if k.name == 'tables':
                k.harnesses = [h for h in k.harnesses if h.name == 'stdint_names_map_to_the_right_primitive']
                k.name = 'stdint_tables'
                return k
        raise SliceError('tables kernel not available')
    ks.append(kernel_or_error('stdint_tables', tables))
    def roots():
        import re
        fn = extract_from('ir/context.rs', r'^    fn compute_allowlisted_and_codegen_items\(&mut self\) \{')
        marks = [m.start() for m in re.finditer(r'\.filter\(\|&\(_, item\)\| \{', fn)]
        if len(marks) != 1:
            raise SliceError('compute_allowlisted_and_codegen_items: root filter closure not found exactly once')
        ob = fn.index('{', marks[0])
        body = fn[ob:match_brace(fn, ob)]
        if 'allowlisted_vars' not in body or 'name_for_allowlisting' not in body:
            raise SliceError('root filter closure: shape changed')
        names = ['Void', 'NullPtr', 'Int', 'Float', 'Complex', 'Array', 'Vector', 'Pointer', 'Reference', 'Function', 'ResolvedTypeRef', 'Opaque', 'TypeParam', 'Enum', 'Comp', 'Alias', 'TemplateAlias', 'TemplateInstantiation',
                 'UnresolvedTypeRef', 'BlockPointer', 'ObjCInterface', 'ObjCId', 'ObjCSel']
        gen, hs = [], []
        for ik, n in ((0, 'module'), (1, 'function'), (2, 'var')):
            gen.append('#[kani::proof] #[kani::unwind(5)] fn root_%s() { case(%d, 0) }' % (n, ik))
            hs.append(H('root_' + n, timeout=600, may_unsat=('not selected',) if n == 'module' else (), desc='a %s is an allowlisting root iff the documented rule for its kind says so' % n, sample={'item': n}))
        for tk, n in enumerate(names):
            gen.append('#[kani::proof] #[kani::unwind(5)] fn root_type_%s() { case(3, %d) }' % (n, tk))
            hs.append(H('root_type_' + n, timeout=600, tier='quick' if n in ('Enum', 'Comp', 'Int', 'Alias', 'Opaque') or (tk + seed) % 4 == 0 else 'thorough',
                        desc='a %s type is an allowlisting root iff the documented rule says so (unnamed top-level enums: through any variant name)' % n, sample={'item': 'type', 'kind': n}))
        k = Kernel(name='root_selection')
        k.files = {'src/lib.rs': open(os.path.join(G, 'harness', 'c09_roots.rs')).read().replace('/*CLOSURE_BODY*/', body).replace('/*GENERATED*/', '\n    '.join(gen))}
        k.harnesses = hs
        k.encoded = [enc('ir/context.rs', 'compute_allowlisted_and_codegen_items: root filter closure', body)]
        k.stubs = ['RegexSet: table of answers (own path, parent::variant_k, file name, any other text); an empty set matches nothing', 'paths: known prefix + pushed segments (push / pop / [1..] / join modelled)',
                   'Item / Type / Enum: the accessors the closure uses', 'is_enabled_for_codegen (first filter) is checked in the traversal kernel']
        k.bounds = ['enums with <= 3 variants; every item kind and TypeKind variant']
        return k
    ks.append(kernel_or_error('root_selection', roots))
    return ks
