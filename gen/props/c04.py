"""C04 - functions and globals bind the right symbol (kernel level: link-name decision, ABI gate)."""
import os, re
from common import *
G = os.path.dirname(os.path.dirname(os.path.abspath(__file__)))
LEVEL_TEXT = 'bounded model checking of the link-name decision (utils::names_will_be_identical_after_mangling and both call sites) against the x86 name-decoration table, plus the ABI feature gate (shared with C14)'
OUTSIDE = ['argument lowering, by-value aggregates, function-pointer wrapping, variadic tails (token templates over the real IR)', 'cursor_mangling (libclang)', 'method receivers / constructors', 'BindgenContext::target_decorates_symbols (a test on the target triple string): a symbolic flag here',
           'calling the bound functions (needs a C compiler and a linker)']
EXPLANATION = 'canonical/mangled/original names are symbolic byte strings (lengths <= 3/7/5 over [a _ @ 7 $]), ABI symbolic; oracle = decoration table (cdecl _name, stdcall _name@N, fastcall @name@N).'


def build(tier, seed):
    def k():
        mod = rd('codegen/mod.rs'); fun = rd('ir/function.rs')
        names = extract(mod, r'^    pub\(crate\) fn names_will_be_identical_after_mangling\(', what='utils::names_will_be_identical_after_mangling')
        abi_enum = extract(fun, r'^pub enum Abi \{', what='enum Abi')
        m = re.search(r'let link_name_attr = self\.link_name\(\)\.or_else\(\|\| \{', mod)
        if not m:
            raise SliceError('Function::codegen link_name_attr statement not found')
        i = mod.index('(', mod.index('or_else', m.start()))
        fn_stmt = mod[m.start():match_brace(mod, i)] + ';'
        m = re.search(r'let symbol: &str = ', mod)
        if not m:
            raise SliceError('Var::codegen symbol statement not found')
        # the statement ends at the first `;` outside every bracket (it was an unwrap_or_else closure before the repair of F21, an if / else since)
        i = m.end()
        while mod[i] != ';':
            i = match_brace(mod, i) if mod[i] in '({[' else i + 1
        var_stmt = mod[m.start():i + 1]
        h = open(os.path.join(G, 'harness', 'c04.rs')).read()
        # the function takes the context since the repair of F27 (target-dependent decoration); the adapter keeps the harness
        # compiling against either signature, so that a revert is judged (VIOLATION) instead of failing to build
        head = names[:names.index('{')]
        if re.search(r'\bctx: &BindgenContext', head):
            adapter = 'macro_rules! names_identical { ($ctx:expr, $c:expr, $m:expr, $abi:expr) => { utils::names_will_be_identical_after_mangling($ctx, $c, $m, $abi) }; }'
        else:
            adapter = 'macro_rules! names_identical { ($ctx:expr, $c:expr, $m:expr, $abi:expr) => { { let _ = $ctx; utils::names_will_be_identical_after_mangling($c, $m, $abi) } }; }'
        h = h.replace('/*NAMES_ADAPTER*/', adapter)
        h = h.replace('/*ABI_ENUM*/', abi_enum).replace('/*NAMES_FN*/', names).replace('/*FN_STMT*/', fn_stmt).replace('/*VAR_STMT*/', var_stmt)
        kern = Kernel(name='link_name')
        kern.files = {'src/lib.rs': h}
        kern.harnesses = [
            H('names_identical_iff_platform_decoration', timeout=900, desc='names_will_be_identical_after_mangling == decoration table; canonical <= 3, mangled <= 7 bytes, 9 ABI cases', sample={'canonical': '<=3 bytes', 'mangled': '<=7 bytes', 'abi': '9 cases'}),
            H('link_name_decision_never_panics', timeout=900, desc='names_will_be_identical_after_mangling: no index / slice / arithmetic panic for any names (canonical <= 3, mangled <= 7 bytes) and any ABI', sample='all names over [a _ @ 7 $]'),
            H('function_binding_reaches_its_symbol', timeout=900, desc='Function::codegen link_name statement: attribute names the C symbol, or the Rust name decorates to it', sample={'canonical': '<=3', 'mangled': 'None|<=5', 'name': '<=3', 'link_name': 'None|<=3'}),
            H('variable_binding_reaches_its_symbol', timeout=900, desc='Var::codegen symbol statement', sample={'canonical': '<=3', 'mangled': 'None|<=5', 'name': '<=3'}),
        ]
        kern.encoded = [enc('codegen/mod.rs', 'utils::names_will_be_identical_after_mangling', names), enc('codegen/mod.rs', 'Function::codegen: link_name_attr statement', fn_stmt),
                        enc('codegen/mod.rs', 'Var::codegen: symbol statement', var_stmt), enc('ir/function.rs', 'enum Abi', abi_enum)]
        kern.stubs = ['ClangAbi: Known(Abi)/Unknown(u32)', 'Function/Var: fields link_name/mangled_name/name', 'attributes::link_name: returns a marker instead of tokens']
        kern.assumptions = ['names are non-empty ASCII over [a _ @ 7 $]; a decorating platform (Mach-O, 32-bit x86 Windows) decorates as the x86 table says (cdecl _name; stdcall _name@digits; fastcall @name@digits), every other platform emits the name as written']
        kern.bounds = ['name lengths <= 3 (canonical, original, link), <= 7 / 5 (mangled); unwind 10']
        return [kern]
    def abi():
        fun = rd('ir/function.rs')
        get_abi = extract(fun, r'^fn get_abi\(cc: CXCallingConv\) -> ClangAbi \{', what='get_abi')
        abi_fn = extract(fun, r'^    pub\(crate\) fn abi\(', what='FunctionSig::abi').replace('crate::codegen::error::', 'crate_codegen_error::')
        abi_enum = extract(fun, r'^pub enum Abi \{', what='enum Abi')
        mod = rd('codegen/mod.rs')
        tot = extract(fun, r'^impl quote::ToTokens for ClangAbi \{', what='impl quote::ToTokens for ClangAbi')
        ttr = extract(mod, r'^impl TryToRustTy for FunctionSig \{', what='impl TryToRustTy for FunctionSig')
        m = re.search(r'let abi = match signature\.abi\(ctx, Some\(name\)\) \{', mod)
        if not m:
            raise SliceError('Function::codegen: `let abi = match signature.abi(ctx, Some(name))` statement not found')
        fstmt = mod[m.start():match_brace(mod, m.end() - 1)] + ';'
        h = open(os.path.join(G, 'harness', 'c04_abi.rs')).read().replace('/*ABI_ENUM*/', abi_enum).replace('/*GET_ABI*/', get_abi).replace('/*ABI_FN*/', abi_fn)
        h = h.replace('/*CLANG_ABI_TOTOKENS*/', tot).replace('/*TRY_TO_RUST_TY*/', ttr).replace('/*FN_ABI_STMT*/', fstmt)
        kk = Kernel(name='abi')
        kk.files = {'src/lib.rs': h}
        kk.harnesses = [H('calling_conventions_map_to_the_abi_of_the_same_name', desc='get_abi over every u32 calling-convention code', sample='any CXCallingConv'),
                        H('any_calling_convention_is_bound_or_skipped_never_a_panic', timeout=600, desc='get_abi -> FunctionSig::abi -> the abi statement of Function::codegen / TryToRustTy for FunctionSig (with the real ToTokens for ClangAbi): every u32 calling convention ends in a binding with a nameable ABI or in no binding, never in a panic', sample='any CXCallingConv, any feature flags, variadic or not'),
                        H('override_precedence_and_feature_gate', timeout=900, desc='FunctionSig::abi: <=2 --override-abi entries, lookup by parameter name or own name, any clang ABI, any feature flags, variadic or not', sample={'overrides': '<=2', 'features': '2^4'})]
        kk.encoded = [enc('ir/function.rs', 'impl quote::ToTokens for ClangAbi', tot), enc('codegen/mod.rs', 'impl TryToRustTy for FunctionSig', ttr), enc('codegen/mod.rs', 'Function::codegen: abi statement', fstmt), enc('ir/function.rs', 'fn get_abi', get_abi), enc('ir/function.rs', 'FunctionSig::abi', abi_fn), enc('ir/function.rs', 'enum Abi', abi_enum)]
        kk.stubs = ['clang_sys::CXCallingConv_*: environment table of distinct codes', 'RegexSet::matches: symbolic answer per looked-up name', 'RustFeatures: the four ABI flags', 'FunctionSig: name, abi, variadic']
        kk.bounds = ['all u32 codes; <= 2 overrides']
        return kk
    ks = []
    try:
        ks += k()
    except SliceError as e:
        ks.append(Kernel(name='link_name', error='slice-failed: %s' % e))
    ks.append(kernel_or_error('abi', abi))
    # the widths of argument / return / global types named through <stdint.h> (shared with C02, kernel `tables`)
    try:
        from props import c02
        for kk in c02.build(tier, seed):
            if kk.name == 'tables':
                kk.name = 'primitive_tables'
                kk.harnesses = [h for h in kk.harnesses if h.name in ('stdint_names_map_to_the_right_primitive', 'integer_kinds_map_to_rust_types_of_the_same_width_and_sign')]
                ks.append(kk)
    except Exception as e:
        ks.append(Kernel(name='primitive_tables', error='build-failed: %s' % e))
    return ks
