"""C17 - reported dependencies: depfile escaping (kernel level)."""
import os, re
from common import *
LEVEL_TEXT = 'bounded model checking of the real DepfileSpec::to_string for class patterns of short names: the written line reads back (make-style unescaping) to the target and the prerequisites'
OUTSIDE = ['completeness and exactness of the reported set (libclang inclusion directives vs clang -M)', 'CargoCallbacks printing', 'names longer than 3 bytes / more than 2 prerequisites',
           "'#', '$', ':' and newline are written unescaped: GNU make proper would not read such names back (cargo/ninja style readers do); documented, not filed"]
EXPLANATION = 'String SHAPES (which positions hold a space, a backslash or another byte) are harness parameters; the other bytes are symbolic over all remaining values.'

HARNESS = r'''
#[cfg(kani)]
mod proofs {
    use super::*;
    pub fn naive_memchr(x: u8, text: &[u8]) -> Option<usize> { let mut i = 0; while i < text.len() { if text[i] == x { return Some(i); } i += 1; } None }
    /// reference reader: backslash quotes the next byte, a bare space separates, the first token ends with ':'
    fn read(line: &[u8], out: &mut [[u8; 8]; 3], lens: &mut [usize; 3]) -> usize {
        let mut n = 0usize; let mut cur = 0usize; let mut i = 0usize; let mut in_tok = false;
        while i < line.len() {
            let c = line[i];
            if c == b'\\' && i + 1 < line.len() { out[n][cur] = line[i + 1]; cur += 1; i += 2; in_tok = true; continue; }
            if c == b' ' { if in_tok { lens[n] = cur; n += 1; cur = 0; in_tok = false; } i += 1; continue; }
            out[n][cur] = c; cur += 1; in_tok = true; i += 1;
        }
        if in_tok { lens[n] = cur; n += 1; }
        n
    }
    /// class of each byte: 0 = other (symbolic, any byte but space/backslash/colon, ASCII), 1 = space, 2 = backslash
    fn name<const L: usize>(classes: [u8; L]) -> [u8; L] {
        let mut b = [0u8; L]; let mut i = 0;
        while i < L { b[i] = match classes[i] { 1 => b' ', 2 => b'\\', _ => { let o: u8 = kani::any(); kani::assume(o != b' ' && o != b'\\' && o != b':' && o >= 0x21 && o < 0x7f); o } }; i += 1; }
        b
    }
    fn case<const T: usize, const D: usize>(tc: [u8; T], dc: [u8; D]) {
        let t = name(tc); let d = name(dc);
        let spec = DepfileSpec { output_module: String::from(unsafe { core::str::from_utf8_unchecked(&t) }), depfile_path: PathBuf::new() };
        let mut deps: BTreeSet<Box<str>> = BTreeSet::new();
        deps.insert(Box::<str>::from(unsafe { core::str::from_utf8_unchecked(&d) }));
        let s = spec.to_string(&deps);
        let mut out = [[0u8; 8]; 3]; let mut lens = [0usize; 3];
        let n = read(s.as_bytes(), &mut out, &mut lens);
        assert!(n == 2, "the depfile line does not read back as one target and one prerequisite");
        assert!(lens[0] == T + 1 && out[0][T] == b':', "target token does not end with ':'");
        let mut k = 0; while k < T { assert!(out[0][k] == t[k], "target does not read back to the configured name"); k += 1; }
        assert!(lens[1] == D, "prerequisite length changed");
        let mut k = 0; while k < D { assert!(out[1][k] == d[k], "prerequisite does not read back to the same path"); k += 1; }
        core::mem::forget(s); core::mem::forget(deps); core::mem::forget(spec);
    }
    /*GENERATED*/
}
'''


G = os.path.dirname(os.path.dirname(os.path.abspath(__file__)))
LEVEL_TEXT = ('bounded model checking of the body of DepfileSpec::to_string with the string engine (String::replace, format!) replaced by a fixed-capacity model: for every target / prerequisite name of the stated lengths '
              'over printable ASCII the written line reads back (ninja / cargo style unescaping) to exactly the target and the prerequisites')
OUTSIDE = ['completeness and exactness of the reported file set (libclang inclusion directives vs clang -M): the larger half of the property', 'CargoCallbacks printing', 'String::replace and format! themselves (modelled; the real ones do not finish under CBMC, measured)',
           "names longer than 4 bytes, more than 2 prerequisites, non-ASCII bytes, ':' and newline in names", "GNU make's own reader ('#', '$' are written unescaped: make proper would not read such names back; ninja / cargo style readers do); documented, not filed"]
EXPLANATION = 'All bytes of all names are symbolic (no class patterns needed any more); name LENGTHS are harness parameters.'


def build(tier, seed):
    def k():
        src = strip_test_mods(strip_inner(rd('deps.rs')))
        ts = extract(src, r'^    fn to_string\(&self, deps: &BTreeSet<Box<str>>\) -> String \{', what='DepfileSpec::to_string')
        t = ts
        if t.count('.replace(') < 1:
            raise SliceError('to_string: no .replace( call left')
        t = t.replace('.replace(', '.verif_replace(')
        t, n1 = re.subn(r'format!\("\{\}:", (.*?)\);', r'fmt_target(\1);', t)
        t, n2 = re.subn(r'format!\("\{buf\} \{\}", (.*?)\);', r'fmt_append(&buf, \1);', t)
        if n1 != 1 or n2 != 1:
            raise SliceError('to_string: format! shapes changed (%d, %d)' % (n1, n2))
        gen, hs = [], []
        for (T, D1, D2, tier_) in ((1, 1, 0, 'quick'), (2, 3, 0, 'quick'), (3, 2, 2, 'quick'), (4, 4, 0, 'thorough'), (2, 4, 3, 'thorough'), (4, 1, 4, 'thorough')):
            name = 'depfile_t%d_d%d_%d' % (T, D1, D2)
            gen.append('#[kani::proof] #[kani::unwind(%d)] fn %s() { case::<%d, %d, %d>() }' % (30, name, T, D1, D2))
            hs.append(H(name, timeout=1200, weight=2, tier=tier_, desc='target of %d bytes, prerequisites of %d%s bytes, every byte symbolic: the written line reads back to the same names' % (T, D1, (' and %d' % D2) if D2 else ''), sample={'target_len': T, 'dep_lens': [D1] + ([D2] if D2 else [])}))
        kern = Kernel(name='depfile')
        kern.files = {'src/lib.rs': open(os.path.join(G, 'harness', 'c17_depfile.rs')).read().replace('/*TO_STRING*/', t).replace('/*GENERATED*/', '\n    '.join(gen))}
        kern.harnesses = hs
        kern.encoded = [enc('deps.rs', 'DepfileSpec::to_string', ts)]
        kern.stubs = ['mechanical rewrites: .replace(c, s) -> .verif_replace(c, s) (byte-wise model on a fixed-capacity string), format!("{}:", x) -> fmt_target(x), format!("{buf} {}", x) -> fmt_append(&buf, x)',
                      'String = fixed-capacity string (28 bytes); BTreeSet<Box<str>> = list of borrowed names in the given order']
        kern.assumptions = ['reader = ninja / cargo style: backslash quotes the next byte, a bare space separates, the first token ends with ":"', 'names: printable ASCII except ":"']
        kern.bounds = ['names of 1..4 bytes, 1..2 prerequisites; all bytes symbolic']
        return [kern]
    def reporting():
        lib = rd('lib.rs'); ctxs = rd('ir/context.rs'); item = rd('ir/item.rs')
        st = extract(lib, r'^pub struct CargoCallbacks \{', with_attrs=False, what='struct CargoCallbacks')
        im = extract(lib, r'^impl CargoCallbacks \{', what='impl CargoCallbacks')
        pc = extract(lib, r'^impl callbacks::ParseCallbacks for CargoCallbacks \{', what='impl ParseCallbacks for CargoCallbacks')
        m = re.search(r'let deps = [^;]*;', ctxs)
        if not m or 'input_headers' not in m.group(0):
            raise SliceError('BindgenContext::new: dependency seeding statement not found')
        seed = m.group(0)
        m = re.search(r'for header in &self\.options\.input_headers \{', lib)
        if not m:
            raise SliceError('Builder::generate: header announcement loop not found')
        loop = lib[m.start():match_brace(lib, m.end() - 1)]
        if 'header_file' not in loop:
            raise SliceError('Builder::generate: header announcement loop changed shape')
        m = re.search(r'CXCursor_InclusionDirective => \{', item)
        if not m:
            raise SliceError('Item::parse: InclusionDirective arm not found')
        arm = item[m.end():match_brace(item, m.end() - 1) - 1]
        h = (open(os.path.join(G, 'harness', 'c17_reporting.rs')).read().replace('/*CARGO_STRUCT*/', st).replace('/*CARGO_IMPL*/', im).replace('/*CARGO_PARSECALLBACKS*/', pc)
             .replace('/*SEED_STATEMENT*/', seed).replace('/*HEADER_LOOP*/', loop).replace('/*INCLUSION_ARM*/', arm))
        kern = Kernel(name='reporting')
        kern.files = {'src/lib.rs': h}
        kern.harnesses = [H('cargo_callbacks_print_one_line_per_notification', timeout=600, desc='CargoCallbacks: include_file -> one rerun-if-changed line always; read_env_var -> one rerun-if-env-changed line; header_file -> a line iff rerun_on_header_files; new() reports headers', sample='both settings'),
                          H('every_input_header_is_a_dependency_and_is_announced', timeout=900, desc='BindgenContext::new seeds the dependency set with exactly the input headers; Builder::generate announces each input header to each callback once', sample='0..3 headers (ids 0..7, repeats allowed), 0..3 callbacks'),
                          H('every_included_file_is_reported_and_recorded', timeout=900, desc='Item::parse, InclusionDirective arm: a named included file goes to every callback once and into the dependency set; a nameless one nowhere', sample='0..3 callbacks')]
        kern.encoded = [enc('lib.rs', 'struct CargoCallbacks + impl + impl ParseCallbacks', st + im + pc), enc('ir/context.rs', 'BindgenContext::new: let deps = ..', seed), enc('lib.rs', 'Builder::generate: for header in &self.options.input_headers {..}', loop),
                        enc('ir/item.rs', 'Item::parse: CXCursor_InclusionDirective arm', arm)]
        kern.stubs = ['println!: one arm per literal cargo directive, appends to a log', 'file names: ids 0..7; lists behave as slices; callbacks count what they are told', 'Cursor::get_included_file_name: symbolic']
        kern.bounds = ['<= 3 input headers, <= 3 callbacks']
        return kern
    ks = []
    try:
        ks += k()
    except SliceError as e:
        ks.append(Kernel(name='depfile', error='slice-failed: %s' % e))
    ks.append(kernel_or_error('reporting', reporting))
    return ks
