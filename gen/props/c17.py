"""C17 - reported dependencies: depfile escaping (kernel level)."""
import os, re
from common import *
LEVEL_TEXT = 'bounded model checking of the real DepfileSpec::to_string for class patterns of short names: the written line reads back (make-style unescaping) to the target and the prerequisites'
OUTSIDE = ['completeness and exactness of the reported set (libclang inclusion directives vs clang -M)', 'CargoCallbacks printing', 'names longer than 3 bytes / more than 2 prerequisites',
           "'#', '$', ':' and newline are written unescaped: GNU make proper would not read such names back (cargo/ninja style readers do); documented, not filed"]
EXPLANATION = 'String SHAPES (which positions hold a space, a backslash or another byte) are harness parameters; the other bytes are symbolic over all remaining values.'

HARNESS = r'''
#[cfg(kani)]
mod proofs {
    use super::*;
    pub fn naive_memchr(x: u8, text: &[u8]) -> Option<usize> { let mut i = 0; while i < text.len() { if text[i] == x { return Some(i); } i += 1; } None }
    /// reference reader: backslash quotes the next byte, a bare space separates, the first token ends with ':'
    fn read(line: &[u8], out: &mut [[u8; 8]; 3], lens: &mut [usize; 3]) -> usize {
        let mut n = 0usize; let mut cur = 0usize; let mut i = 0usize; let mut in_tok = false;
        while i < line.len() {
            let c = line[i];
            if c == b'\\' && i + 1 < line.len() { out[n][cur] = line[i + 1]; cur += 1; i += 2; in_tok = true; continue; }
            if c == b' ' { if in_tok { lens[n] = cur; n += 1; cur = 0; in_tok = false; } i += 1; continue; }
            out[n][cur] = c; cur += 1; in_tok = true; i += 1;
        }
        if in_tok { lens[n] = cur; n += 1; }
        n
    }
    /// class of each byte: 0 = other (symbolic, any byte but space/backslash/colon, ASCII), 1 = space, 2 = backslash
    fn name<const L: usize>(classes: [u8; L]) -> [u8; L] {
        let mut b = [0u8; L]; let mut i = 0;
        while i < L { b[i] = match classes[i] { 1 => b' ', 2 => b'\\', _ => { let o: u8 = kani::any(); kani::assume(o != b' ' && o != b'\\' && o != b':' && o >= 0x21 && o < 0x7f); o } }; i += 1; }
        b
    }
    fn case<const T: usize, const D: usize>(tc: [u8; T], dc: [u8; D]) {
        let t = name(tc); let d = name(dc);
        let spec = DepfileSpec { output_module: String::from(unsafe { core::str::from_utf8_unchecked(&t) }), depfile_path: PathBuf::new() };
        let mut deps: BTreeSet<Box<str>> = BTreeSet::new();
        deps.insert(Box::<str>::from(unsafe { core::str::from_utf8_unchecked(&d) }));
        let s = spec.to_string(&deps);
        let mut out = [[0u8; 8]; 3]; let mut lens = [0usize; 3];
        let n = read(s.as_bytes(), &mut out, &mut lens);
        assert!(n == 2, "the depfile line does not read back as one target and one prerequisite");
        assert!(lens[0] == T + 1 && out[0][T] == b':', "target token does not end with ':'");
        let mut k = 0; while k < T { assert!(out[0][k] == t[k], "target does not read back to the configured name"); k += 1; }
        assert!(lens[1] == D, "prerequisite length changed");
        let mut k = 0; while k < D { assert!(out[1][k] == d[k], "prerequisite does not read back to the same path"); k += 1; }
        core::mem::forget(s); core::mem::forget(deps); core::mem::forget(spec);
    }
    /*GENERATED*/
}
'''


def build(tier, seed):
    def k():
        src = strip_test_mods(strip_inner(rd('deps.rs')))
        pats = [([0], [0]), ([0, 1, 0], [0]), ([2, 1], [0, 0]), ([2, 2, 0], [1, 0]), ([0, 2], [0, 2, 1]), ([0], [0, 1, 2]), ([1, 2], [2, 2]), ([0, 2, 2], [0, 1, 0])]
        gen, hs = [], []
        for i, (tp, dp) in enumerate(pats):
            name = 'depfile_t%s_d%s' % (''.join(map(str, tp)), ''.join(map(str, dp)))
            gen.append('#[kani::proof] #[kani::unwind(%d)] #[kani::stub(core::slice::memchr::memchr, naive_memchr)] fn %s() { case::<%d, %d>(%s, %s) }' % (
                2 * (len(tp) + len(dp)) + 8, name, len(tp), len(dp), tp, dp))
            hs.append(H(name, stubbing=True, timeout=1200, weight=2, tier='quick' if i in (1, 2, 4) else 'thorough',
                        desc='target class pattern %s, prerequisite pattern %s (0 other, 1 space, 2 backslash): written line reads back to the same names' % (tp, dp), sample={'target': tp, 'dep': dp}))
        kern = Kernel(name='depfile')
        kern.files = {'src/lib.rs': '#![allow(warnings)]\n' + src + HARNESS.replace('/*GENERATED*/', '\n    '.join(gen))}
        kern.harnesses = hs
        kern.encoded = [enc('deps.rs', 'DepfileSpec::to_string', rd('deps.rs'))]
        kern.stubs = ['-Z stubbing: core::slice::memchr::memchr -> naive loop']
        kern.assumptions = ['reader = the inverse of the documented escaping (backslash quotes the next byte, bare space separates, first token ends with ":")', '"other" bytes are printable ASCII except space, backslash, colon']
        kern.bounds = ['names of 1..3 bytes, one prerequisite; %d class patterns' % len(pats)]
        return [kern]
    try:
        return k()
    except SliceError as e:
        return [Kernel(name='depfile', error='slice-failed: %s' % e)]
