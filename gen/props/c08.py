"""C08 - traits derived exactly when the rules allow (rule level)."""
import os, re
from common import *
from props import c07
G = os.path.dirname(os.path.dirname(os.path.abspath(__file__)))
LEVEL_TEXT = 'bounded model checking: the real CannotDerive::constrain equals an independent specification of the documented derive rules (one step, arbitrary pre-state, every TypeKind variant, five traits), plus the lattice laws of CanDerive'
OUTSIDE = ['what rustc accepts for the emitted derives', 'behaviour of the hand-written Default/Debug/PartialEq bodies (token templates; need execution)', 'derives_of_item and the CanDerive* option gates of context.rs (read the real Item / options)',
           'equality of least fixed points follows from equality of monotone one-step functions (paper argument)']
EXPLANATION = ('For each of the five DeriveTraits and each TypeKind variant the solver picks flags, options, layouts, children facts and the previous fact of X; constrain(X) must produce max(previous, spec) where spec is '
               'written from the documentation: floats not Hash; pointers/enums/references/type params not Default; arrays (element must be Yes, length 0 only Debug/Default, >32 Manually for Default); vectors not PartialOrd; '
               'fn pointers >12 args or non-C ABI (Manually for Debug, No for Hash/PartialEq); Rust unions only Copy; destructor not Copy; vtable not Default; forward declarations only Debug; align > 32 Manually for Default; '
               'excluded by name No; opaque Yes (except Rust unions); blocklisted = what the user vouches for.')

KINDS = ['Int', 'Float', 'Pointer', 'Array', 'Alias', 'ResolvedTypeRef', 'Vector', 'Reference', 'BlockPointer', 'TemplateAlias', 'Function', 'Enum', 'Comp',
         'TemplateInstantiation', 'Void', 'NullPtr', 'TypeParam', 'Complex', 'ObjCId', 'ObjCSel', 'ObjCInterface', 'Opaque']
TRAITS = [('Copy', 'copy'), ('Debug', 'debug'), ('Default', 'default'), ('Hash', 'hash'), ('PartialEqOrPartialOrd', 'partialeq')]
QUICK = {'Comp', 'Array', 'Vector', 'Pointer', 'Function', 'Float', 'Alias', 'TemplateInstantiation'}


def build(tier, seed):
    known = load_known()
    def k():
        gen, hs = [], []
        for t, tn in TRAITS:
            for tag, kn in enumerate(KINDS):
                childs = {'Pointer': [0, 3]}.get(kn, [0])
                for ch in childs:
                    hn = 'spec_%s_%s_c%d' % (tn, kn, ch)
                    gen.append('#[kani::proof] #[kani::unwind(8)] fn %s() { spec_step(DeriveTrait::%s, %d, %d) }' % (hn, t, tag, ch))
                    quick = kn in QUICK and ch == childs[-1] and (t in ('Default', 'Hash', 'PartialEqOrPartialOrd') or kn in ('Comp', 'Array', 'Function'))
                    hs.append(H(hn, path='derive::spec_proofs::' + hn, timeout=900, weight=2 if kn == 'Comp' else 1, tier='quick' if quick else 'thorough',
                                may_unsat=('cannot derive', 'can derive'),
                                desc='derive(%s) rule for TypeKind::%s (child 1 = %s) == documented specification, one step from an arbitrary pre-state' % (t, kn, ['Int', '', '', 'Function'][ch]),
                                sample={'trait': t, 'X_kind': kn, 'pre_state': 'arbitrary'}))
        spec = open(os.path.join(G, 'harness', 'ir_derive_spec.rs')).read().replace('/*GENERATED*/', '\n    '.join(gen))
        kern = c07.analysis_kernel('derive_copy', tier, known, extra_harness=spec)
        kern.name = 'derive_spec'
        kern.harnesses = hs
        kern.bounds = ['5 traits x 22 TypeKind variants (+ function-pointer pointee): %d obligations; quick = %d' % (len(hs), sum(1 for h in hs if h.tier == 'quick'))]
        return kern
    def laws():
        d = strip_uses(strip_inner(rd('ir/derive.rs')))
        text = '#![allow(warnings)]\npub struct BindgenContext;\n' + d + '''
#[cfg(kani)]
mod proofs {
    use super::*;
    fn any() -> CanDerive { let k: u8 = kani::any(); match k { 0 => CanDerive::Yes, 1 => CanDerive::Manually, _ => { kani::assume(k == 2); CanDerive::No } } }
    #[kani::proof] fn can_derive_join_is_a_semilattice() {
        let (a, b, c) = (any(), any(), any());
        assert!(a.join(a) == a && a.join(b) == b.join(a) && a.join(b).join(c) == a.join(b.join(c)));
        assert!(a.join(b) >= a && a.join(b) >= b && (a.join(b) == a || a.join(b) == b));
        assert!((a | b) == a.join(b)); let mut d = a; d |= b; assert!(d == a.join(b));
        assert!(CanDerive::Yes < CanDerive::Manually && CanDerive::Manually < CanDerive::No && CanDerive::default() == CanDerive::Yes);
    }
}
'''
        kk = Kernel(name='can_derive_laws')
        kk.files = {'src/lib.rs': text}
        kk.harnesses = [H('can_derive_join_is_a_semilattice', desc='CanDerive join/BitOr laws, order Yes < Manually < No', sample='all 27 triples')]
        kk.encoded = [enc('ir/derive.rs', 'whole file', rd('ir/derive.rs'))]
        kk.bounds = ['all triples of CanDerive']
        return kk
    def gates():
        cx = rd('ir/context.rs'); mod = rd('codegen/mod.rs')
        lookups = []
        for f in ('lookup_can_derive_debug', 'lookup_can_derive_default', 'lookup_can_derive_hash', 'lookup_can_derive_partialeq_or_partialord', 'lookup_can_derive_copy'):
            lookups.append(extract(cx, r'^    pub\(crate\) fn %s<\s*Id: Into<ItemId>' % f, what=f))
        lookups.append(extract(cx, r'^    pub\(crate\) fn lookup_has_float<Id: Into<ItemId>>\(', what='lookup_has_float'))
        gates_t = []
        for tr in ('Debug', 'Default', 'Copy', 'Hash', 'PartialOrd', 'PartialEq', 'Eq', 'Ord'):
            gates_t.append(extract(cx, r'^impl<T> CanDerive%s for T$' % tr, what='impl CanDerive%s for T' % tr))
        doi = extract(mod, r'^fn derives_of_item\(', what='derives_of_item')
        ird = strip_uses(strip_inner(rd('ir/derive.rs')))
        h = open(os.path.join(G, 'harness', 'c08_gates.rs')).read()
        h = h.replace('/*LOOKUPS*/', '\n'.join(lookups)).replace('/*IR_DERIVE*/', ird).replace('/*GATES*/', '\n'.join(gates_t)).replace('/*DERIVES_OF_ITEM*/', doi)
        kk = Kernel(name='gates')
        kk.files = {'src/lib.rs': h}
        kk.harnesses = [H('option_gates_and_float_exclusion', desc='impl CanDerive* for T x lookup_*: all 2^8 option combinations, all analysis answers; Eq/Ord need PartialEq == Yes and no float; Copy needs no type parameter in an array', sample='2^8 options x analysis answers'),
                        H('derive_set_assembly', desc='derives_of_item: Clone iff Copy, packed and not Copy => nothing, annotations veto Copy/Debug/Default', sample='options x answers x annotations x packed')]
        kk.encoded = [enc('ir/context.rs', 'impl CanDerive{Debug,Default,Copy,Hash,PartialOrd,PartialEq,Eq,Ord} for T', '\n'.join(gates_t)), enc('ir/context.rs', 'lookup_can_derive_* / lookup_has_float', '\n'.join(lookups)),
                      enc('codegen/mod.rs', 'fn derives_of_item', doi), enc('ir/derive.rs', 'whole file', rd('ir/derive.rs'))]
        kk.stubs = ['BindgenContext: option flags + the analysis result sets as one-element stand-ins (contains/get answer a symbolic value)', 'DerivableTraits: u16 newtype with the constants of the bitflags type', 'Item: id + three annotation flags; CanDerive* for Item forwards to the id (as ir/item.rs does)']
        kk.bounds = ['no loops; every combination']
        return kk
    return [kernel_or_error('derive_spec', k), kernel_or_error('can_derive_laws', laws), kernel_or_error('gates', gates)]
