"""C08 - traits derived exactly when the rules allow (rule level)."""
import os, re
from common import *
from props import c07
G = os.path.dirname(os.path.dirname(os.path.abspath(__file__)))
LEVEL_TEXT = ('bounded model checking: the real CannotDerive::constrain equals an independent specification of the documented derive rules (one step, arbitrary pre-state, every TypeKind variant, five traits), plus the lattice laws of CanDerive, the option gates; '
              'and the hand-written impl bodies: the real codegen/impl_debug.rs and codegen/impl_partialeq.rs against token stubs - the Debug body is a well-formed write! whose arguments are exactly the printable members and bit-field getters, the PartialEq body compares every base, member and named bit-field')
OUTSIDE = ['what rustc accepts for the emitted derives', 'executing the hand-written Default/Debug/PartialEq bodies on objects filled by C (the bodies are checked as token structures: which members they print / compare, not by running them)', 'the Default body (ptr::write_bytes template) and the needs_*_impl decisions of CompInfo::codegen',
           'equality of least fixed points follows from equality of monotone one-step functions (paper argument)']
EXPLANATION = ('For each of the five DeriveTraits and each TypeKind variant the solver picks flags, options, layouts, children facts and the previous fact of X; constrain(X) must produce max(previous, spec) where spec is '
               'written from the documentation: floats not Hash; pointers/enums/references/type params not Default; arrays (element must be Yes, length 0 only Debug/Default, >32 Manually for Default); vectors not PartialOrd; '
               'fn pointers >12 args or non-C ABI (Manually for Debug, No for Hash/PartialEq); Rust unions only Copy; destructor not Copy; vtable not Default; forward declarations only Debug; align > 32 Manually for Default; '
               'excluded by name No; opaque Yes (except Rust unions); blocklisted = what the user vouches for.')

KINDS = ['Int', 'Float', 'Pointer', 'Array', 'Alias', 'ResolvedTypeRef', 'Vector', 'Reference', 'BlockPointer', 'TemplateAlias', 'Function', 'Enum', 'Comp',
         'TemplateInstantiation', 'Void', 'NullPtr', 'TypeParam', 'Complex', 'ObjCId', 'ObjCSel', 'ObjCInterface', 'Opaque']
TRAITS = [('Copy', 'copy'), ('Debug', 'debug'), ('Default', 'default'), ('Hash', 'hash'), ('PartialEqOrPartialOrd', 'partialeq')]
QUICK = {'Comp', 'Array', 'Vector', 'Pointer', 'Function', 'Float', 'Alias', 'TemplateInstantiation'}


def build(tier, seed):
    known = load_known()
    def k():
        gen, hs = [], []
        for t, tn in TRAITS:
            for tag, kn in enumerate(KINDS):
                childs = {'Pointer': [0, 3]}.get(kn, [0])
                for ch in childs:
                    hn = 'spec_%s_%s_c%d' % (tn, kn, ch)
                    gen.append('#[kani::proof] #[kani::unwind(8)] fn %s() { spec_step(DeriveTrait::%s, %d, %d) }' % (hn, t, tag, ch))
                    quick = kn in QUICK and ch == childs[-1] and (t in ('Default', 'Hash', 'PartialEqOrPartialOrd') or kn in ('Comp', 'Array', 'Function'))
                    hs.append(H(hn, path='derive::spec_proofs::' + hn, timeout=900, weight=2 if kn == 'Comp' else 1, tier='quick' if quick else 'thorough',
                                may_unsat=('cannot derive', 'can derive'),
                                desc='derive(%s) rule for TypeKind::%s (child 1 = %s) == documented specification, one step from an arbitrary pre-state' % (t, kn, ['Int', '', '', 'Function'][ch]),
                                sample={'trait': t, 'X_kind': kn, 'pre_state': 'arbitrary'}))
        spec = open(os.path.join(G, 'harness', 'ir_derive_spec.rs')).read().replace('/*GENERATED*/', '\n    '.join(gen))
        kern = c07.analysis_kernel('derive_copy', tier, known, extra_harness=spec)
        kern.name = 'derive_spec'
        kern.harnesses = hs
        kern.bounds = ['5 traits x 22 TypeKind variants (+ function-pointer pointee): %d obligations; quick = %d' % (len(hs), sum(1 for h in hs if h.tier == 'quick'))]
        return kern
    def laws():
        d = strip_uses(strip_inner(rd('ir/derive.rs')))
        text = '#![allow(warnings)]\npub struct BindgenContext;\n' + d + '''
#[cfg(kani)]
mod proofs {
    use super::*;
    fn any() -> CanDerive { let k: u8 = kani::any(); match k { 0 => CanDerive::Yes, 1 => CanDerive::Manually, _ => { kani::assume(k == 2); CanDerive::No } } }
    #[kani::proof] fn can_derive_join_is_a_semilattice() {
        let (a, b, c) = (any(), any(), any());
        assert!(a.join(a) == a && a.join(b) == b.join(a) && a.join(b).join(c) == a.join(b.join(c)));
        assert!(a.join(b) >= a && a.join(b) >= b && (a.join(b) == a || a.join(b) == b));
        assert!((a | b) == a.join(b)); let mut d = a; d |= b; assert!(d == a.join(b));
        assert!(CanDerive::Yes < CanDerive::Manually && CanDerive::Manually < CanDerive::No && CanDerive::default() == CanDerive::Yes);
    }
}
'''
        kk = Kernel(name='can_derive_laws')
        kk.files = {'src/lib.rs': text}
        kk.harnesses = [H('can_derive_join_is_a_semilattice', desc='CanDerive join/BitOr laws, order Yes < Manually < No', sample='all 27 triples')]
        kk.encoded = [enc('ir/derive.rs', 'whole file', rd('ir/derive.rs'))]
        kk.bounds = ['all triples of CanDerive']
        return kk
    def gates():
        cx = rd('ir/context.rs'); mod = rd('codegen/mod.rs')
        lookups = []
        for f in ('lookup_can_derive_debug', 'lookup_can_derive_default', 'lookup_can_derive_hash', 'lookup_can_derive_partialeq_or_partialord', 'lookup_can_derive_copy'):
            lookups.append(extract(cx, r'^    pub\(crate\) fn %s<\s*Id: Into<ItemId>' % f, what=f))
        lookups.append(extract(cx, r'^    pub\(crate\) fn lookup_has_float<Id: Into<ItemId>>\(', what='lookup_has_float'))
        lookups.append(extract(cx, r'^    pub\(crate\) fn lookup_has_type_param_in_array<Id: Into<ItemId>>\(', what='lookup_has_type_param_in_array'))
        computes = [extract(cx, r'^    fn %s\(&mut self\) \{' % f, what=f) for f in ('compute_cannot_derive_debug', 'compute_cannot_derive_default', 'compute_cannot_derive_copy', 'compute_cannot_derive_hash',
                                                                                         'compute_cannot_derive_partialord_partialeq_or_eq', 'compute_has_type_param_in_array', 'compute_has_float')]
        gates_t = []
        for tr in ('Debug', 'Default', 'Copy', 'Hash', 'PartialOrd', 'PartialEq', 'Eq', 'Ord'):
            gates_t.append(extract(cx, r'^impl<T> CanDerive%s for T$' % tr, what='impl CanDerive%s for T' % tr))
        doi = extract(mod, r'^fn derives_of_item\(', what='derives_of_item')
        ird = strip_uses(strip_inner(rd('ir/derive.rs')))
        om = rd('options/mod.rs')
        meths = []
        for opt in ('derive_partialord', 'derive_ord', 'derive_partialeq', 'derive_eq'):
            mo = re.search(r'^    %s: bool \{' % opt, om, flags=re.M)
            if not mo:
                raise SliceError('options! entry %s not found' % opt)
            entry = om[mo.start():match_brace(om, mo.end() - 1)]
            mm = re.search(r'methods: \{', entry)
            if not mm:
                raise SliceError('options! entry %s: methods block not found' % opt)
            meths.append(entry[mm.end():match_brace(entry, mm.end() - 1) - 1])
        meths_t = '\n'.join(meths)
        h = open(os.path.join(G, 'harness', 'c08_gates.rs')).read().replace('/*DERIVE_OPTION_METHODS*/', meths_t)
        h = h.replace('/*LOOKUPS*/', '\n'.join(lookups)).replace('/*IR_DERIVE*/', ird).replace('/*GATES*/', '\n'.join(gates_t)).replace('/*DERIVES_OF_ITEM*/', doi).replace('/*COMPUTES*/', '\n'.join(computes))
        kk = Kernel(name='gates')
        kk.files = {'src/lib.rs': h}
        kk.harnesses = [H('option_gates_and_float_exclusion', desc='impl CanDerive* for T x lookup_*: all 2^8 option combinations, all analysis answers; Eq/Ord need PartialEq == Yes and no float; Copy needs no type parameter in an array', sample='2^8 options x analysis answers'),
                        H('comparison_derive_options_stay_closed_under_supertraits', desc='Builder::{derive_partialord, derive_ord, derive_partialeq, derive_eq} (real methods): one call from any closed option state leaves it closed (Ord => Eq and PartialOrd, PartialOrd => PartialEq, Eq => PartialEq) - inductive step over every call sequence', sample='4 methods x on/off x every closed state'),
                        H('derived_set_is_closed_under_supertraits', desc='derives_of_item on closed options: the derived set never contains Ord without Eq / PartialOrd, PartialOrd or Eq without PartialEq, Copy without Clone', sample='options x answers x annotations x packed'),
                        H('every_analysis_a_consumer_can_ask_for_has_been_computed', desc='the seven compute_* functions of BindgenContext (real text) then every lookup a consumer reaches under the same options (option gates, manual Debug impl, manual PartialEq decision): no lookup unwraps an analysis that was skipped', sample='all closed option sets x impl_debug x impl_partialeq'),
                        H('derive_set_assembly', desc='derives_of_item: Clone iff Copy, packed and not Copy => nothing, annotations veto Copy/Debug/Default', sample='options x answers x annotations x packed')]
        kk.encoded = [enc('options/mod.rs', 'options! derive_partialord / derive_ord / derive_partialeq / derive_eq: methods blocks', meths_t) if False else {'file': 'bindgen/options/mod.rs', 'item': 'options! derive_partialord / derive_ord / derive_partialeq / derive_eq: methods blocks', 'sha256': sha(meths_t), 'lines': None}, enc('ir/context.rs', 'impl CanDerive{Debug,Default,Copy,Hash,PartialOrd,PartialEq,Eq,Ord} for T', '\n'.join(gates_t)), enc('ir/context.rs', 'lookup_can_derive_* / lookup_has_float', '\n'.join(lookups)),
                      enc('codegen/mod.rs', 'fn derives_of_item', doi), enc('ir/derive.rs', 'whole file', rd('ir/derive.rs'))]
        kk.stubs = ['BindgenContext: option flags + the analysis result sets as one-element stand-ins (contains/get answer a symbolic value)', 'DerivableTraits: u16 newtype with the constants of the bitflags type', 'Item: id + three annotation flags; CanDerive* for Item forwards to the id (as ir/item.rs does)']
        kk.bounds = ['no loops; every combination']
        return kk
    def impls():
        dbg = strip_uses(strip_inner(rd('codegen/impl_debug.rs')))
        peq = strip_uses(strip_inner(rd('codegen/impl_partialeq.rs')))
        # -- impl_debug.rs: the recursive `impl ImplDebug for Item` is instantiated once per alias hop (no recursion left)
        blk = extract(dbg, r"^impl<'a> ImplDebug<'a> for Item \{", what='impl ImplDebug for Item')
        if blk.count('ctx.resolve_item(') < 1 or '.impl_debug(ctx, name)' not in blk:
            raise SliceError('impl ImplDebug for Item: expected recursive calls through ctx.resolve_item(..).impl_debug(ctx, name)')
        fdb = extract(dbg, r"^impl ImplDebug<'_> for FieldData \{", what='impl ImplDebug for FieldData')
        if fdb.count('ctx.resolve_item(') != 1:
            raise SliceError('impl ImplDebug for FieldData: expected exactly one ctx.resolve_item(..)')
        if dbg.count('fields: &[Field],') != 1:
            raise SliceError('gen_debug_impl: parameter `fields: &[Field]` not found exactly once')
        dbg = dbg.replace('fields: &[Field],', 'fields: &List<Field, NF>,')   # listed rewrite: std slice iteration unrolls every adaptor loop to the global bound
        blk = extract(dbg, r"^impl<'a> ImplDebug<'a> for Item \{", what='impl ImplDebug for Item')
        fdb = extract(dbg, r"^impl ImplDebug<'_> for FieldData \{", what='impl ImplDebug for FieldData')
        rest = dbg.replace(blk, '').replace(fdb, fdb.replace('ctx.resolve_item(', 'ctx.resolve_l0('))
        if 'resolve_item' in rest.replace('resolve_item0', ''):
            raise SliceError('impl_debug.rs: unexpected further use of resolve_item')
        copies = [blk.replace('for Item {', 'for ItemL%d {' % k).replace('ctx.resolve_item(', 'ctx.resolve_l%d(' % (k + 1)) for k in range(3)]
        dbg_text = rest + '\n' + '\n'.join(copies)
        # -- impl_partialeq.rs: same for the recursive free fn gen_field
        gf = extract(peq, r'^fn gen_field\(', what='fn gen_field')
        if gf.count('ctx.resolve_item(') != 1 or gf.count('gen_field(ctx,') != 1 or 'ty_item: &Item,' not in gf:
            raise SliceError('gen_field: expected one recursive call and one ctx.resolve_item(..)')
        gp = extract(peq, r'^pub\(crate\) fn gen_partialeq_impl\(', what='fn gen_partialeq_impl')
        gp2 = gp.replace('ctx.resolve_item(', 'ctx.resolve_l0(').replace('gen_field(', 'gen_field_l0(')
        gcopies = [gf.replace('fn gen_field(', 'fn gen_field_l%d(' % k).replace('ty_item: &Item,', 'ty_item: &ItemL%d,' % k)
                     .replace('ctx.resolve_item(', 'ctx.resolve_l%d(' % (k + 1)).replace('gen_field(ctx,', 'gen_field_l%d(ctx,' % (k + 1)) for k in range(3)]
        peq_text = peq.replace(gf, '').replace(gp, gp2) + '\n' + '\n'.join(gcopies)
        h = open(os.path.join(G, 'harness', 'c08_impls.rs')).read().replace('/*IMPL_DEBUG*/', dbg_text).replace('/*IMPL_PARTIALEQ*/', peq_text)
        kk = Kernel(name='manual_impls')
        kk.files = {'src/lib.rs': h}
        kk.harnesses = [H('manual_debug_body_compiles_and_prints_every_printable_member', timeout=900, weight=2,
                          desc='gen_debug_impl + all ImplDebug impls: the write! call has exactly as many arguments as the format string has placeholders, the format string is well formed, every argument is `self.<named data member>` or `self.<getter of a named bit-field>()` of this struct in declaration order, a member is printed iff its type is allowlisted and can be Debug-printed (not a type parameter, array of one, opaque instantiation, un-derivable function pointer)',
                          sample='2 fields (data member through <= 2 alias hops of any kind, or a unit of <= 2 bit-fields with plain or mangled getters), any allowlisting, opaque / union / struct'),
                        H('manual_partialeq_body_compares_every_member_and_bitfield', timeout=900, weight=2,
                          desc='gen_partialeq_impl + gen_field: one conjunct per base with storage, per data member and per named bit-field (through its getter), the same member on both sides, in order; opaque -> the blob, union -> bindgen_union_field',
                          sample='<= 1 base, <= 2 fields, kinds as above')]
        kk.encoded = [enc('codegen/impl_debug.rs', 'whole file', rd('codegen/impl_debug.rs')), enc('codegen/impl_partialeq.rs', 'whole file', rd('codegen/impl_partialeq.rs'))]
        kk.stubs = ['String: 64-byte buffer; format!(lit) / write!(s, lit) interpret the literal as std does ({{ }} escapes; an inline `{ident}` argument becomes one brace-free byte)',
                    'quote!: one arm per template shape (13), recording member expressions, comparisons and the two function shells',
                    'rewrite: gen_debug_impl takes `fields: &List<Field, NF>` instead of `&[Field]` (same `.iter()`, an iterator with a concrete counter)', 'rewrite: `impl ImplDebug for Item` and `fn gen_field` are instantiated once per alias hop (Item -> ItemL0..2, ctx.resolve_item -> ctx.resolve_l<k>): textual rename, removes recursion',
                    'BindgenContext / Item / Type / TypeKind (same variant names, light payloads) / Field / Bitfield / Base: the accessors the two files use']
        kk.assumptions = ['interpolated names are brace-free (C identifiers, numbers)', 'at most two alias-like hops between a member and its final type',
                          'gen_partialeq_impl is only reached when derive(PartialEq) is `Manually`: no member is a vector, a union is not a Rust union (both from the derive rules, checked by kernel derive_spec)']
        kk.bounds = ['2 fields, <= 2 bit-fields per unit, <= 1 base, <= 2 alias hops, format string <= 64 bytes; kinds, flags, names mangled or not: symbolic']
        return kk
    def floats():
        kk = c07.analysis_kernel('has_float', tier, known)
        kk.harnesses = [h for h in kk.harnesses if h.name == 'step_Comp_c0_nop']
        for h in kk.harnesses:
            h.tier = 'quick'
        return kk
    return [kernel_or_error('float_exclusion', floats), kernel_or_error('manual_impls', impls), kernel_or_error('derive_spec', k), kernel_or_error('can_derive_laws', laws), kernel_or_error('gates', gates)]
