"""C02 - generated types match the C compiler's size, alignment and offsets (kernel level)."""
import os, random, itertools, re
from common import *
G = os.path.dirname(os.path.dirname(os.path.abspath(__file__)))

LEVEL_TEXT = 'bounded model checking of the real struct_layout.rs, helpers::blob/integer_type/bitfield_unit and ir/layout.rs against a C record-layout model and the Rust repr(C)/packed/align rules'
OUTSIDE = ['primitive type mapping and enum repr (quote! templates and libclang type kinds)', 'wrong numbers from libclang', 'C++ tail-padding reuse, virtual bases',
           'the value round trip through a real C compiler', 'CompInfo::codegen statement order (hand model of the driver, pinned by sha256: a change there is announced as INCONCLUSIVE, not judged)']
EXPLANATION = ('struct_layout.rs, helpers::{blob,integer_type,bitfield_unit} and ir/layout.rs are compiled unchanged against a stub environment whose quote!/parse_quote! macros decode the '
               'emitted padding type into its Rust (size, align). For each alignment tuple (harness parameter) the solver picks member sizes, explicit-padding and namespace options; '
               'the C offsets come from an Itanium/SysV record-layout model in the harness and are fed to the tracker as libclang would; the emitted field list is laid out by the Rust repr(C) rules and compared.')

ALIGNS = [1, 2, 4, 8, 16]


def driver_region():
    mod = rd('codegen/mod.rs')
    a = mod.find('let mut packed = self.is_packed(ctx, layout.as_ref());')
    b = mod.find('let derivable_traits = if self.is_forward_declaration() {')
    if a < 0 or b < 0 or b < a:
        raise SliceError('CompInfo::codegen driver region anchors not found')
    return mod[a:b]

# sha256[:16] of the driver region the hand model in harness/c02.rs was written against
DRIVER_PIN = None


def tuples(tier, seed):
    rnd = random.Random(seed)
    out = []
    # 2 members: all alignment pairs x packing, plus aligned(16|32) on the last member
    for a0, a1 in itertools.product(ALIGNS, ALIGNS):
        for p in (0, 1, 2, 4):
            out.append((2, (a0, a1), p, 0))
    for a0, a1 in itertools.product([1, 2, 4, 8], [1, 4, 8]):
        for ea in (16, 32):
            out.append((2, (a0, a1), 0, ea))
    for a0, a1 in itertools.product([1, 2, 4, 8], [1, 2, 4]):
        for ea in (2, 4, 8):
            if ea > a1:
                out.append((2, (a0, a1), 0, ea))
    for al in itertools.product([1, 2, 4, 8, 16], repeat=3):
        for p in (0, 1, 2):
            out.append((3, al, p, 0))
    boundary = [(2, (1, 8), 0, 0), (2, (8, 1), 0, 0), (2, (1, 16), 0, 0), (2, (4, 8), 1, 0), (2, (8, 8), 2, 0), (2, (1, 8), 0, 16), (2, (4, 8), 0, 16),
                (2, (16, 1), 0, 0), (2, (4, 4), 0, 8), (2, (2, 2), 0, 4), (2, (1, 1), 0, 2), (2, (8, 4), 0, 8), (3, (1, 8, 2), 0, 0), (3, (8, 1, 4), 2, 0), (2, (1, 4), 4, 0), (2, (2, 8), 4, 0)]
    if tier == 'thorough':
        return out, set(out)
    rest = [t for t in out if t not in boundary]
    rnd.shuffle(rest)
    quick = set(boundary) | set(rest[:28])
    return out, quick


def build(tier, seed):
    def k():
        sl = strip_test_mods(strip_uses(strip_inner(rd('codegen/struct_layout.rs'))))
        layout = strip_test_mods(strip_uses(strip_inner(rd('ir/layout.rs'))))
        hsrc = rd('codegen/helpers.rs')
        blob_real = extract(hsrc, r'^pub\(crate\) fn blob\(', what='helpers::blob')
        # mechanical rewrite (macro hygiene): inline format-args capture -> positional argument
        blob = blob_real.replace('format_ident!("__BindgenOpaqueArray{align}")', 'format_ident!("__BindgenOpaqueArray{}", align)')
        integer_type = extract(hsrc, r'^pub\(crate\) fn integer_type\(', what='helpers::integer_type')
        bfu = extract(hsrc, r'^pub\(crate\) fn bitfield_unit\(', what='helpers::bitfield_unit')
        m = re.search(r'^pub\(crate\) const RUST_DERIVE_IN_ARRAY_LIMIT: usize = \d+;', rd('ir/ty.rs'), flags=re.M)
        m2 = re.search(r'^pub\(crate\) const BITFIELD_UNIT: &str = "[^"]*";', hsrc, flags=re.M)
        if not m or not m2:
            raise SliceError('RUST_DERIVE_IN_ARRAY_LIMIT / BITFIELD_UNIT not found')
        drv = driver_region()
        pre = open(os.path.join(G, 'prelude', 'layout_env.rs')).read()
        allt, quick = tuples(tier, seed)
        gen, hs = [], []
        for (kk, al, p, ea) in allt:
            name = 's%d_%s_p%d_e%d' % (kk, '_'.join(map(str, al)), p, ea)
            gen.append('#[kani::proof] #[kani::unwind(%d)] fn %s() { struct_case::<%d, %d, %d>([%s]) }' % (kk + 2, name, kk, p, ea, ', '.join(map(str, al))))
            hs.append(H(name, tier='quick' if (kk, al, p, ea) in quick else 'thorough',
                        desc='struct of %d members, type alignments %s, %s%s; sizes, explicit-padding, namespaces symbolic' % (
                            kk, al, {0: 'natural layout', 1: 'packed / pragma pack(1)', 2: 'pragma pack(2)', 4: 'pragma pack(4)'}[p],
                            ', last member aligned(%d)' % ea if ea else ''),
                        sample={'members': kk, 'aligns': list(al), 'pack': p, 'member_aligned': ea}))
        for a in (0, 1, 2, 4, 8, 16, 32, 64):
            gen.append('#[kani::proof] fn blob_exact_a%d() { blob_exact::<%d>() }' % (a, a))
            hs.append(H('blob_exact_a%d' % a, desc='helpers::blob exact size/alignment, align %d, size <= 65536, ffi_safe and namespaces symbolic' % a, sample={'blob_align': a, 'size': '<=65536'},
                        may_unsat=('plain array',) if a > 4 else ()))
            if a >= 1 and a <= 8:
                gen.append('#[kani::proof] fn blob_padding_a%d() { blob_padding::<%d>() }' % (a, a))
                hs.append(H('blob_padding_a%d' % a, desc='padding blob ends where the next member starts, align %d, any start offset/size <= 4096' % a, sample={'padding_align': a}, may_unsat=('padding starts unaligned',) if a == 1 else ()))
        for a0, ta in itertools.product([1, 2, 4, 8], [1, 2, 4, 8]):
            name = 'unit_after_a%d_t%d' % (a0, ta)
            gen.append('#[kani::proof] #[kani::unwind(6)] fn %s() { unit_case::<%d, %d, false>() }' % (name, a0, ta))
            hs.append(H(name, tier='quick' if (a0, ta) in ((1, 4), (2, 4), (1, 8), (4, 8), (4, 4), (8, 2), (1, 1)) else 'thorough', may_unsat=('bit-field run pushed to a later boundary',) if ta <= a0 or ta == 1 else (),
                        desc='struct { M m0 (alignment %d, symbolic size); T f : w (T of size = alignment %d, any width) }: the allocation unit member pushed by the real tail of BitfieldUnit::codegen sits at the byte where C starts the bit-field; struct size agrees' % (a0, ta),
                        sample={'member_align': a0, 'bitfield_type_size': ta, 'width': '1..%d' % (8 * ta)}))
        for a0, ta in ((1, 1), (1, 4), (4, 1), (2, 8)):
            name = 'unit_after_packed_a%d_t%d' % (a0, ta)
            gen.append('#[kani::proof] #[kani::unwind(6)] fn %s() { unit_case::<%d, %d, true>() }' % (name, a0, ta))
            hs.append(H(name, tier='quick' if (a0, ta) in ((1, 4), (4, 1)) else 'thorough',
                        desc='the same in an __attribute__((packed)) struct: a zero-width bit-field in front of the run pushes it 0..7 bytes further; the unit member still starts where C starts the run' ,
                        sample={'member_align': a0, 'bitfield_type_size': ta, 'packed': True, 'gap_bytes': '0..7'}))
        hs.append(H('tracker_never_panics_on_arbitrary_layouts', timeout=1500, weight=3, tier='thorough', desc='StructLayoutTracker call sequence on arbitrary (not C-consistent) layouts: no panic', sample={'sizes': '<= 2^32', 'aligns': '<= 4096 (any, incl. 0 and non powers of two)', 'offsets': '<= 2^35 bits or None'}))
        hs.append(H('layout_for_size_is_largest_pow2_divisor', desc='Layout::for_size_internal', sample='ptr size 4|8, size <= 2^20'))
        hs.append(H('align_to_is_least_multiple', desc='struct_layout::align_to', sample='size <= 2^40, align in {0,1,2,3,8,24,64}'))
        unit_impl = extract(rd('codegen/mod.rs'), r"^impl FieldCodegen<'_> for BitfieldUnit \{", what='impl FieldCodegen for BitfieldUnit')
        mu = re.search(r'let access_spec = access_specifier\(unit_visibility\);', unit_impl)
        if not mu:
            raise SliceError('BitfieldUnit::codegen: `let access_spec = access_specifier(unit_visibility);` not found')
        fn_open = unit_impl.index('{', unit_impl.index('M: Extend<proc_macro2::TokenStream>,'))
        unit_tail = unit_impl[mu.end():match_brace(unit_impl, fn_open) - 1]
        har = open(os.path.join(G, 'harness', 'c02.rs')).read().replace('/*GENERATED*/', '\n    '.join(gen)).replace('/*UNIT_TAIL*/', unit_tail)
        # the tracker entry point for units gained an `offset` parameter with the repair of finding F14; the no-panic harness calls whichever form the tree has
        two = re.search(r'fn saw_bitfield_unit\(\s*&mut self,\s*layout: Layout,\s*offset: Option<usize>', sl) is not None
        har = har.replace('/*SAW_UNIT_MACRO*/', 'macro_rules! saw_unit { ($t:ident, $l:expr, $o:expr) => { %s } }' % ('{ let _ = $t.saw_bitfield_unit($l, $o); }' if two else '{ let _ = $o; $t.saw_bitfield_unit($l); }'))
        text = (pre + '\n' + m.group(0) + '\n' +
                'pub mod layout_mod { use super::*; ' + layout + '}\npub(crate) use layout_mod::Layout;\n' +
                'pub mod helpers { use super::*; use super::struct_layout::*; ' + m2.group(0) + '\n' + blob + '\n' + integer_type + '\n' + bfu + '}\n' +
                'pub mod struct_layout { use super::*; ' + sl + '}\n' + har)
        kern = Kernel(name='layout')
        kern.files = {'src/lib.rs': text}
        kern.harnesses = hs
        kern.encoded = [enc('codegen/struct_layout.rs', 'whole file', rd('codegen/struct_layout.rs')), enc('ir/layout.rs', 'whole file', rd('ir/layout.rs')),
                        enc('codegen/helpers.rs', 'fn blob', blob_real), enc('codegen/helpers.rs', 'fn integer_type', integer_type), enc('codegen/helpers.rs', 'fn bitfield_unit', bfu), enc('codegen/mod.rs', 'BitfieldUnit::codegen: tail (member push, tracker notification)', unit_tail),
                        dict(enc('codegen/mod.rs', 'CompInfo::codegen driver region (hand model, pinned)', drv), modelled=True)]
        kern.stubs = ['BindgenContext{options().force_explicit_padding/enable_cxx_namespaces, target_pointer_size=8, generated_opaque_array no-op}',
                      'CompInfo{is_union,is_rust_union}, Type{layout,kind,canonical_type}: field stand-ins',
                      'quote!/parse_quote!/format_ident!: pattern-matching macros that decode the emitted field type into (size, align): uN, [uN; len], __BindgenOpaqueArray<[uN; len]>, __BindgenOpaqueArrayA<[u8; size]> (repr(C, align(A)): size rounds up to A)',
                      'debug!/warn!/trace!/format!: no-ops', 'rewrite: format_ident!("__BindgenOpaqueArray{align}") -> format_ident!("__BindgenOpaqueArray{}", align) (macro hygiene only)']
        kern.assumptions = ['member sizes are multiples (1..6) of their type alignment; C offsets follow the Itanium/SysV record layout incl. packed, #pragma pack(2|4) and aligned(N) on the last member',
                            'the Rust type emitted for a member has the C type\'s size and alignment (induction over nesting; primitives are outside the claim)',
                            'driver statements (is_packed, already_packed, packed(n)/align(n) decision, call order) as modelled in harness/c02.rs']
        kern.bounds = ['%d alignment/packing tuples (quick: boundary + VERIF_SEED-rotated 28); 2-3 members; member size <= 6*align' % len(allt)]
        return [kern]
    def tables():
        mod = rd('codegen/mod.rs'); cx = rd('ir/context.rs'); comp = rd('ir/comp.rs')
        tfn = extract(mod, r'^    pub\(crate\) fn type_from_named\(', what='utils::type_from_named')
        isd = extract(cx, r'^    pub\(crate\) fn is_stdint_type\(&self, name: &str\) -> bool \{', what='BindgenContext::is_stdint_type')
        isp = extract(comp, r'^    pub\(crate\) fn is_packed\(', what='CompInfo::is_packed')
        alp = extract(comp, r'^    pub\(crate\) fn already_packed\(&self, ctx: &BindgenContext\) -> Option<bool> \{', what='CompInfo::already_packed')
        hsrc = rd('codegen/helpers.rs')
        ikrt = extract(hsrc, r'^    pub\(crate\) fn int_kind_rust_type\(', what='ast_ty::int_kind_rust_type')
        fkrt = extract(hsrc, r'^    pub\(crate\) fn float_kind_rust_type\(', what='ast_ty::float_kind_rust_type')
        fk = extract(rd('ir/ty.rs'), r'^pub\(crate\) enum FloatKind \{', what='enum FloatKind')
        intrs = strip_inner(rd('ir/int.rs'))
        h = open(os.path.join(G, 'harness', 'c02_tables.rs')).read()
        h = h.replace('/*INT_RS*/', intrs).replace('/*FLOAT_KIND*/', fk).replace('/*INT_KIND_RUST_TYPE*/', ikrt).replace('/*FLOAT_KIND_RUST_TYPE*/', fkrt.replace('super::integer_type', 'crate::integer_type'))
        h = h.replace('/*IS_STDINT*/', isd).replace('/*TYPE_FROM_NAMED*/', tfn.replace('pub(crate) fn', 'pub fn')).replace('/*IS_PACKED*/', isp).replace('/*ALREADY_PACKED*/', alp)
        kk = Kernel(name='tables')
        kk.files = {'src/lib.rs': h}
        kk.harnesses = [H('stdint_names_map_to_the_right_primitive', desc='type_from_named: 13 <stdint.h> names -> primitive of same width/sign; agrees with is_stdint_type under both size_t options', sample='13 names x size_t_is_usize'),
                        H('integer_kinds_map_to_rust_types_of_the_same_width_and_sign', desc='ast_ty::int_kind_rust_type x IntKind::{is_signed,known_size}: 20 sized kinds + bool/char/wchar_t', sample='23 integer kinds'),
                        H('float_kinds_map_to_rust_types_of_the_same_width', desc='ast_ty::float_kind_rust_type: float, double, long double by layout, __float128, _Float16', sample='5 float kinds x convert_floats'),
                        H('packed_attribute_and_pragma_pack_are_detected', desc='CompInfo::is_packed on <= 3 fields with symbolic layouts, parent layout known or not', sample={'fields': '<=3', 'parent_layout': 'Some|None'}),
                        H('already_packed_means_naturally_aligned_offsets', desc='CompInfo::already_packed', sample={'fields': '<=3'})]
        kk.encoded = [enc('codegen/helpers.rs', 'ast_ty::int_kind_rust_type', ikrt), enc('codegen/helpers.rs', 'ast_ty::float_kind_rust_type', fkrt), enc('ir/int.rs', 'whole file', rd('ir/int.rs')), enc('codegen/mod.rs', 'utils::type_from_named', tfn), enc('ir/context.rs', 'BindgenContext::is_stdint_type', isd), enc('ir/comp.rs', 'CompInfo::is_packed', isp), enc('ir/comp.rs', 'CompInfo::already_packed', alp)]
        kk.stubs = ['primitive_ty: returns the primitive name instead of tokens', 'CompInfo{packed_attr, has_own_virtual_method, fields}: stub field list with optional layouts; each_known_field_layout over it', 'info!: no-op']
        kk.bounds = ['13 concrete names; <= 3 fields, sizes <= 65536, alignments 1..32']
        return kk
    def driver():
        sl = strip_test_mods(strip_uses(strip_inner(rd('codegen/struct_layout.rs'))))
        layout = strip_test_mods(strip_uses(strip_inner(rd('ir/layout.rs'))))
        hsrc = rd('codegen/helpers.rs')
        blob_real = extract(hsrc, r'^pub\(crate\) fn blob\(', what='helpers::blob')
        blob = blob_real.replace('format_ident!("__BindgenOpaqueArray{align}")', 'format_ident!("__BindgenOpaqueArray{}", align)')
        integer_type = extract(hsrc, r'^pub\(crate\) fn integer_type\(', what='helpers::integer_type')
        m = re.search(r'^pub\(crate\) const RUST_DERIVE_IN_ARRAY_LIMIT: usize = \d+;', rd('ir/ty.rs'), flags=re.M)
        if not m:
            raise SliceError('RUST_DERIVE_IN_ARRAY_LIMIT not found')
        mod = rd('codegen/mod.rs')
        a = mod.find('        let mut explicit_align = None;')
        b = mod.find('        let derivable_traits = if self.is_forward_declaration() {')
        if a < 0 or b < a:
            raise SliceError('CompInfo::codegen region anchors not found')
        region_real = mod[a:b]
        if region_real.count('format!("packed({n})")') != 1:
            raise SliceError('CompInfo::codegen region: packed(n) formatting changed shape')
        region = region_real.replace('format!("packed({n})")', 'packed_n_string(n)')
        alp = extract(rd('ir/comp.rs'), r'^    pub\(crate\) fn already_packed\(&self, ctx: &BindgenContext\) -> Option<bool> \{', what='CompInfo::already_packed')
        pre = open(os.path.join(G, 'prelude', 'layout_env.rs')).read()
        har = open(os.path.join(G, 'harness', 'c02_driver.rs')).read().replace('/*REGION*/', region).replace('/*ALREADY_PACKED*/', alp)
        gen, hs = [], []
        tl = [(2, (1, 8), 0, 0), (2, (8, 1), 0, 0), (2, (4, 8), 1, 0), (2, (8, 8), 2, 0), (2, (1, 8), 0, 16), (2, (4, 4), 0, 8), (2, (1, 16), 0, 0), (2, (16, 8), 2, 0), (2, (16, 1), 4, 0),
              (3, (1, 8, 2), 0, 0), (3, (16, 8, 1), 2, 0), (3, (4, 16, 4), 2, 0), (3, (8, 1, 4), 1, 0), (2, (2, 4), 4, 0), (2, (8, 4), 0, 0), (2, (1, 2), 2, 0)]
        tl = [t + (0,) for t in tl]
        # struct-level __attribute__((aligned(SA))): alone, and together with __attribute__((packed)) (finding F20)
        tl += [(2, (1, 4), 0, 0, 16), (2, (4, 1), 0, 0, 8), (2, (8, 2), 0, 0, 32), (2, (1, 4), 1, 0, 8), (2, (1, 4), 1, 0, 2), (2, (2, 8), 1, 0, 4)]
        f20 = 'F20' in load_known()
        for i, (kk, al, p_, ea, sa_) in enumerate(tl):
            name = 'drv_s%d_%s_p%d_e%d' % (kk, '_'.join(map(str, al)), p_, ea) + ('_sa%d' % sa_ if sa_ else '')
            gen.append('#[kani::proof] #[kani::unwind(%d)] fn %s() { struct_case::<%d, %d, %d, %d>([%s]) }' % (14, name, kk, p_, ea, sa_, ', '.join(map(str, al))))
            region20 = sa_ > 1 and p_ == 1
            hs.append(H(name, path='driver_proofs::' + name, timeout=900, tier='quick' if i % 2 == 0 or p_ == 2 or sa_ else 'thorough', expect='finding:F20' if (region20 and f20) else 'pass',
                        desc='REAL CompInfo::codegen region on a struct of %d members (alignments %s, packing %d, member aligned %d, struct aligned %d): emitted fields + repr attributes laid out by Rust == C%s' % (kk, al, p_, ea, sa_, ' (inverted: region of finding F20, must keep failing while it stands)' if (region20 and f20) else ''),
                        sample={'members': kk, 'aligns': list(al), 'pack': p_, 'member_aligned': ea, 'struct_aligned': sa_}))
        for a_ in (1, 2, 4, 8, 16):
            gen.append('#[kani::proof] #[kani::unwind(14)] fn drv_opaque_a%d() { opaque_case::<%d>() }' % (a_, a_))
            hs.append(H('drv_opaque_a%d' % a_, path='driver_proofs::drv_opaque_a%d' % a_, timeout=900, tier='quick' if a_ in (1, 4, 16) else 'thorough',
                        desc='REAL CompInfo::codegen region on an opaque type of alignment %d, size <= 64*align, C definition packed or not: one blob, exact size/alignment, never packed+align' % a_, sample={'opaque': True, 'align': a_}))
        har = har.replace('/*GENERATED*/', '\n    '.join(gen))
        text = (pre + '\n' + m.group(0) + '\n' + 'pub mod layout_mod { use super::*; ' + layout + '}\npub(crate) use layout_mod::Layout;\n' +
                'pub mod helpers { use super::*; use super::struct_layout::*; ' + blob + '\n' + integer_type + '\npub mod ast_ty { pub fn int_expr(v: i64) -> usize { v as usize } } }\n' +
                'pub mod struct_layout { use super::*; ' + sl + '}\npub(crate) use struct_layout::StructLayoutTracker;\n' + har)
        kk_ = Kernel(name='driver')
        kk_.files = {'src/lib.rs': text}
        kk_.harnesses = hs
        kk_.encoded = [enc('codegen/mod.rs', 'impl CodeGenerator for CompInfo: region from `let mut explicit_align` to the derive computation (REAL text)', region_real),
                       enc('codegen/struct_layout.rs', 'whole file', rd('codegen/struct_layout.rs')), enc('codegen/helpers.rs', 'fn blob', blob_real), enc('ir/comp.rs', 'CompInfo::already_packed', alp)]
        kk_.stubs = ['quote!: one arm per token shape of the region (20 shapes); an unknown shape is a compile error (INCONCLUSIVE)', 'attributes::{doc, repr, repr_list}: record the repr instead of tokens',
                     'rewrite: format!("packed({n})") -> packed_n_string(n) (macro hygiene; same text)', 'Vec<TokenStream> -> fixed-capacity TVec (push / insert(0) / is_empty)',
                     'CompInfo: has_bitfields flag, field layouts, flex_array_member = None; Item::comment = None; flexarray_dst off; no generic parameters']
        kk_.assumptions = ['members are pushed by Field::codegen in declaration order, each preceded by the padding field saw_field_with_layout returned (codegen/mod.rs FieldCodegen for FieldData)',
                           'is_packed as computed by CompInfo::is_packed (kernel `tables`)', 'C numbers as in kernel `layout`']
        kk_.bounds = ['%d alignment/packing tuples + opaque types of alignment 1..16' % len(tl)]
        return kk_
    ks = []
    try:
        ks += k()
    except SliceError as e:
        ks.append(Kernel(name='layout', error='slice-failed: %s' % e))
    ks.append(kernel_or_error('tables', tables))
    ks.append(kernel_or_error('driver', driver))
    def builtin():
        cx = rd('ir/context.rs')
        f = extract(cx, r'^    fn build_builtin_ty\(&mut self, ty: &clang::Type\) -> Option<TypeId> \{', what='BindgenContext::build_builtin_ty')
        m = re.search(r'let type_kind = match ty\.kind\(\) \{', f)
        if not m:
            raise SliceError('build_builtin_ty: match statement not found')
        e = match_brace(f, m.end() - 1)
        stmt = f[m.start():e] + ';'
        fk = extract(rd('ir/ty.rs'), r'^pub\(crate\) enum FloatKind \{', what='enum FloatKind')
        h = open(os.path.join(G, 'harness', 'c02_builtin.rs')).read().replace('/*INT_RS*/', strip_inner(rd('ir/int.rs'))).replace('/*FLOAT_KIND*/', fk).replace('/*MATCH_STMT*/', stmt)
        kk = Kernel(name='builtin_types')
        kk.files = {'src/lib.rs': h}
        kk.harnesses = [H('builtin_c_types_keep_their_identity', desc='build_builtin_ty: every libclang builtin type kind -> the IntKind / FloatKind of the same C type (29 kinds, _Complex element, char16_t option)', sample='29 type kinds')]
        kk.encoded = [enc('ir/context.rs', 'BindgenContext::build_builtin_ty: match on the libclang type kind', stmt), enc('ir/int.rs', 'whole file', rd('ir/int.rs'))]
        kk.stubs = ['clang_sys::CXType_*: environment table of distinct codes (only identity matters)', 'clang::Type: kind + optional element kind']
        kk.bounds = ['all 29 listed kinds']
        return kk
    ks.append(kernel_or_error('builtin_types', builtin))
    def pointer():
        mod = rd('codegen/mod.rs')
        traits = []
        for pat, what in ((r'^pub\(crate\) trait TryToOpaque \{', 'trait TryToOpaque'), (r'^pub\(crate\) trait ToOpaque: TryToOpaque \{', 'trait ToOpaque'),
                          (r'^impl<T> ToOpaque for T where T: TryToOpaque \{\}', 'impl ToOpaque for T'), (r'^pub\(crate\) trait TryToRustTy \{', 'trait TryToRustTy'),
                          (r'^pub\(crate\) trait ToRustTyOrOpaque: TryToRustTy \+ ToOpaque \{', 'trait ToRustTyOrOpaque'), (r'^impl<E, T> ToRustTyOrOpaque for T$', 'impl ToRustTyOrOpaque for T')):
            if pat.endswith('\\{\\}'):
                mm = re.search(pat, mod, flags=re.M)
                if not mm:
                    raise SliceError('item not found: ' + what)
                traits.append(mm.group(0))
            else:
                traits.append(extract(mod, pat, what=what))
        imp = extract(mod, r'^impl TryToRustTy for Type \{', what='impl TryToRustTy for Type')
        m = re.search(r'TypeKind::Pointer\(inner\) \| TypeKind::Reference\(inner\) => \{', imp)
        if not m:
            raise SliceError('impl TryToRustTy for Type: Pointer / Reference arm not found')
        arm = imp[m.end() - 1:match_brace(imp, m.end() - 1)]
        h = open(os.path.join(G, 'harness', 'c02_pointer.rs')).read().replace('/*TRAITS*/', '\n'.join(traits)).replace('/*POINTER_ARM*/', arm)
        kk = Kernel(name='pointer_types')
        kk.files = {'src/lib.rs': h}
        kk.harnesses = [H('a_pointer_typed_value_always_occupies_a_pointer', desc='Pointer / Reference arm of Type::try_to_rust_ty with the real ToRustTyOrOpaque / ToOpaque fallbacks: whatever the pointee is (function type with a supported or unsupported ABI, Objective-C interface, anything else; convertible or not; layout known or not) an Ok result is pointer sized; otherwise an error reaches the caller',
                          sample='pointee kind x convertible x layouts x pointer size 4 / 8 x nonnull-references option')]
        kk.encoded = [enc('codegen/mod.rs', 'impl TryToRustTy for Type: Pointer / Reference arm', arm)] + [enc('codegen/mod.rs', 'conversion traits', t) for t in traits]
        kk.stubs = ['syn::Type: what the type expression stands for (Opaque(layout), FnPtr, ObjCObject, Named(layout), RawPtr, NonNull)', 'helpers::blob: Opaque(layout) (exactness is kernel layout)', 'the pointee item: conversion succeeds or fails, layout known or not',
                    'ItemResolver: identity']
        kk.assumptions = ['Option<unsafe extern fn>, *const T, *mut T, NonNull<T> and an Objective-C wrapper struct are pointer sized', 'an Objective-C interface always converts (named by identifier)']
        kk.bounds = ['no loops; pointer size 4 or 8; layouts <= 64 bytes']
        return kk
    ks.append(kernel_or_error('pointer_types', pointer))
    return ks
