"""C15 - formatter failure is not fatal; header comment and raw lines exactly once (kernel level)."""
import os, re
from common import *
G = os.path.dirname(os.path.dirname(os.path.abspath(__file__)))
LEVEL_TEXT = 'bounded model checking of the real Bindings::{write, rustfmt_path, format_tokens} against a nondeterministic child-process stub: every spawn/stdin/read/wait outcome and every 32-bit raw wait status'
OUTSIDE = ['token equality of rustfmt / prettyplease output (trusted formatter)', 'hangs and deadlocks between the stdin writer thread and the stdout reader (no scheduling model: the stub thread runs synchronously)', 'large inputs / pipe buffer sizes',
           'formatter output longer than 2 bytes']
EXPLANATION = ('The three methods are compiled unchanged except for one listed rewrite (::std::thread::spawn -> synchronous stub). Symbolic: spawn result, whether the child accepts stdin, <=2 output bytes, a read error position, wait() error, '
               'ANY raw wait status through the real ExitStatusExt::from_raw, formatter setting, header flag, 0..2 raw lines, writer failing at byte j.')


def build(tier, seed):
    def k():
        lib = rd('lib.rs')
        w = extract(lib, r'^    pub fn write\(&self, mut writer: impl Write\) -> io::Result<\(\)> \{', what='Bindings::write')
        rp = extract(lib, r"^    fn rustfmt_path\(&self\) -> Cow<'_, Path> \{", what='Bindings::rustfmt_path')
        ft = extract(lib, r'^    fn format_tokens\(', what='Bindings::format_tokens')
        body = (w + '\n' + rp + '\n' + ft)
        # the one rewrite: the helper thread becomes a synchronous stub that marks its closure as 'the feeder'. If the code no longer spawns one,
        # nothing is rewritten and the pipe model of the environment decides whether writing stdin on the reading thread can block forever
        body = body.replace('::std::thread::spawn', 'verif_thread::spawn').replace('std::thread::spawn', 'verif_thread::spawn').replace('thread::spawn', 'verif_thread::spawn').replace('verif_verif_thread', 'verif_thread')
        pre = open(os.path.join(G, 'prelude', 'proc_env.rs')).read()
        text = pre + 'impl Bindings {\n' + body + '\n}\n' + open(os.path.join(G, 'harness', 'c15.rs')).read()
        kern = Kernel(name='formatter')
        kern.files = {'src/lib.rs': text}
        kern.cargo_features = ['prettyplease']
        kern.harnesses = [H('rustfmt_faults_are_not_fatal', timeout=1500, weight=3, stubbing=True, desc='formatter = rustfmt: every child-process fault falls back to the unformatted tokens; only a failing writer is an error', sample={'spawn': 'ok|err', 'stdin': 'ok|err', 'stdout': '<=2 bytes, read error anywhere', 'wait': 'err | any raw status'}),
                          H('rustfmt_closing_stdin_early_is_not_fatal', timeout=1500, weight=3, stubbing=True, desc='same with the child refusing its stdin (write error in the feeder thread)', sample={'stdin': 'err'}),
                          H('formatter_none_writes_tokens', timeout=900, desc='formatter = none', sample='Formatter::None'),
                          H('formatter_prettyplease_writes_unparsed', timeout=900, desc='formatter = prettyplease', sample='Formatter::Prettyplease')]
        kern.encoded = [enc('lib.rs', 'Bindings::write', w), enc('lib.rs', 'Bindings::rustfmt_path', rp), enc('lib.rs', 'Bindings::format_tokens', ft)]
        kern.stubs = ['std::process::{Command, Child, ChildStdin, ChildStdout, Stdio}: scripted child (symbolic Script)', 'io::{Write, Read, copy}: byte-wise traits with the same method names; io::copy = plain read/write loop', 'io::Error / ErrorKind: plain value type (kind only; cheap Debug) instead of the bit-packed std type',
                      'rewrite: ::std::thread::spawn -> verif_thread::spawn (runs the closure synchronously, join() returns its result)', 'proc_macro2::TokenStream::to_string() = "M"; prettyplease::unparse = "P"; header comment write! = "H"',
                      'env::var("RUSTFMT"): nondeterministic', 'eprintln!/format!/warn!/debug_assert!: no-ops', 'ExitStatus: the real std type via ExitStatusExt::from_raw(any i32)', '-Z stubbing: core::result::unwrap_failed -> plain panic (skips the {:?} formatting of the error)']
        kern.assumptions = ['the writer thread cannot run concurrently with the reader (synchronous stub): orderings and deadlocks are outside the model', 'formatter output <= 2 bytes']
        kern.bounds = ['output <= 2 bytes; raw lines <= 2; all 2^32 wait statuses; unwind 20']
        return [kern]
    try:
        return k()
    except SliceError as e:
        return [Kernel(name='formatter', error='slice-failed: %s' % e)]
