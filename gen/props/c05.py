"""C05 - constants carry the C value in a type that can hold it (kernel level)."""
import os, re
from common import *
G = os.path.dirname(os.path.dirname(os.path.abspath(__file__)))
LEVEL_TEXT = 'bounded model checking of default_macro_constant_type, the literal choice of Var::codegen, the char conversion of Var::parse and the enum repr translation over all i64 values / options, with the real ir/int.rs'
OUTSIDE = ['macro evaluation itself (cexpr crate: untyped wrapping-i64 arithmetic, disagrees with C for unsigned/overflowing expressions; see DESIGN.md)', 'libclang evaluation of const variables (FFI)',
           'float and string constants', 'enumerator extraction from libclang', 'EnumBuilder templates']
EXPLANATION = 'All i64 macro values x {signed,unsigned} default x fit_macro_constants; all (signed,size) enum repr pairs; all byte values of a char macro; literal choice for every sized integer kind.'


def stmt(src, start_re, what):
    m = re.search(start_re, src)
    if not m:
        raise SliceError('statement not found: ' + what)
    i = src.index('{', m.start())
    e = match_brace(src, i)
    # extend over `else {..}` chains
    while True:
        m2 = re.match(r'\s*else\s*(if[^{]*)?\{', src[e:])
        if not m2:
            break
        e = match_brace(src, e + m2.end() - 1)
    if src[e] != ';':
        raise SliceError('statement shape changed: ' + what)
    return src[m.start():e + 1]


def build(tier, seed):
    def k():
        var = rd('ir/var.rs'); mod = rd('codegen/mod.rs')
        intrs = strip_inner(rd('ir/int.rs'))
        dmct = extract(var, r'^fn default_macro_constant_type\(', what='default_macro_constant_type')
        mtv = extract(mod, r'^pub enum MacroTypeVariation \{', what='enum MacroTypeVariation')
        lit = stmt(mod, r'let val = if int_kind\.is_signed\(\) \{', 'Var::codegen literal choice')
        ch = stmt(var, r'let c = match c \{', 'Var::parse char conversion')
        tr = stmt(mod, r'let translated = match \(signed, size\) \{', 'Enum::codegen repr translation')
        as_int = extract(rd('clang.rs'), r'^    pub\(crate\) fn as_int\(&self\) -> Option<i64> \{', what='EvalResult::as_int')
        glf = extract(var, r'^fn get_integer_literal_from_cursor\(', what='get_integer_literal_from_cursor')
        mv = re.search(r'\n([ \t]*let mut val = .*?)\n\s*val\.map\(\|val\| \{', var, flags=re.S)
        if not mv or 'cursor.evaluate()' not in mv.group(1):
            raise SliceError('Var::parse: `let mut val = ..` statement of the integer arm not found')
        vstmt = mv.group(1)
        h = open(os.path.join(G, 'harness', 'c05.rs')).read().replace('/*AS_INT*/', as_int).replace('/*GET_LITERAL_FN*/', glf).replace('/*VALUE_STMT*/', vstmt)
        h = (h.replace('/*INT_RS*/', intrs).replace('/*MACRO_TYPE_VARIATION*/', mtv).replace('/*DEFAULT_MACRO_CONSTANT_TYPE*/', dmct)
             .replace('/*LITERAL_STMT*/', lit).replace('/*CHAR_STMT*/', ch).replace('/*TRANSLATE_STMT*/', tr))
        kern = Kernel(name='constants')
        kern.files = {'src/lib.rs': h}
        kern.harnesses = [
            H('macro_constant_kind_holds_value_and_is_narrowest', desc='all i64 x options: kind holds value, sign rule, narrowest allowed', sample={'value': 'any i64', 'default': 'signed|unsigned', 'fit': 'bool'}),
            H('macro_constant_literal_denotes_the_value', desc='kind selection composed with the literal choice', sample={'value': 'any i64'}),
            H('literal_for_every_kind', desc='literal choice for 14 sized integer kinds, any value the kind holds', sample={'kind': '14 kinds', 'value': 'any i64 that fits'}),
            H('char_macro_value_preserved', desc='char-literal macro: any character constant cexpr can hand back (any u64 raw value, any char) is emitted with its value or skipped - never a panic, never another value', sample={'raw': 'any u64', 'char': 'any char'}, may_unsat=('character constant that does not fit is skipped',)),
            H('const_variable_value_from_libclang_not_truncated', desc='EvalResult::as_int over a stub CXEvalResult (any 64-bit value, signed/unsigned)', sample={'value': 'any 64-bit', 'unsigned': 'bool'}),
            H('const_variable_takes_the_value_clang_computed', desc='Var::parse integer arm (`let mut val = ..`) with the real get_integer_literal_from_cursor: whenever libclang evaluates the initializer the variable gets that value, whatever the initializer tokens evaluate to', sample={'initializer': '<= 2 nested nodes of any kind', 'token value': 'any i64 or none', 'clang value': 'any 64-bit or none'}),
            H('enum_repr_translation_keeps_width_and_sign', desc='(signed,size) -> IntKind keeps width and sign; unknown sizes -> I32', sample={'signed': 'bool', 'size': 'any usize'}),
        ]
        kern.encoded = [enc('ir/var.rs', 'Var::parse: value statement of the integer arm', vstmt), enc('ir/var.rs', 'fn get_integer_literal_from_cursor', glf), enc('ir/var.rs', 'fn default_macro_constant_type', dmct), enc('ir/int.rs', 'whole file', rd('ir/int.rs')), enc('codegen/mod.rs', 'Var::codegen: literal choice statement', lit),
                        enc('ir/var.rs', 'Var::parse: char conversion statement', ch), enc('codegen/mod.rs', 'Enum::codegen: repr translation statement', tr), enc('codegen/mod.rs', 'enum MacroTypeVariation', mtv), enc('clang.rs', 'EvalResult::as_int', as_int)]
        kern.stubs = ['BindgenContext::options() with the two option fields read', 'helpers::ast_ty::{int_expr,uint_expr}: return the literal value instead of tokens', 'cexpr CChar: two-variant stand-in', 'warn!: no-op', 'clang_EvalResult_{isUnsignedInt,getAsUnsigned,getAsLongLong,getAsInt}: environment stubs per libclang documentation (getAsInt truncates to int)']
        kern.assumptions = ['libclang evaluation of an initializer (clang_Cursor_Evaluate) yields the C value; the value cexpr computes from the tokens is an arbitrary i64 (untyped wrapping arithmetic)', '(the earlier assumption that cexpr returns only single-byte character constants was wrong - finding F17 - and is gone)']
        kern.bounds = ['all i64 values; all option combinations; no loops']
        return [kern]
    try:
        return k()
    except SliceError as e:
        return [Kernel(name='constants', error='slice-failed: %s' % e)]
