"""C10 - blocklisted items referenced but never defined; opaque types are exact blobs (kernel level)."""
import os, re
from common import *
from props import c02, c08, c09
LEVEL_TEXT = 'bounded model checking of helpers::blob (exact size/alignment), of the real Trace impls on opaque items (no field / base edges), of the allowlisting traversal on blocklisted items, and of the derive rule for blocklisted types'
OUTSIDE = ['Item::is_blocklisted / opaque_by_name (regex sets and path strings)', 'that every use site still NAMES a blocklisted type (token templates)', 'layout of containers once the user supplies a definition']
EXPLANATION = 'The opaque path of the REAL CompInfo::codegen region (one blob of the C size and alignment, never packed+align). Reuses three more kernels: the layout kernel of C02 (blob harnesses), the traversal kernel of C09 (edge enumeration incl. opaque items, blocklisted roots) and the derive specification kernel of C08 (non-allowlisted X: exactly what the user vouches for).'


def build(tier, seed):
    ks = []
    try:
        lay = c02.build(tier, seed)[0]
        if not lay.error:
            lay.harnesses = [h for h in lay.harnesses if h.name.startswith('blob_')]
            lay.name = 'blob'
        ks.append(lay)
    except Exception as e:
        ks.append(Kernel(name='blob', error='build-failed: %s' % e))
    try:
        for k in c02.build(tier, seed):
            if k.name == 'driver':
                if not k.error:
                    k.harnesses = [h for h in k.harnesses if h.name.startswith('drv_opaque_')]
                k.name = 'opaque_codegen'
                ks.append(k)
    except Exception as e:
        ks.append(Kernel(name='opaque_codegen', error='build-failed: %s' % e))
    def trav():
        k = c09.traversal_kernel(tier, ('edges', 'block'))
        k.harnesses = [h for h in k.harnesses if h.name.startswith('blocklisted_') or h.name in ('edges_Comp', 'edges_Alias', 'edges_TemplateInstantiation', 'edges_Opaque', 'edges_Array')]
        for h in k.harnesses:
            h.tier = 'thorough'
            if h.name in ('edges_Comp', 'edges_Alias', 'edges_Opaque'):
                h.tier = 'quick'
        k.name = 'opaque_and_blocklisted_traversal'
        return k
    ks.append(kernel_or_error('opaque_and_blocklisted_traversal', trav))
    def der():
        k = [x for x in c08.build(tier, seed) if x.name == 'derive_spec'][0]      # by name: the order of C08's kernels is not an interface
        if k.error:
            return k
        k.harnesses = [h for h in k.harnesses if re.match(r'spec_(copy|debug|default|hash|partialeq)_(Int|Comp)_c0$', h.name)]
        for h in k.harnesses:
            h.tier = 'quick' if h.name in ('spec_copy_Int_c0', 'spec_debug_Comp_c0') else 'thorough'
            h.desc = 'blocklisted (non-allowlisted) X derives exactly what the user vouches for; ' + h.desc
        k.name = 'derive_blocklisted'
        return k
    ks.append(kernel_or_error('derive_blocklisted', der))
    def helper():
        G = os.path.dirname(os.path.dirname(os.path.abspath(__file__)))
        f = extract_from('codegen/mod.rs', r'^    pub\(crate\) fn prepend_bitfield_unit_type\(')
        if f.count('include_str!("./bitfield_unit.rs")') != 1:
            raise SliceError('prepend_bitfield_unit_type: include_str! shape changed')
        t = f.replace('include_str!("./bitfield_unit.rs")', '"X"').replace('pub(crate) fn', 'pub fn')
        k = Kernel(name='helper_prologue')
        k.files = {'src/lib.rs': open(os.path.join(G, 'harness', 'c10_helper.rs')).read().replace('/*PREPEND*/', t)}
        k.harnesses = [H('blocklisted_helper_type_is_not_defined', timeout=600, desc='utils::prepend_bitfield_unit_type: not emitted when __BindgenBitfieldUnit is blocklisted as a type OR as an item; otherwise prepended once', sample='2x2 blocklist answers')]
        k.encoded = [enc('codegen/mod.rs', 'utils::prepend_bitfield_unit_type', f)]
        k.stubs = ['RegexSet::matches: symbolic answer', 'proc_macro2::TokenStream: marker enum; quote!(#x) = x', 'rewrite: include_str!("./bitfield_unit.rs") -> "X"']
        k.bounds = ['two pre-existing items']
        return k
    ks.append(kernel_or_error('helper_prologue', helper))
    def opacity():
        G = os.path.dirname(os.path.dirname(os.path.abspath(__file__)))
        impl_id = extract_from('ir/item.rs', r'^impl<T> IsOpaque for T$')
        impl_item = extract_from('ir/item.rs', r'^impl IsOpaque for Item \{')
        impl_type = extract_from('ir/ty.rs', r'^impl IsOpaque for Type \{')
        impl_comp = extract_from('ir/comp.rs', r'^impl IsOpaque for CompInfo \{')
        h = open(os.path.join(G, 'harness', 'c10_opacity.rs')).read()
        h = h.replace('/*IMPL_ID*/', impl_id).replace('/*IMPL_ITEM*/', impl_item).replace('/*IMPL_TYPE*/', impl_type).replace('/*IMPL_COMP*/', impl_comp)
        names = ['Opaque', 'Int', 'Alias', 'Pointer', 'ResolvedTypeRef', 'TemplateInstantiation', 'Comp']
        cases = [(n, i, k0) for i, n in enumerate(names) for k0 in ((False, True) if n in ('ResolvedTypeRef', 'TemplateInstantiation', 'Alias') else (False,))]
        gen = ['#[kani::proof] #[kani::unwind(2)] fn opacity_%s_%d() { case(%d, %s) }' % (n, k0, i, 'true' if k0 else 'false') for n, i, k0 in cases]
        k = Kernel(name='opacity')
        k.files = {'src/lib.rs': h.replace('/*GENERATED*/', '\n    '.join(gen))}
        k.harnesses = [H('opacity_%s_%d' % (n, k0), timeout=600, desc='Item::is_opaque for a %s item%s: annotation, --opaque-type, or unrepresentable structure; exactly' % (n, ' referring to a TypeKind::Opaque item' if k0 else ''), sample={'X_kind': n, 'target_is_opaque_kind': k0}, may_unsat=('transparent',) if (n == 'Opaque' or (k0 and n != 'Alias')) else ()) for n, i, k0 in cases]
        k.encoded = [enc('ir/item.rs', 'impl IsOpaque for T (ids)', impl_id), enc('ir/item.rs', 'impl IsOpaque for Item', impl_item), enc('ir/ty.rs', 'impl IsOpaque for Type', impl_type), enc('ir/comp.rs', 'impl IsOpaque for CompInfo', impl_comp)]
        k.stubs = ['three-item mini IR with the field / method names the four impls use', 'impl IsOpaque for TemplateInstantiation: stub (definition opaque, or matched by name); the real one builds path strings',
                   'opaque_by_name(path_for_allowlisting): symbolic flag per item']
        k.bounds = ['7 item kinds; bit-field width <= 1024, declared type size 1..8']
        return k
    ks.append(kernel_or_error('opacity', opacity))
    return ks
