"""C12 - generation ends with bindings or an error value, never a panic (kernel level)."""
import os
from common import *
from props import features_text
LEVEL_TEXT = 'absence of panics (overflow, index, unwrap, shift, reachable unreachable!) for all inputs within the bounds of the encoded input-facing kernels; the two error paths (clang diagnostics -> error value, input path faults -> specific error) decided on the real statements against a modelled environment'
OUTSIDE = ['the several hundred expect/unwrap/unreachable sites whose preconditions are libclang AST shapes', 'stack depth and termination of the whole pipeline', 'what libclang reports for a given header text, and real file-system behaviour: both are modelled (diagnostic list; stat/lstat of one path)', 'assert!/expect sites in the parser whose preconditions are libclang shapes (e.g. Var::parse on unresolvable types: seeded change C12-m3 is not decided)']
EXPLANATION = 'Kani default checks (dev-profile semantics) on every path of RustTarget::from_str over shape-parameterised strings; plus all harnesses of the other properties, which carry the same checks.'


def build(tier, seed):
    def q(md, pd, sid):
        return (md, pd, sid) in [(1, 0, 3), (2, 0, 0), (2, 1, 3), (1, 0, 0), (3, 2, 1), (2, 0, 4), (1, 1, 2)] or (md + pd + sid + seed) % 5 == 0
    ks = [kernel_or_error('features_text', lambda: features_text.features_kernel(False, tier, q))]
    # the layout tracker on numbers no C compiler would produce (libclang error recovery can): absence of panics only
    try:
        from props import c02
        lay = c02.build(tier, seed)[0]
        if not lay.error:
            lay.harnesses = [h for h in lay.harnesses if h.name == 'tracker_never_panics_on_arbitrary_layouts']
            for h in lay.harnesses:
                h.tier = 'quick'
            lay.name = 'tracker_unconstrained'
        ks.append(lay)
    except Exception as e:
        ks.append(Kernel(name='tracker_unconstrained', error='build-failed: %s' % e))
    def errors():
        G = os.path.dirname(os.path.dirname(os.path.abspath(__file__)))
        import re
        pf = extract_from('lib.rs', r'^fn parse\(context: &mut BindgenContext\) -> Result<\(\), BindgenError> \{')
        m = re.search(r'\{\n(.*?)\n\s*let cursor = context\.translation_unit\(\)\.cursor\(\);', pf, flags=re.S)
        if not m or 'ClangDiagnostic' not in m.group(1):
            raise SliceError('fn parse: diagnostics prologue shape changed')
        head = m.group(1)
        lib = rd('lib.rs')
        m2 = re.search(r'\n(        #\[cfg\(unix\)\]\n        fn can_read\(.*?)\n        for \(idx, f\) in input_unsaved_files', lib, flags=re.S)
        if not m2 or 'NotExist' not in m2.group(1):
            raise SliceError('Bindings::generate: input path pre-check shape changed')
        pre = m2.group(1)
        h = open(os.path.join(G, 'harness', 'c12_errors.rs')).read().replace('/*PARSE_HEAD*/', head).replace('/*PRECHECK*/', pre)
        k = Kernel(name='error_paths')
        k.files = {'src/lib.rs': h}
        k.harnesses = [H('clang_rejection_is_an_error_value', timeout=600, desc='fn parse: Err(ClangDiagnostic) with every error/fatal message in order iff some diagnostic has severity >= error; otherwise goes on', sample='up to 3 diagnostics, all severities'),
                       H('input_path_faults_yield_their_specific_error', timeout=600, desc='Bindings::generate input pre-check: missing -> NotExist, directory -> FolderAsHeader, no read bit -> InsufficientPermissions, judged on what the path resolves to (symbolic links followed)', sample='0..2 headers; regular / directory / symlink (dangling, to dir, to unreadable)')]
        k.encoded = [enc('lib.rs', 'fn parse (diagnostics prologue)', head), enc('lib.rs', 'Bindings::generate (input path pre-check, can_read)', pre)]
        k.stubs = ['clang diagnostics: list of (severity, message id); String: the sequence of pushed messages', 'std::fs::{metadata, symlink_metadata}, PermissionsExt: a model of stat / lstat on one path (exists, link, target)', 'eprintln!: no-op']
        k.bounds = ['<= 3 diagnostics; <= 2 input headers; modes <= 0o7777']
        return k
    # code-generation kernels whose panic freedom is part of this property: the link-name decision and the consumers of the calling convention
    try:
        from props import c04
        for kk in c04.build(tier, seed):
            if kk.name == 'link_name':
                kk.name = 'link_name_decision'
                kk.harnesses = [h for h in kk.harnesses if h.name == 'link_name_decision_never_panics']
                ks.append(kk)
            elif kk.name == 'abi':
                kk.name = 'calling_convention'
                kk.harnesses = [h for h in kk.harnesses if h.name == 'any_calling_convention_is_bound_or_skipped_never_a_panic']
                ks.append(kk)
    except Exception as e:
        ks.append(Kernel(name='calling_convention', error='build-failed: %s' % e))
    # every analysis a code-generation consumer can ask for has been computed (no unwrap on a skipped analysis); kernel shared with C08
    try:
        from props import c08
        for kk in c08.build(tier, seed):
            if kk.name == 'gates':
                kk.name = 'analysis_availability'
                kk.harnesses = [h for h in kk.harnesses if h.name == 'every_analysis_a_consumer_can_ask_for_has_been_computed']
                ks.append(kk)
    except Exception as e:
        ks.append(Kernel(name='analysis_availability', error='build-failed: %s' % e))
    ks.append(kernel_or_error('error_paths', errors))
    return ks
