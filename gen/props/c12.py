"""C12 - generation ends with bindings or an error value, never a panic (kernel level)."""
import os
from common import *
from props import features_text
LEVEL_TEXT = 'absence of panics (overflow, index, unwrap, shift, reachable unreachable!) for all inputs within the bounds of the encoded input-facing kernels'
OUTSIDE = ['the several hundred expect/unwrap/unreachable sites whose preconditions are libclang AST shapes', 'stack depth and termination of the whole pipeline', 'clang-rejected headers and file-system faults (FFI / IO)']
EXPLANATION = 'Kani default checks (dev-profile semantics) on every path of RustTarget::from_str over shape-parameterised strings; plus all harnesses of the other properties, which carry the same checks.'


def build(tier, seed):
    def q(md, pd, sid):
        return (md, pd, sid) in [(1, 0, 3), (2, 0, 0), (2, 1, 3), (1, 0, 0), (3, 2, 1), (2, 0, 4), (1, 1, 2)] or (md + pd + sid + seed) % 5 == 0
    ks = [kernel_or_error('features_text', lambda: features_text.features_kernel(False, tier, q))]
    # the layout tracker on numbers no C compiler would produce (libclang error recovery can): absence of panics only
    try:
        from props import c02
        lay = c02.build(tier, seed)[0]
        if not lay.error:
            lay.harnesses = [h for h in lay.harnesses if h.name == 'tracker_never_panics_on_arbitrary_layouts']
            for h in lay.harnesses:
                h.tier = 'quick'
            lay.name = 'tracker_unconstrained'
        ks.append(lay)
    except Exception as e:
        ks.append(Kernel(name='tracker_unconstrained', error='build-failed: %s' % e))
    return ks
