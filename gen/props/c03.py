"""C03 - bit-field getters, setters and constructors agree bit-for-bit with C."""
import os, re, random
from common import *

HD = os.path.join(os.path.dirname(os.path.dirname(os.path.abspath(__file__))), 'harness')

LEVEL_TEXT = 'bounded model checking of the real bitfield_unit.rs, the real accessor/constructor token templates (instantiated textually) and the real bitfields_to_allocation_units against bit-vector / Itanium reference models'
OUTSIDE = ['bit offsets as libclang reports them (assumed to follow the Itanium rule)', 'MS bit-field ABI', 'big-endian targets (cfg!-dead on the host)',
           'enum-typed bit-fields with the Rust-enum style (transmute validity)', 'which accessor template CompInfo::codegen picks for which parent (driver)']
EXPLANATION = ('K1: every (offset, width<=64, value, storage) for storage sizes in the stated list through get/set/raw_*/bit accessors vs a bit model; '
               'K1c: const-generic entry points per (OFFSET,WIDTH) tuple; K3: the quote! bodies of impl FieldCodegen for Bitfield and Bitfield::extend_ctor_impl '
               'are sliced, their #placeholders substituted per (declared type, unit size, offset, width) tuple, compiled as real methods and compared with C semantics; '
               'K2: bitfields_to_allocation_units on symbolic runs.')

SIZES_QUICK = [1, 4, 9]
SIZES_ALL = [1, 2, 3, 4, 8, 9, 12, 16]


def unit_src():
    return rd('codegen/bitfield_unit.rs')


def k1(tier, known):
    src = unit_src()
    k = Kernel(name='k1_unit')
    gen = []
    hs = []
    f2 = 'F2' in known
    main_mode = 'Some(false)' if f2 else 'None'
    sizes = SIZES_ALL if tier == 'thorough' else SIZES_QUICK
    for n in SIZES_ALL:
        t = 'quick' if n in SIZES_QUICK else 'thorough'
        gen.append('#[kani::proof] #[kani::unwind(66)] fn get_n%d() { get_case::<%d>(%s) }' % (n, n, main_mode))
        gen.append('#[kani::proof] #[kani::unwind(12)] fn set_n%d() { set_case::<%d>(%s) }' % (n, n, main_mode))
        gen.append('#[kani::proof] #[kani::unwind(12)] fn bit_n%d() { bit_case::<%d>() }' % (n, n))
        excl = ' (F2 region (offset%8)+width>64 excluded: known finding)' if f2 and n >= 9 else ''
        hs.append(H('get_n%d' % n, tier=t, desc='get/raw_get == bit model, [u8;%d], all offsets, widths 1..=64%s' % (n, excl),
                    sample={'storage': '[u8;%d] symbolic' % n, 'offset': 'any', 'width': '1..=64'}, timeout=900))
        hs.append(H('set_n%d' % n, tier=t, desc='set/raw_set: read-back, frame, stored bits, [u8;%d]%s' % (n, excl),
                    sample={'storage': '[u8;%d] symbolic' % n, 'offset': 'any', 'width': '1..=64', 'value': 'any u64'}, timeout=900))
        hs.append(H('bit_n%d' % n, tier=t, desc='get_bit/set_bit/raw_* on [u8;%d]' % n, sample={'storage': '[u8;%d]' % n, 'bit': 'any'}))
        if n >= 9:
            gen.append('#[kani::proof] #[kani::unwind(66)] fn f2_get_n%d() { get_case::<%d>(Some(true)) }' % (n, n))
            gen.append('#[kani::proof] #[kani::unwind(12)] fn f2_set_n%d() { set_case::<%d>(Some(true)) }' % (n, n))
            if n == 9 or tier == 'thorough':
                hs.append(H('f2_get_n%d' % n, expect='finding:F2', tier=t, desc='inverted: get == model inside (offset%%8)+width>64, [u8;%d]' % n))
                hs.append(H('f2_set_n%d' % n, expect='finding:F2', tier=t, desc='inverted: set inside (offset%%8)+width>64, [u8;%d]' % n))
    h = open(os.path.join(HD, 'c03_k1.rs')).read()
    h = h.replace('fn field<const N: usize>(f2_region: bool)', 'fn field<const N: usize>(f2_region: Option<bool>)')
    h = h.replace('kani::assume(((off % 8) + width as usize > 64) == f2_region);',
                  'if let Some(r) = f2_region { kani::assume(((off % 8) + width as usize > 64) == r); }')
    h = h.replace('fn get_case<const N: usize>(f2_region: bool)', 'fn get_case<const N: usize>(f2_region: Option<bool>)')
    h = h.replace('fn set_case<const N: usize>(f2_region: bool)', 'fn set_case<const N: usize>(f2_region: Option<bool>)')
    h = h.replace('if !f2_region {', 'if f2_region != Some(true) {')
    h = h.replace('/*GENERATED*/', '\n    '.join(gen))
    k.files = {'src/lib.rs': h, 'src/bitfield_unit.rs': src}
    k.harnesses = hs
    k.encoded = [enc('codegen/bitfield_unit.rs', 'whole file', src)]
    k.bounds = ['storage sizes %s (quick %s); offset any; width 1..=64; value any u64; unwind 66 (64-bit model loop) / 12 (9 byte loop)' % (SIZES_ALL, SIZES_QUICK)]
    k.assumptions = ['offset+width <= 8*N (what bitfields_to_allocation_units guarantees, K2)', 'little-endian host (cfg!(target_endian) resolved at compile time)']
    return k


def const_tuples(n):
    ws = [1, 2, 3, 7, 8, 9, 15, 16, 17, 31, 32, 33, 63, 64]
    out = []
    for w in ws:
        if w > n * 8:
            continue
        offs = {0, 1, 4, 7, 8, 9, 13, n * 8 - w}
        for o in sorted(offs):
            if o < 0 or o + w > n * 8:
                continue
            out.append((o, w))
    return out


def k1c(tier, seed, known):
    src = unit_src()
    k = Kernel(name='k1c_const')
    gen, hs = [], []
    rnd = random.Random(seed)
    f2 = 'F2' in known
    for n in [1, 2, 4, 8, 9, 16]:
        tuples = const_tuples(n)
        normal = [t for t in tuples if (t[0] % 8) + t[1] <= 64]
        bad = [t for t in tuples if (t[0] % 8) + t[1] > 64]
        if not f2:
            normal += bad
            bad = []
        # group into harnesses of up to 6 tuples each
        boundary = [t for t in normal if t[1] in (1, 64) or (t[0] % 8) + t[1] in (63, 64) or t[0] + t[1] == n * 8]
        for idx in range(0, len(normal), 6):
            grp = normal[idx:idx + 6]
            name = 'const_n%d_g%d' % (n, idx // 6)
            body = ' '.join('const_case::<%d, %d, %d>();' % (n, o, w) for o, w in grp)
            gen.append('#[kani::proof] #[kani::unwind(66)] fn %s() { %s }' % (name, body))
            hs.append(H(name, tier='thorough', desc='get_const/set_const/raw_*_const vs model, N=%d tuples %s' % (n, grp),
                        sample={'N': n, 'offset_width': grp}, timeout=900))
        for (o, w) in bad[:2]:
            name = 'f2_const_n%d_o%d_w%d' % (n, o, w)
            gen.append('#[kani::proof] #[kani::unwind(66)] fn %s() { const_case::<%d, %d, %d>(); }' % (name, n, o, w))
            hs.append(H(name, expect='finding:F2', tier='quick' if n == 9 and (o, w) == bad[0] else 'thorough', desc='inverted: const accessors inside F2 region'))
    # quick tier: a seed-rotated third of the groups plus the groups holding boundary tuples for N in (4, 9)
    groups = [h for h in hs if h.name.startswith('const_')]
    rnd.shuffle(groups)
    for h in groups[:max(4, len(groups) // 4)]:
        h.tier = 'quick'
    h = open(os.path.join(HD, 'c03_k1c.rs')).read().replace('/*GENERATED*/', '\n    '.join(gen))
    k.files = {'src/lib.rs': h, 'src/bitfield_unit.rs': src}
    k.harnesses = hs
    k.encoded = [enc('codegen/bitfield_unit.rs', 'impl<const N: usize> __BindgenBitfieldUnit<[u8; N]> (const forms)', src)]
    k.bounds = ['N in {1,2,4,8,9,16}; (OFFSET,WIDTH) tuple list = widths {1,2,3,7,8,9,15,16,17,31,32,33,63,64} x offsets {0,1,4,7,8,9,13,last}; storage and value symbolic; quick = VERIF_SEED-rotated quarter']
    return k


# ---------------------------------------------------------------- K3 templates

TYPES = {  # declared type -> (int type, bits, signed, is_bool)
    'u8': ('u8', 8, False), 'i8': ('u8', 8, True), 'u16': ('u16', 16, False), 'i16': ('u16', 16, True),
    'u32': ('u32', 32, False), 'i32': ('u32', 32, True), 'u64': ('u64', 64, False), 'i64': ('u64', 64, True),
    'bool': ('u8', 1, False),
}


def quote_bodies(text):
    out = []
    i = 0
    while True:
        m = re.search(r'quote!\s*\{', text[i:])
        if not m:
            break
        b = i + m.end() - 1
        e = match_brace(text, b)
        out.append(text[b + 1:e - 1])
        i = e
    return out


def subst(body, m):
    for key, val in m.items():
        body = re.sub(r'#' + key + r'\b', val, body)
    if re.search(r'#[a-z_]+\b', body):
        raise SliceError('unknown placeholder in accessor template: %s' % re.search(r'#[a-z_]+\b', body).group(0))
    return body


def flavour():
    mod = rd('codegen/mod.rs')
    impl = extract(mod, r"^impl<'a> FieldCodegen<'a> for Bitfield \{", what='impl FieldCodegen for Bitfield')
    m = re.search(r'if (parent\.is_union\(\)\s*&&[^{;]*)\{', impl)
    if not m:
        raise SliceError('union/struct template switch not found in impl FieldCodegen for Bitfield')
    cond = m.group(1).strip()
    unit = extract(mod, r"^impl FieldCodegen<'_> for BitfieldUnit \{", what='impl FieldCodegen for BitfieldUnit')
    m2 = re.search(r'let field_ty = \{', unit)
    if not m2:
        raise SliceError('BitfieldUnit::codegen: `let field_ty = {` statement not found')
    stmt = unit[m2.start():match_brace(unit, m2.end() - 1)] + ';'
    wrap = extract(mod, r'^fn wrap_union_field_if_needed\(', what='wrap_union_field_if_needed')
    iru = extract(rd('ir/comp.rs'), r'^    pub\(crate\) fn is_rust_union\(', what='CompInfo::is_rust_union')
    h = open(os.path.join(HD, 'c03_flavour.rs')).read().replace('/*IS_RUST_UNION*/', iru).replace('/*WRAP_FN*/', wrap).replace('/*FIELD_TY_STMT*/', stmt.replace('unit_field_ty.clone()', 'unit_field_ty')).replace('/*SWITCH_COND*/', cond)
    k = Kernel(name='union_unit_flavour')
    k.files = {'src/lib.rs': h}
    k.harnesses = [H('union_bitfield_accessors_match_the_storage_of_their_unit', desc='the accessor templates that go through __BindgenUnionField::as_ref/as_mut are selected exactly when the unit member is wrapped in __BindgenUnionField (real switch condition, real field_ty statement, real wrap_union_field_if_needed, real CompInfo::is_rust_union)',
                     sample='struct / union, forward declaration, <= 2 members Copy or not, every union-style option, any layout')]
    k.encoded = [enc('codegen/mod.rs', 'Bitfield::codegen: template switch condition', cond), enc('codegen/mod.rs', 'BitfieldUnit::codegen: field_ty statement', stmt), enc('codegen/mod.rs', 'fn wrap_union_field_if_needed', wrap), enc('ir/comp.rs', 'CompInfo::is_rust_union', iru)]
    k.stubs = ['syn::Type: Unit / ManuallyDrop / UnionField (parse_quote! arms per shape)', 'RegexSet::matches: symbolic answer', 'TypeId::can_derive_copy: symbolic answer per member', 'rewrite: unit_field_ty.clone() -> unit_field_ty (Copy stub)']
    k.assumptions = ['StructLayoutTracker::new stores what CompInfo::is_rust_union returns (struct_layout.rs, read)']
    k.bounds = ['<= 2 members; all option combinations']
    return k

def k3(tier, seed, known):
    mod = rd('codegen/mod.rs')
    impl = extract(mod, r"^impl<'a> FieldCodegen<'a> for Bitfield \{", what='impl FieldCodegen for Bitfield')
    m = re.search(r'if parent\.is_union\(\)\s*&&[^{;]*\{', impl)
    if not m:
        raise SliceError('union/struct template switch not found in impl FieldCodegen for Bitfield')
    ub = m.end() - 1
    ue = match_brace(impl, ub)
    union_part = impl[ub:ue]
    m2 = re.match(r'\s*else\s*\{', impl[ue:])
    if not m2:
        raise SliceError('else branch of template switch not found')
    sb = ue + m2.end() - 1
    struct_part = impl[sb:match_brace(impl, sb)]
    uq, sq = quote_bodies(union_part), quote_bodies(struct_part)
    if len(uq) != 2 or len(sq) != 2:
        raise SliceError('expected 2+2 quote! blocks in Bitfield accessor templates, found %d+%d' % (len(uq), len(sq)))
    ctor = extract(mod, r'^    fn extend_ctor_impl\(', what='Bitfield::extend_ctor_impl')
    cq = quote_bodies(ctor)
    if len(cq) != 1:
        raise SliceError('expected one quote! block in extend_ctor_impl')
    put = extract(mod, r'^    pub\(crate\) fn prepend_union_types\(', what='utils::prepend_union_types')
    pq = quote_bodies(put)
    if len(pq) < 2 or '__BindgenUnionField' not in pq[0] or 'as_ref' not in pq[1]:
        raise SliceError('prepend_union_types: unexpected shape')
    union_field = subst(pq[0], {'prefix': 'core'}) + subst(pq[1], {'prefix': 'core', 'transmute': 'unsafe { ::core::mem::transmute(self) }'})
    src = unit_src()
    rnd = random.Random(seed + 3)
    f1 = 'F1' in known
    # instance list
    inst = []
    for ty, (ity, bits, signed) in TYPES.items():
        if ty == 'bool':
            inst += [(ty, 1, 0, 1), (ty, 1, 3, 1), (ty, 4, 17, 1)]
            continue
        for (n, o, w) in [(bits // 8, 0, bits), (max(bits // 8, 1), 0, 1), (bits // 8 + 1, 3, bits - 1), (bits // 8 + 1, 5, bits),
                          (8, 7, min(bits, 13)), (4, 32 - min(bits, 9), min(bits, 9)), (9, 8, min(bits, 64)), (2, 9, min(bits, 7)), (16, 64, bits)]:
            if w < 1 or w > bits or o + w > n * 8 or (o % 8) + w > 64:
                continue
            inst.append((ty, n, o, w))
    inst = sorted(set(inst))
    parts = ['#![allow(warnings)]\nmod bitfield_unit;\nuse bitfield_unit::__BindgenBitfieldUnit;\n',
             union_field, open(os.path.join(HD, 'c03_k3_prelude.rs')).read()]
    hs = []
    quick_pick = set(rnd.sample(range(len(inst)), min(len(inst), 14)))
    for idx, (ty, n, o, w) in enumerate(inst):
        ity, bits, signed = TYPES[ty]
        for variant, qs in (('s', sq), ('u', uq)):
            name = '%s_%s_n%d_o%d_w%d' % (variant, ty, n, o, w)
            unit_ty = '__BindgenBitfieldUnit<[u8; %d]>' % n
            mp = {'access_spec': 'pub', 'getter_name': 'get_f', 'setter_name': 'set_f', 'raw_getter_name': 'raw_get_f', 'raw_setter_name': 'raw_set_f',
                  'bitfield_ty': ty, 'bitfield_int_ty': ity, 'unit_field_ident': '_bitfield_1', 'unit_field_ty': unit_ty,
                  'offset': '%dusize' % o, 'width': '%du8' % w, 'prefix': 'core', 'param_name': 'p'}
            methods = '\n'.join(subst(q, mp) for q in qs)
            cbody = subst(cq[0], mp)
            field_ty = unit_ty if variant == 's' else '__BindgenUnionField<%s>, pub bindgen_union_field: [u8; %d]' % (unit_ty, n)
            mk = ('S { _bitfield_1: __BindgenBitfieldUnit::new(st) }' if variant == 's' else 'S { _bitfield_1: __BindgenUnionField::new(), bindgen_union_field: st }')
            if ty == 'bool':
                expect_get = 'raw != 0'
                any_val = 'let val: bool = kani::any();'
                val_bits = '(val as u64)'
                f1_cond = 'false'
            elif signed:
                expect_get = '(((raw << %d) as i64) >> %d) as %s' % (64 - w, 64 - w, ty)
                any_val = 'let val: %s = kani::any();' % ty
                val_bits = '(val as i64 as u64)'
                f1_cond = '%s && (raw >> %d) & 1 == 1' % ('true' if w < bits else 'false', w - 1)
            else:
                expect_get = 'raw as %s' % ty
                any_val = 'let val: %s = kani::any();' % ty
                val_bits = '(val as u64)'
                f1_cond = 'false'
            def harness(hname, mode):
                # mode: 'main' (exclude F1 if known), 'f1' (only F1 region)
                if mode == 'f1':
                    region = 'kani::assume(%s);' % f1_cond
                elif f1:
                    region = 'kani::assume(!(%s));' % f1_cond
                else:
                    region = ''
                return '''
    #[kani::proof] #[kani::unwind(66)]
    fn %(hname)s() {
        let st: [u8; %(n)d] = kani::any();
        let mut s = %(mk)s;
        let raw = ref_get(&st, %(o)d, %(w)d);
        %(region)s
        let g = s.get_f();
        assert!(g == (%(expect_get)s), "getter does not return the value C reads (extension per declared type)");
        let gr = unsafe { S::raw_get_f(&s as *const S) };
        assert!(gr == g, "raw getter differs from getter");
        %(any_val)s
        s.set_f(val);
        let after: [u8; %(n)d] = unsafe { core::mem::transmute_copy(&s) };
        assert!(ref_get(&after, %(o)d, %(w)d) == %(val_bits)s & mask(%(w)d), "setter does not store val truncated to the field width");
        let k: usize = kani::any(); kani::assume(k < %(n)d * 8);
        if k < %(o)d || k >= %(o)d + %(w)d { assert!(bit(&after, k) == bit(&st, k), "setter changed a bit outside the field"); }
        let mut s2 = %(mk)s;
        unsafe { S::raw_set_f(&mut s2 as *mut S, val) };
        let after2: [u8; %(n)d] = unsafe { core::mem::transmute_copy(&s2) };
        assert!(bit(&after2, k) == bit(&after, k), "raw setter differs from setter");
        // constructor fragment: unit starts zeroed, parameter p
        let p = val;
        let mut __bindgen_bitfield_unit: %(unit_ty)s = __BindgenBitfieldUnit::new([0u8; %(n)d]);
        %(cbody)s
        let c: [u8; %(n)d] = unsafe { core::mem::transmute_copy(&__bindgen_bitfield_unit) };
        assert!(ref_get(&c, %(o)d, %(w)d) == %(val_bits)s & mask(%(w)d), "constructor does not store the parameter truncated to the field width");
        if k < %(o)d || k >= %(o)d + %(w)d { assert!(!bit(&c, k), "constructor set a bit outside the field"); }
    }''' % dict(hname=hname, n=n, o=o, w=w, mk=mk, region=region, expect_get=expect_get, any_val=any_val, val_bits=val_bits, unit_ty=unit_ty, cbody=cbody)
            body = '''
pub mod %(name)s {
    use super::*;
    #[repr(C)] pub struct S { pub _bitfield_1: %(field_ty)s }
    impl S { %(methods)s }
%(h1)s
%(h2)s
}''' % dict(name=name, field_ty=field_ty, methods=methods, h1=harness('t_' + name, 'main'),
            h2=harness('f1_' + name, 'f1') if (signed and w < bits) else '')
            parts.append('#[cfg(kani)]' + body)
            t = 'quick' if idx in quick_pick and variant == 's' or (idx in quick_pick and idx % 3 == 0) else 'thorough'
            hs.append(H('t_' + name, path=name + '::t_' + name, tier=t,
                        desc='accessor templates (%s parent) for `%s f:%d` at bit %d of [u8;%d]: getter/setter/raw/ctor vs C semantics%s' % (
                            'struct' if variant == 's' else 'non-Rust union', ty, w, o, n, ' (sign-bit-set values excluded: known finding F1)' if f1 and signed and w < bits else ''),
                        sample={'declared': ty, 'unit_bytes': n, 'offset': o, 'width': w, 'parent': variant}))
            if signed and w < bits:
                hs.append(H('f1_' + name, path=name + '::f1_' + name, expect='finding:F1', tier='quick' if (ty, variant) == ('i32', 's') and w == 31 else 'thorough',
                            desc='inverted: signed getter sign-extends when the field\'s top bit is set'))
    k = Kernel(name='k3_templates')
    k.files = {'src/lib.rs': '\n'.join(parts), 'src/bitfield_unit.rs': src}
    k.harnesses = hs
    k.encoded = [enc('codegen/mod.rs', 'impl FieldCodegen for Bitfield: 4 quote! accessor templates', impl),
                 enc('codegen/mod.rs', 'Bitfield::extend_ctor_impl quote! template', ctor),
                 enc('codegen/mod.rs', 'utils::prepend_union_types: __BindgenUnionField decl + impl templates', put),
                 enc('codegen/bitfield_unit.rs', 'whole file', src)]
    k.stubs = [
               'template placeholders substituted textually: #offset/#width literals, #bitfield_ty declared type, #bitfield_int_ty = unsigned integer of the same size (what helpers::integer_type returns), #prefix = core']
    k.assumptions = ['declared type is an integer or bool (enum-typed bit-fields excluded)', 'bool bit-fields have width 1']
    k.bounds = ['%d (type, unit size, offset, width) tuples x {struct, union} templates; storage and value symbolic' % len(inst)]
    return k


def build(tier, seed):
    known = load_known()
    ks = [kernel_or_error('k1_unit', lambda: k1(tier, known)),
          kernel_or_error('k1c_const', lambda: k1c(tier, seed, known)),
          kernel_or_error('k3_templates', lambda: k3(tier, seed, known)), kernel_or_error('union_unit_flavour', flavour)]
    try:
        from props import c03_k2
        ks.append(kernel_or_error('k2_alloc', lambda: c03_k2.kernel(tier, seed, known)))
    except ImportError:
        pass
    return ks
