"""C03 K2: ir/comp.rs::bitfields_to_allocation_units against the clang/Itanium bit-field rule."""
import os
from common import *
HD = os.path.join(os.path.dirname(os.path.dirname(os.path.abspath(__file__))), 'harness')
PD = os.path.join(os.path.dirname(os.path.dirname(os.path.abspath(__file__))), 'prelude')

TUPLES = [(1, 1), (2, 2), (4, 4), (8, 8), (8, 4), (4, 2), (2, 1)]


def kernel(tier, seed, known):
    fn = extract_from('ir/comp.rs', r'^fn bitfields_to_allocation_units<E, I>\(')
    align_to = extract_from('codegen/struct_layout.rs', r'^pub\(crate\) fn align_to\(')
    layout = strip_test_mods(strip_uses(strip_inner(rd('ir/layout.rs'))))
    K = 4 if tier == 'thorough' else 3
    prelude = open(os.path.join(PD, 'k2_alloc.rs')).read().replace('/*K*/', str(K))
    gen, hs = [], []
    for (ts, ta) in TUPLES:
        for known_off in (True, False):
            name = 'alloc_%s_s%d_a%d' % ('clang' if known_off else 'computed', ts, ta)
            gen.append('#[kani::proof] #[kani::unwind(%d)] fn %s() { run_case::<%d, %d>(%s) }' % (K + 2, name, ts, ta, 'true' if known_off else 'false'))
            hs.append(H(name, tier='quick' if (ts, ta) in [(1, 1), (4, 4), (8, 8), (8, 4)] or tier == 'thorough' else 'thorough',
                        desc='run of <=%d bit-fields of a type with size %d align %d, widths 0..=%d symbolic, named/unnamed; offsets %s' % (
                            K, ts, ta, ts * 8, 'as clang reports them (Itanium rule)' if known_off else 'unknown (class template): computed by bindgen'),
                        sample={'type_size': ts, 'type_align': ta, 'fields': '<=%d' % K, 'offsets': 'clang' if known_off else 'computed'}))
        if ts == ta:
            name = 'alloc_packed_s%d' % ts
            gen.append('#[kani::proof] #[kani::unwind(%d)] fn %s() { packed_case::<%d>() }' % (K + 2, name, ts))
            hs.append(H(name, tier='quick' if ts in (1, 8) else 'thorough', desc='packed run, type size %d: clang offsets taken verbatim' % ts,
                        sample={'type_size': ts, 'packed': True}))
    f7 = 'F7' in known
    for ts in (1, 4, 8):
        gen.append('#[kani::proof] #[kani::unwind(%d)] fn alloc_union_s%d() { union_case::<%d>(%s) }' % (K + 2, ts, ts, 'Some(false)' if f7 else 'None'))
        gen.append('#[kani::proof] #[kani::unwind(%d)] fn f7_alloc_union_s%d() { union_case::<%d>(Some(true)) }' % (K + 2, ts, ts))
        hs.append(H('alloc_union_s%d' % ts, tier='quick' if ts == 4 else 'thorough', desc='union: all fields at bit 0, each fits the unit%s' % (' (widest-is-not-last excluded: known finding F7)' if f7 else ''),
                    sample={'type_size': ts, 'union': True}))
        hs.append(H('f7_alloc_union_s%d' % ts, expect='finding:F7', tier='quick' if ts == 4 else 'thorough', desc='inverted: union whose widest bit-field is not the last one'))
    text = prelude + '\n' + layout + '\n' + align_to + '\n' + fn + '\n' + open(os.path.join(HD, 'c03_k2.rs')).read().replace('/*GENERATED*/', '\n    '.join(gen))
    k = Kernel(name='k2_alloc')
    k.files = {'src/lib.rs': text}
    k.harnesses = hs
    k.encoded = [enc('ir/comp.rs', 'fn bitfields_to_allocation_units (incl. flush_allocation_unit)', fn),
                 enc('codegen/struct_layout.rs', 'fn align_to', align_to), enc('ir/layout.rs', 'whole file', rd('ir/layout.rs'))]
    k.stubs = ['BindgenContext{collected_typerefs,resolve_type}, Type::layout, RawField{bitfield_width,ty,offset,name}, Bitfield::new, BitfieldUnit, Field::Bitfields: field-for-field stand-ins',
               'Vec/vec!: fixed-capacity array (capacity asserted); input iterator with a concrete counter']
    k.assumptions = ['offsets supplied by libclang follow clang\'s LayoutBitField rule for the declared type (reference written in the harness)',
                     'all fields of one run have the same declared type (size/align are harness parameters)',
                     'a zero-width field is unnamed (C requires it)']
    k.bounds = ['runs of <= %d fields; (type size, align) in %s; start offset <= 512 bits' % (K, TUPLES)]
    return k
