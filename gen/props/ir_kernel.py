"""Builds the stub-IR crate: prelude + real Trace impls + real ir/analysis/*.rs + real ir/traversal.rs pieces."""
import os, re
from common import *
G = os.path.dirname(os.path.dirname(os.path.abspath(__file__)))

ANALYSES = ['has_float', 'has_destructor', 'has_vtable', 'sizedness', 'has_type_param_in_array', 'derive']


def const_of(rel, name):
    m = re.search(r'^(?:pub(?:\(crate\))? )?const %s: usize = (\d+);' % name, rd(rel), flags=re.M)
    if not m:
        raise SliceError('const %s not found in %s' % (name, rel))
    return m.group(1)


def base_text(ni, cap, ic=0):
    """returns (text, encoded list)"""
    e = []
    def ex(rel, rx, what):
        t = extract_from(rel, rx)
        e.append(enc(rel, what, t))
        return t
    edgekind = ex('ir/traversal.rs', r'^pub\(crate\) enum EdgeKind \{', 'enum EdgeKind')
    tracer_trait = ex('ir/traversal.rs', r'^pub\(crate\) trait Tracer \{', 'trait Tracer')
    tracer_impl = ex('ir/traversal.rs', r'^impl<F> Tracer for F\b', 'impl Tracer for F')
    trace_trait = ex('ir/traversal.rs', r'^pub\(crate\) trait Trace \{', 'trait Trace')
    trace_id = ex('ir/item.rs', r'^impl<Id> Trace for Id\b', 'impl Trace for Id')
    trace_item = ex('ir/item.rs', r'^impl Trace for Item \{', 'impl Trace for Item')
    trace_type = ex('ir/ty.rs', r'^impl Trace for Type \{', 'impl Trace for Type')
    sbtu = 'impl Type {\n' + ex('ir/ty.rs', r'^    pub\(crate\) fn should_be_traced_unconditionally\(&self\) -> bool \{', 'Type::should_be_traced_unconditionally') + '\n}\n'
    trace_comp = ex('ir/comp.rs', r'^impl Trace for CompInfo \{', 'impl Trace for CompInfo')
    trace_cf = ex('ir/comp.rs', r'^impl Trace for CompFields \{', 'impl Trace for CompFields')
    trace_field = ex('ir/comp.rs', r'^impl Trace for Field \{', 'impl Trace for Field')
    trace_ti = ex('ir/template.rs', r'^impl Trace for TemplateInstantiation \{', 'impl Trace for TemplateInstantiation')
    trace_fs = ex('ir/function.rs', r'^impl Trace for FunctionSig \{', 'impl Trace for FunctionSig')
    funptr = ex('ir/function.rs', r'^    pub\(crate\) fn function_pointers_can_derive\(&self\) -> bool \{', 'FunctionSig::function_pointers_can_derive')
    abi_enum = ex('ir/function.rs', r'^pub enum Abi \{', 'enum Abi')
    ctxsrc = rd('ir/context.rs')
    bt = extract(ctxsrc, r'^    pub\(crate\) fn blocklisted_type_implements_trait\(', what='BindgenContext::blocklisted_type_implements_trait')
    m = re.search(r'\.or_insert_with\(\|\| \{', bt)
    if not m:
        raise SliceError('blocklisted_type_implements_trait: decision closure not found')
    body = bt[m.end():match_brace(bt, m.end() - 1) - 1]
    e.append(enc('ir/context.rs', 'BindgenContext::blocklisted_type_implements_trait (decision closure)', bt))
    dt_enum = ex('ir/analysis/derive.rs', r'^pub enum DeriveTrait \{', 'enum DeriveTrait')
    amod = strip_uses(strip_inner(rd('ir/analysis/mod.rs')))
    amod = strip_test_mods(amod)
    amod = re.sub(r'pub\(crate\) use self::[^;]*;', '', amod, flags=re.S)
    amod = re.sub(r'pub use self::[^;]*;', '', amod, flags=re.S)
    e.append(enc('ir/analysis/mod.rs', 'whole file (minus tests)', rd('ir/analysis/mod.rs')))
    dsrc = strip_uses(strip_inner(rd('ir/derive.rs')))
    e.append(enc('ir/derive.rs', 'whole file', rd('ir/derive.rs')))
    pre = open(os.path.join(G, 'prelude', 'ir_env.rs')).read()
    pre = (pre.replace('/*NI*/', str(ni)).replace('/*CAP*/', str(cap)).replace('/*IC*/', str(ic)).replace('/*ARRAY_LIMIT*/', const_of('ir/ty.rs', 'RUST_DERIVE_IN_ARRAY_LIMIT'))
           .replace('/*FUNPTR_LIMIT*/', const_of('ir/function.rs', 'RUST_DERIVE_FUNPTR_LIMIT')).replace('/*ABI_ENUM*/', abi_enum).replace('/*FUNPTR_CAN_DERIVE*/', funptr)
           .replace('/*BLOCKLISTED_IMPL*/', body))
    text = '\n'.join([pre, dt_enum, edgekind, tracer_trait, tracer_impl, trace_trait, trace_id, trace_item, trace_type, sbtu, trace_comp, trace_cf, trace_field, trace_ti, trace_fs,
                      'pub mod ir_derive { use super::*; ' + dsrc + ' }\npub use ir_derive::*;',
                      'pub mod analysis_mod { use super::*; ' + amod + ' }\npub use analysis_mod::*;'])
    return text, e


def analysis_text(name):
    src = strip_test_mods(strip_uses(strip_inner(rd('ir/analysis/%s.rs' % name))))
    if name == 'derive':
        # not part of the analysis step; needs IntoIterator on the map
        try:
            f = extract(src, r'^pub\(crate\) fn as_cannot_derive_set\(')
            src = src.replace(f, '')
        except SliceError:
            pass
    return 'pub mod %s { use super::*; %s }\npub use %s::*;\n' % (name, src, name), enc('ir/analysis/%s.rs' % name, 'whole file', rd('ir/analysis/%s.rs' % name))
