"""C14 - bindings use only features of the selected Rust target, monotonically."""
import os, re
from common import *

HD = os.path.join(os.path.dirname(os.path.dirname(os.path.abspath(__file__))), 'harness')

LEVEL_TEXT = 'bounded model checking (Kani/CBMC) of the real features.rs and of the edition gate statement of Builder::generate; all u64 minor/patch values, all editions, nightly'
OUTSIDE = ['that each code-generation site consults its RustFeatures flag: decided for the ABI gate, the string-constant site and the C scalar type paths (raw_type / c_void) only; for offset_of!, ptr_metadata and layout_for_ptr only the deciding expression of each site is encoded, not the token template of either branch are token templates not encoded',
           'RustTarget::default() on the build-script path (runs rustc as a child process)']
EXPLANATION = ('features.rs is compiled unchanged (E1 splice, harness is a child module); the solver quantifies over every '
               'minor/patch u64, edition and nightly. Oracle = stabilisation releases from the Rust release notes written in the harness.')


def features_src():
    src = strip_inner(rd('features.rs'))
    return strip_test_mods(src)


def gate_stmt():
    lib = rd('lib.rs')
    m = re.search(r'self\.options\.rust_features = match self\.options\.rust_edition \{', lib)
    if not m:
        raise SliceError('edition gate statement not found in lib.rs Builder::generate')
    end = match_brace(lib, m.end() - 1)
    if lib[end] != ';':
        raise SliceError('edition gate statement: unexpected shape')
    return lib[m.start():end + 1]


def build(tier, seed):
    def k_features():
        src = features_src()
        gate = gate_stmt()
        fun = rd('ir/function.rs')
        abi_fn = extract(fun, r'^    pub\(crate\) fn abi\(', what='FunctionSig::abi')
        j = abi_fn.rfind('match abi {')
        if j < 0:
            raise SliceError('FunctionSig::abi: feature gate match not found')
        gate_match = abi_fn[j:match_brace(abi_fn, abi_fn.index('{', j))].replace('crate::codegen::error::', 'crate_codegen_error::')
        abi_enum = extract(fun, r'^pub enum Abi \{', what='enum Abi')
        mod = rd('codegen/mod.rs')
        ms = re.search(r'VarType::String\(ref bytes\) => \{', mod)
        if not ms:
            raise SliceError('Var::codegen: VarType::String arm not found')
        arm = mod[ms.end():match_brace(mod, ms.end() - 1) - 1]
        if not re.search(r'\bNone\s*$', arm):
            raise SliceError('Var::codegen: VarType::String arm does not end in None')
        arm = re.sub(r'\bNone\s*$', '', arm)
        tp = extract(rd('ir/context.rs'), r'^    pub\(crate\) fn trait_prefix\(&self\) -> Ident \{', what='BindgenContext::trait_prefix')
        cstr = open(os.path.join(HD, 'c14_cstr.rs')).read().replace('/*STRING_ARM*/', arm).replace('/*TRAIT_PREFIX_FN*/', tp)
        hel = rd('codegen/helpers.rs')
        raw_fn = extract(hel, r'^    pub\(crate\) fn raw_type\(', what='ast_ty::raw_type')
        cvoid_fn = extract(hel, r'^    pub\(crate\) fn c_void\(', what='ast_ty::c_void')
        rawsite = open(os.path.join(HD, 'c14_raw_type.rs')).read().replace('/*RAW_TYPE_FN*/', raw_fn).replace('/*C_VOID_FN*/', cvoid_fn)
        sites = [mm.start() for mm in re.finditer(r'let safety = ', mod)]
        if len(sites) != 2:
            raise SliceError('codegen/mod.rs: expected two `let safety = ` statements (Var::codegen, Function::codegen), found %d' % len(sites))
        stmts = []
        for st in sites:
            i = st
            while mod[i] != ';':
                i = match_brace(mod, i) if mod[i] in '({[' else i + 1
            stmts.append(mod[st:i + 1])
        if not (mod.rfind('impl CodeGenerator for Var', 0, sites[0]) > mod.rfind('impl CodeGenerator for Function', 0, sites[0]) and
                mod.rfind('impl CodeGenerator for Function', 0, sites[1]) > mod.rfind('impl CodeGenerator for Var', 0, sites[1])):
            raise SliceError('codegen/mod.rs: the `let safety` statements are not in Var::codegen / Function::codegen order')
        extsite = open(os.path.join(HD, 'c14_extern_site.rs')).read().replace('/*VAR_SAFETY*/', stmts[0]).replace('/*FN_SAFETY*/', stmts[1])
        cts = [mm.group(0) for mm in re.finditer(r'let compile_time = [^;]*;', mod)]
        if len(cts) != 2:
            raise SliceError('codegen/mod.rs: expected two `let compile_time = ..;` statements, found %d' % len(cts))
        ml = re.search(r'let layout = if (.*?)\{\s*quote! \{\s*pub fn layout\(', mod, re.S)
        mm_ = re.search(r'let \(from_ptr_dst, from_ptr_sized\) = if (.*?)\{\s*let flex_ref_inner', mod, re.S)
        if not ml or not mm_:
            raise SliceError('codegen/mod.rs: layout_for_ptr / ptr_metadata conditions of the flexarray DST impl not found')
        flagsites = open(os.path.join(HD, 'c14_flag_sites.rs')).read().replace('/*CT_A*/', cts[0]).replace('/*CT_B*/', cts[1]) \
            .replace('/*COND_LAYOUT*/', ml.group(1)).replace('/*COND_META*/', mm_.group(1))
        text = src + '\n' + cstr + '\n' + rawsite + '\n' + extsite + '\n' + flagsites + '\n' + open(os.path.join(HD, 'c14_features.rs')).read() + '\n' + \
            open(os.path.join(HD, 'c14_gate.rs')).read().replace('/*GATE*/', gate) + '\n' + \
            open(os.path.join(HD, 'c14_abi_gate.rs')).read().replace('/*ABI_ENUM*/', abi_enum).replace('/*GATE_MATCH*/', gate_match)
        k = Kernel(name='features')
        k.files = {'src/lib.rs': '#![allow(warnings)]\npub mod features;\n', 'src/features.rs': text}
        k.cargo_features = ['__cli']
        P = 'features::proofs::'
        G = 'features::gate_proofs::'
        k.harnesses = [
            H('features_never_too_early_and_monotone', path=P + 'features_never_too_early_and_monotone',
              desc='all m1<=m2, p1, p2 in u64, 3 editions: flag => minor >= stabilisation release; monotone; subset of nightly',
              sample={'minor': 'any u64 pair m1<=m2', 'patch': 'any u64', 'edition': 'any of 3'}),
            H('features_ignore_patch', path=P + 'features_ignore_patch', desc='patch never changes the feature set',
              sample={'minor': 'any u64', 'patch': 'any two u64'}),
            H('features_enabled_from_release', path=P + 'features_enabled_from_release', desc='stable features not withheld after their release (edition 2021)',
              sample={'minor': 'any u64', 'edition': 2021}),
            H('edition_availability', path=P + 'edition_availability', desc='is_available <=> minor >= {31,56,85}; nightly all; latest_edition = max available',
              sample={'minor': 'any u64', 'edition': 'any of 3'}),
            H('stable_constructor_and_constants', path=P + 'stable_constructor_and_constants', desc='RustTarget::stable rejects exactly minor < table minimum; LATEST/EARLIEST are table max/min',
              sample={'minor': 'any u64', 'patch': 'any u64'}),
            H('cli_default_is_latest', path=P + 'cli_default_is_latest', desc='feature __cli: Default = LATEST_STABLE_RUST and its latest edition',
              sample='RustTarget::default(), RustEdition::default(), RustFeatures::default()'),
            H('is_compatible_is_a_preorder_consistent_with_ord', path=P + 'is_compatible_is_a_preorder_consistent_with_ord', desc='reflexive, transitive, = minor comparison, consistent with Ord',
              sample='any three targets (stable u64.u64 or nightly)'),
            H('edition_gate_rejects_exactly_unavailable', path=G + 'edition_gate_rejects_exactly_unavailable',
              desc='Builder::generate gate statement: Err(UnsupportedEdition) <=> edition not available; else features = new(target, edition|latest)',
              sample={'target': 'any accepted (minor>=51 or nightly)', 'edition': 'None or any of 3'}),
            H('string_constants_use_only_what_the_target_has', path='features::cstr_site::proofs::string_constants_use_only_what_the_target_has',
              desc='the string-constant arm of Var::codegen x real RustFeatures x real trait_prefix: a c".." literal only from 1.77 / edition 2021, const from_bytes_with_nul_unchecked only from 1.59, core::ffi::CStr only from 1.64; without --generate-cstr or with an interior NUL a byte array',
              sample={'target': 'any', 'edition': 'any available', 'use_core': 'bool', 'generate_cstr': 'bool'}),
            H('abi_gate_respects_target', path='features::abi_gate::proofs::abi_gate_respects_target',
              desc='FunctionSig::abi feature gate x real RustFeatures: an ABI is accepted exactly when the target has it (thiscall 1.73, C-unwind 1.71, efiapi 1.68, vectorcall nightly); variadic win64 rejected',
              sample={'target': 'any', 'abi': 'any of 10', 'variadic': 'bool'}),
        ]
        k.harnesses.append(H('c_scalar_paths_exist_on_the_target', path='features::raw_type_site::proofs::c_scalar_paths_exist_on_the_target',
              desc='ast_ty::raw_type / ast_ty::c_void (real text) x real RustFeatures: core::ffi::c_int & co. only with --use-core on 1.64+ (and then always), std::os::raw otherwise, --ctypes-prefix first; c_void from core exactly with --use-core',
              sample={'target': 'any', 'edition': 'any', 'use_core': 'bool', 'ctypes_prefix': 'set or not'}))
        k.harnesses.append(H('unsafe_extern_exactly_on_targets_that_have_it', path='features::extern_site::proofs::unsafe_extern_exactly_on_targets_that_have_it',
              desc='the two `let safety = ..;` statements (Var::codegen, Function::codegen; real text) x real RustFeatures: `unsafe extern` exactly from 1.82 / nightly, for const and mutable statics and functions alike',
              sample={'target': 'any', 'edition': 'any', 'static is const': 'bool'}))
        k.harnesses.append(H('offset_of_and_pointer_metadata_sites_follow_the_target', path='features::flag_sites::proofs::offset_of_and_pointer_metadata_sites_follow_the_target',
              desc='the two `let compile_time` statements (offset_of!: exactly from 1.77) and the layout_for_ptr / ptr_metadata conditions of the flexarray DST impl (exactly nightly), real text x real RustFeatures',
              sample={'target': 'any', 'edition': 'any'}))
        k.encoded = [enc('codegen/mod.rs', 'layout tests: `let compile_time` statements', cts[0] + cts[1]), enc('codegen/mod.rs', 'flexarray DST impl: layout_for_ptr / ptr_metadata conditions', ml.group(1) + mm_.group(1)),
                     enc('codegen/mod.rs', 'Var::codegen: `let safety` statement', stmts[0]), enc('codegen/mod.rs', 'Function::codegen: `let safety` statement', stmts[1]), enc('codegen/helpers.rs', 'ast_ty::raw_type', raw_fn), enc('codegen/helpers.rs', 'ast_ty::c_void', cvoid_fn), enc('codegen/mod.rs', 'Var::codegen: VarType::String arm', arm), enc('ir/context.rs', 'BindgenContext::trait_prefix', tp), enc('ir/function.rs', 'FunctionSig::abi: feature gate match', gate_match), enc('features.rs', 'whole file (minus #[cfg(test)] mod)', rd('features.rs')), enc('lib.rs', 'Builder::generate edition gate statement', gate)]
        k.stubs = ['Builder/Options/BindgenError: three-field stub around the sliced gate statement']
        k.assumptions = ['gate harness: target was built by RustTarget::stable/nightly/from_str (minor >= 51), as every public constructor guarantees (checked by stable_constructor_and_constants)']
        k.bounds = ['minor, patch: all u64; editions: all; unwind 6 (feature/edition slices), 12 (release table)']
        return k
    return [kernel_or_error('features', k_features)]
