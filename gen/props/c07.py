"""C07 - inferred type facts are the least fixed point; declaration order is irrelevant (local obligations)."""
import os, re
from common import *
from props import ir_kernel
G = os.path.dirname(os.path.dirname(os.path.abspath(__file__)))
LEVEL_TEXT = 'bounded model checking of the inductive step: the real constrain() of each analysis, real generate_dependencies/Trace impls, one step from an arbitrary pre-state on a stub IR; plus the real work-list loop on a generic framework'
OUTSIDE = ['whether parsing creates the edges the C/C++ entity really has (libclang)', 'lookup_* call sites in code generation', 'the composition theorem (Kildall): local obligations + generic algorithm => least fixed point, on paper',
           'the real hash containers', 'UsedTemplateParameters::constrain (one-step obligations over set-valued facts: out of memory, measured) and the closure computation at the head of UsedTemplateParameters::new; only the dependency-recording loop body of new is decided', 'nodes with more than 3 neighbour slots (2 fields / 1 base, 1 template argument + definition, return + 1 parameter)']
EXPLANATION = ('For each analysis the solver picks the kind of node X (all 22 TypeKind variants), its flags, its children\'s kinds, and an arbitrary analysis state; constrain(X) runs on two states differing in one child. '
               'Asserted: locality, inflation, truthful Changed/Same, monotonicity, and non-interference (influence implies a dependency edge).')

SPEC = {
    'has_float': dict(atype="HasFloat<'_>", new='HasFloat { ctx: &ctx, has_float: HashSet::default(), dependencies: HashMap::default() }', consider='HasFloat::consider_edge', node='ItemId', height=1,
                      acc='fn get(a: &HasFloat, i: usize) -> u8 { a.has_float.present[i] as u8 }\n    fn set(a: &mut HasFloat, i: usize, v: u8) { a.has_float.present[i] = v != 0; }', f4=True, check='// (D) completeness of the documented rule for composites (only (B)/(C) would accept a rule that simply never looks): a non-opaque composite with a base or member that contains a float contains a float\n        if opaque_mode != 2 { if let ItemKind::Type(ty) = &ctx.items[X].kind { if let TypeKind::Comp(info) = &ty.kind { if !ctx.items[X].fl.opaque {\n            let f = |k: usize| (k == 1 && v1 == 1) || (k == 2 && v2 == 1);\n            let mut any = false;\n            for b in info.base_members().iter() { if f((b.ty.0).0) { any = true; } }\n            for fl in info.fields().iter() { match fl { Field::DataMember(d) => { if f((d.ty().0).0) { any = true; } } Field::Bitfields(u) => { for bf in u.bitfields().iter() { if f((bf.ty().0).0) { any = true; } } } } }\n            if any { assert!(ax == 1, "a composite with a base or member that contains a float is not recorded as containing one (it can then derive Eq / Ord)"); }\n            kani::cover!(any, "composite with a float-carrying base or member");\n        } } } }'),
    'has_destructor': dict(atype="HasDestructorAnalysis<'_>", new='HasDestructorAnalysis { ctx: &ctx, have_destructor: HashSet::default(), dependencies: HashMap::default() }', consider='HasDestructorAnalysis::consider_edge', node='ItemId', height=1,
                           acc='fn get(a: &HasDestructorAnalysis, i: usize) -> u8 { a.have_destructor.present[i] as u8 }\n    fn set(a: &mut HasDestructorAnalysis, i: usize, v: u8) { a.have_destructor.present[i] = v != 0; }', f4=True),
    'has_type_param_in_array': dict(atype="HasTypeParameterInArray<'_>", new='HasTypeParameterInArray { ctx: &ctx, has_type_parameter_in_array: HashSet::default(), dependencies: HashMap::default() }', consider='HasTypeParameterInArray::consider_edge', node='ItemId', height=1,
                                    acc='fn get(a: &HasTypeParameterInArray, i: usize) -> u8 { a.has_type_parameter_in_array.present[i] as u8 }\n    fn set(a: &mut HasTypeParameterInArray, i: usize, v: u8) { a.has_type_parameter_in_array.present[i] = v != 0; }', f4=True),
    'has_vtable': dict(atype="HasVtableAnalysis<'_>", new='HasVtableAnalysis { ctx: &ctx, have_vtable: HashMap::default(), dependencies: HashMap::default() }', consider='HasVtableAnalysis::consider_edge', node='ItemId', height=2,
                       acc='fn get(a: &HasVtableAnalysis, i: usize) -> u8 { match a.have_vtable.vals[i] { None | Some(HasVtableResult::No) => 0, Some(HasVtableResult::SelfHasVtable) => 1, Some(HasVtableResult::BaseHasVtable) => 2 } }\n'
                           '    fn set(a: &mut HasVtableAnalysis, i: usize, v: u8) { a.have_vtable.vals[i] = match v { 0 => None, 1 => Some(HasVtableResult::SelfHasVtable), _ => Some(HasVtableResult::BaseHasVtable) }; }', f4=True),
    'sizedness': dict(atype="SizednessAnalysis<'_>", new='SizednessAnalysis { ctx: &ctx, dependencies: HashMap::default(), sized: HashMap::default() }', consider='SizednessAnalysis::consider_edge', node='hctx::r', height=2,
                      acc='fn get(a: &SizednessAnalysis, i: usize) -> u8 { match a.sized.vals[i] { None | Some(SizednessResult::ZeroSized) => 0, Some(SizednessResult::DependsOnTypeParam) => 1, Some(SizednessResult::NonZeroSized) => 2 } }\n'
                          '    fn set(a: &mut SizednessAnalysis, i: usize, v: u8) { a.sized.vals[i] = match v { 0 => None, 1 => Some(SizednessResult::DependsOnTypeParam), _ => Some(SizednessResult::NonZeroSized) }; }', f4=False),
}
for t, tn in (('Copy', 'copy'), ('Debug', 'debug'), ('Default', 'default'), ('Hash', 'hash'), ('PartialEqOrPartialOrd', 'partialeq')):
    SPEC['derive_' + tn] = dict(file='derive', atype="CannotDerive<'_>", new='CannotDerive { ctx: &ctx, derive_trait: DeriveTrait::%s, can_derive: HashMap::default(), dependencies: HashMap::default() }' % t, consider='consider_edge_default', node='ItemId', height=2,
                                acc='fn get(a: &CannotDerive, i: usize) -> u8 { match a.can_derive.vals[i] { None | Some(CanDerive::Yes) => 0, Some(CanDerive::Manually) => 1, Some(CanDerive::No) => 2 } }\n'
                                    '    fn set(a: &mut CannotDerive, i: usize, v: u8) { a.can_derive.vals[i] = match v { 0 => None, 1 => Some(CanDerive::Manually), _ => Some(CanDerive::No) }; }', f4=False, trait=t)


def analysis_kernel(name, tier, known, extra_harness=''):
    sp = SPEC[name]
    fname = sp.get('file', name)
    base, encd = ir_kernel.base_text(4, 12)
    src = strip_test_mods(strip_uses(strip_inner(rd('ir/analysis/%s.rs' % fname))))
    if fname == 'derive':
        src = src.replace(extract(src, r'^pub enum DeriveTrait \{', what='enum DeriveTrait'), '')   # defined once in the base text
        try:
            src = src.replace(extract(src, r'^pub\(crate\) fn as_cannot_derive_set\('), '')
        except SliceError:
            pass
    step = open(os.path.join(G, 'harness', 'ir_step.rs')).read()
    step = (step.replace('/*HEIGHT*/', str(sp['height'])).replace('/*ACCESSORS*/', sp['acc']).replace('/*ATYPE*/', sp['atype'].replace("<'_>", ''))
            .replace('/*NEW*/', sp['new']).replace('/*CONSIDER*/', sp['consider']).replace('/*NODE*/', sp['node']).replace('/*UNW*/', '8').replace('/*EXTRA_CHECK*/', sp.get('check', '')).replace('/*EXTRA_ASSUME*/', sp.get('assume', '' if fname == 'derive' else '// these analyses are only ever applied to allowlisted items (initial work list = allowlisted items; re-queues come from the dependency map, which holds allowlisted items only)\n        kani::assume(ctx.allow.present[X]);')))
    mods = []
    # analyses that other analyses' files mention by type (derive.rs: HasVtable)
    for dep in (['has_vtable'] if fname == 'derive' else []):
        mods.append('pub mod %s { use super::*; %s }\npub use %s::*;' % (dep, strip_test_mods(strip_uses(strip_inner(rd('ir/analysis/%s.rs' % dep)))), dep))
    text = '\n'.join([base, open(os.path.join(G, 'harness', 'ir_ctx.rs')).read()] + mods +
                     ['pub mod %s { use super::*; %s\n%s\n%s }' % (fname, src, step, extra_harness)])
    KINDS = ['Int', 'Float', 'Pointer', 'Array', 'Alias', 'ResolvedTypeRef', 'Vector', 'Reference', 'BlockPointer', 'TemplateAlias', 'Function', 'Enum', 'Comp',
             'TemplateInstantiation', 'Void', 'NullPtr', 'TypeParam', 'Complex', 'ObjCId', 'ObjCSel', 'ObjCInterface', 'Opaque']
    HAS_CHILDREN = {'Pointer', 'Array', 'Alias', 'ResolvedTypeRef', 'Vector', 'Reference', 'BlockPointer', 'TemplateAlias', 'Function', 'Enum', 'Comp', 'TemplateInstantiation'}
    QUICK = {'Comp', 'Alias', 'Array', 'TemplateInstantiation', 'Vector', 'Pointer'}
    f4 = sp['f4'] and 'F4' in known
    gen, hs = [], []
    P = fname + '::step_proofs::'
    for tag, kn in enumerate(KINDS):
        # which neighbour kinds a rule can look INTO: function pointers (Pointer), type parameters (Array), otherwise a plain leaf
        childs = {'Pointer': [0, 3], 'Array': [0, 2], 'Vector': [0, 2]}.get(kn, [0])
        for ch in childs:
            modes = []
            if kn == 'Opaque':
                modes.append((0, 'any', 'pass'))          # TypeKind::Opaque is opaque by definition and has no children
            elif sp['f4'] and f4:
                modes.append((1, 'nop', 'pass'))
                if name == 'has_float' and kn in ('Alias', 'Comp'):
                    modes.append((2, 'opq', 'finding:F4'))
            else:
                modes.append((0, 'any', 'pass'))
            for mode, mn, expect in modes:
                hn = 'step_%s_c%d_%s' % (kn, ch, mn)
                gen.append('#[kani::proof] #[kani::unwind(8)] fn %s() { step(%d, %d, %d) }' % (hn, mode, tag, ch))
                quick = (kn in QUICK and ch == childs[-1]) or (expect != 'pass' and kn in ('Alias', 'Comp'))
                if fname == 'derive' and (sp.get('trait') not in ('Default',) or kn not in ('Comp', 'Array')):
                    quick = False          # the other three traits share the code path; thorough tier
                if fname != 'derive' and kn in ('Vector', 'Pointer'):
                    quick = False
                hs.append(H(hn, path=P + hn, expect=expect, timeout=900, weight=(3 if fname == 'derive' else (2 if kn == 'Comp' else 1)), tier='quick' if quick else 'thorough',
                            may_unsat=("the neighbour's fact influences the result", 'Changed returned', 'composite with a float-carrying base or member'),   # kind dependent; reachability is witnessed by the third cover
                            desc='%s, X = TypeKind::%s (child 1 = %s)%s: one-step obligations (B) local/inflationary/truthful/monotone, (C) dependency completeness' % (
                                name, kn, ['Int', 'Float', 'TypeParam', 'Function'][ch], {0: '', 1: ', X not opaque (opaque X: finding F4 / unrealized region)', 2: ', X opaque (inverted: must keep failing while F4 stands)'}[mode]),
                            sample={'analysis': name, 'X_kind': kn, 'child1': ['Int', 'Float', 'TypeParam', 'Function'][ch], 'pre_state': 'arbitrary', 'opaque': mn}))
    text = text.replace('/*GENERATED*/', '\n    '.join(gen))
    k = Kernel(name=name)
    k.files = {'src/lib.rs': text}
    k.harnesses = hs
    k.encoded = encd + [enc('ir/analysis/%s.rs' % fname, 'whole file', rd('ir/analysis/%s.rs' % fname))]
    k.stubs = ['stub IR (prelude/ir_env.rs): ItemId/TypeId, Item{kind,flags}, Type{kind,layout}, TypeKind with the real variant names and payload arity, CompInfo/Field/FunctionSig/TemplateInstantiation as fixed-capacity lists',
               'HashMap/HashSet/ItemSet/Vec: array-backed, keyed by item index', 'flags stand for predicates computed from names/annotations/options: is_opaque, no_*_by_name, has_vtable, all_template_params, lookup_has_destructor',
               'trace!/debug!/warn!/extra_assert!: no-ops']
    k.assumptions = ['IR invariants at analysis time: no UnresolvedTypeRef; TypeKind::Opaque items are opaque; unions have no bases; forward declarations have no members',
                     'children are leaves (Int, Float, TypeParam, Function): every rule looks at most one level into a neighbour',
                     'X is allowlisted for the analyses whose work list holds allowlisted items only (all but CannotDerive)',
                     'generate_dependencies records X under child c exactly when both are allowlisted and Trace emits a considered edge X->c (checked separately by kernel `dependencies`)',
                     'a stub predicate answers what the real one would (e.g. Item::is_opaque is one flag; the real one also consults type and options)']
    k.bounds = ['one node X over <= 3 neighbour slots; 4 items; lattice height %d; all 22 TypeKind variants; unwind 8' % sp['height']]
    return k


def dependencies_kernel(tier):
    base, encd = ir_kernel.base_text(4, 4)
    text = '\n'.join([base, open(os.path.join(G, 'harness', 'ir_ctx.rs')).read(), 'pub mod deps { use super::*; ' + open(os.path.join(G, 'harness', 'ir_deps.rs')).read() + ' }'])
    k = Kernel(name='dependencies')
    k.files = {'src/lib.rs': text}
    k.harnesses = [H('dependencies_' + n, path='deps::deps_proofs::dependencies_' + n, timeout=1500, weight=4, tier='quick' if n in ('Alias',) else 'thorough',
                     desc='generate_dependencies on a 4-item context whose node X is a %s: X is recorded under child c exactly when both are allowlisted and Trace emits a considered edge; predicate = symbolic table over EdgeKind' % n,
                     sample={'X_kind': n, 'predicate': 'any subset of 15 edge kinds', 'allowlist': 'symbolic'}) for n in ('Comp', 'Alias', 'TemplateInstantiation', 'Function')]
    k.encoded = encd
    k.stubs = ['stub IR as in the step kernels']
    k.assumptions = ['IR invariants as in the step kernels']
    k.bounds = ['4 items; X in {Comp, Alias, TemplateInstantiation, Function}']
    return k


def template_params_kernel(tier):
    base, encd = ir_kernel.base_text(4, 4)
    ctxsrc = rd('ir/context.rs')
    res = []
    tp = strip_test_mods(strip_uses(strip_inner(rd('ir/analysis/template_params.rs'))))
    pre2 = open(os.path.join(G, 'prelude', 'ir_env_tp.rs')).read()
    har = open(os.path.join(G, 'harness', 'ir_tp.rs')).read()
    KINDS = ['Int', 'Float', 'Pointer', 'Array', 'Alias', 'ResolvedTypeRef', 'Vector', 'Reference', 'BlockPointer', 'TemplateAlias', 'Function', 'Enum', 'Comp',
             'TemplateInstantiation', 'Void', 'NullPtr', 'TypeParam', 'Complex', 'ObjCId', 'ObjCSel', 'ObjCInterface', 'Opaque']
    QUICK = {'Comp', 'Alias', 'TemplateInstantiation', 'TypeParam', 'Function'}
    gen, hs = [], []
    P = 'template_params::tp_proofs::'
    for tag, kn in enumerate(KINDS):
        # the one-step obligations on UsedTemplateParameters::constrain (fn step / fn mono in harness/ir_tp.rs) are NOT registered: measured 2x constrain from an
        # arbitrary set-valued pre-state = 320-840 s of symbolic execution, 76-114 k VCCs, and CBMC runs out of 36 GB in the propositional reduction
        if kn in ('Alias', 'Pointer', 'TemplateInstantiation', 'Comp', 'Function', 'TemplateAlias'):
            hn = 'tp_deps_%s' % kn
            gen.append('#[kani::proof] #[kani::unwind(5)] fn %s() { deps(%d) }' % (hn, tag))
            hs.append(H(hn, path=P + hn, timeout=1500, weight=2, tier='quick' if kn in ('Alias', 'TemplateInstantiation', 'Comp') else 'thorough', may_unsat=('X traces a non-allowlisted item',),
                        desc='UsedTemplateParameters::new, loop body applied to a %s X: X is recorded under every item it traces (allowlisted or not) and every visited / read item has a set' % kn, sample={'X_kind': kn, 'children_allowlisted': 'symbolic'}))
    m = re.search(r'for item in allowlisted_and_blocklisted_items \{', tp)
    if not m:
        raise SliceError('UsedTemplateParameters::new: loop over the allowlisted closure not found')
    loop_body = tp[m.end():match_brace(tp, m.end() - 1) - 1]
    har = har.replace('/*NEW_LOOP_BODY*/', loop_body)
    text = '\n'.join([base.replace('pub const NI: usize', 'pub const PARAM: usize = 2;   // the item that stands for a declared template parameter\npub const NI: usize'), pre2] + res + [open(os.path.join(G, 'harness', 'ir_ctx.rs')).read(),
                      'pub mod template_params { use super::*; ' + tp + '\n' + har.replace('/*GENERATED*/', '\n    '.join(gen)) + ' }'])
    k = Kernel(name='used_template_params')
    k.files = {'src/lib.rs': text}
    k.harnesses = hs
    k.encoded = encd + [enc('ir/analysis/template_params.rs', 'whole file', rd('ir/analysis/template_params.rs'))]
    k.stubs = ['stub IR as in the other step kernels, plus prelude/ir_env_tp.rs: get_mut / values / Index on the map, iteration and FromIterator on the sets, Type::self_template_params (hand transcription of impl TemplateParameters for TypeKind)',
               'a declared template parameter is item 2 (PARAM)', 'ItemResolver: two-hop straight-line stub with the same flags (the real loop is unrolled to the global bound at every call site)']
    k.assumptions = ['IR invariants as in the other step kernels', 'template arguments are not aliases of other items inside the 4-item graph beyond one hop (children are leaves); reading an argument through an alias chain is argued on paper (an alias holds exactly the set of its target)',
                     'X and the root module are allowlisted; the children may or may not be']
    k.bounds = ['4 items; sets over 4 ids; one node X over <= 3 neighbour slots; all 22 TypeKind variants; unwind 5']
    return k


def build(tier, seed):
    known = load_known()
    names = ['has_float', 'has_destructor', 'has_vtable', 'sizedness', 'has_type_param_in_array', 'derive_copy', 'derive_debug', 'derive_default', 'derive_hash', 'derive_partialeq']
    ks = [kernel_or_error(n, (lambda n=n: analysis_kernel(n, tier, known))) for n in names]
    ks.append(kernel_or_error('dependencies', lambda: dependencies_kernel(tier)))
    ks.append(kernel_or_error('used_template_params', lambda: template_params_kernel(tier)))
    try:
        from props import c07_worklist
        ks.append(kernel_or_error('worklist', lambda: c07_worklist.kernel(tier, seed)))
    except ImportError:
        pass
    return ks
