#!/usr/bin/env python3
"""Writes /verif/MANIFEST.json from the table below (single source of truth)."""
import json, os
V = os.path.dirname(os.path.dirname(os.path.abspath(__file__)))

CLAIMED = {
    'C03': dict(
        text='Bounded model checking of the real text of codegen/bitfield_unit.rs (all 8 value entry points and the bit accessors, storage sizes 1..16 bytes, every offset/width<=64/value), of the real accessor and constructor quote! templates of codegen/mod.rs instantiated per (declared type, unit size, offset, width) tuple and compared with C bit-field semantics, and of ir/comp.rs::bitfields_to_allocation_units on symbolic runs against clang\'s LayoutBitField rule. Three recorded defects (F1 sign extension, F2 shift by 64, F7 union unit size) are reported as KNOWN-FINDING; anything outside their regions is a violation.',
        note='Trusted: Kani/CBMC; bit-level reference models in the harness; libclang offsets assumed to obey the Itanium rule. Shapes (unit size, const OFFSET/WIDTH tuples, declared type) are harness parameters from a stated list; contents are symbolic. Not covered: which template CompInfo::codegen selects, enum-typed bit-fields, MS ABI, big-endian.',
        ref='DESIGN.md section 3, C03'),
    'C14': dict(
        text='Bounded model checking (Kani/CBMC over the real features.rs, E1 splice): for ALL u64 minor/patch values, all editions and nightly the solver shows no feature flag is on before its stabilisation release, flags are monotone, editions are gated exactly, constructors/constants agree with the table, and the edition gate statement of Builder::generate rejects exactly the unavailable pairs. Strongest claim of the set: the whole input space of the deciding code is covered.',
        note='Trusted: Kani/CBMC; the stabilisation table written in the harness from the Rust release notes. Not covered: that every codegen site consults its flag (token templates).',
        ref='DESIGN.md section 3, C14'),
}

CLAIMED['C18'] = dict(
    text='Bounded model checking of the real visit_items functions of merge_extern_blocks.rs and sort_semantically.rs (with the real slice::sort_by_key) on every sequence of up to 3 (quick) / 4 (thorough) items of symbolic kind, extern blocks with symbolic attributes/ABI and 1-2 foreign items: item multiset preserved, foreign items stay under their original attrs/ABI/unsafety, same-kind order preserved, each pass and merge-then-sort idempotent.',
    note='Trusted: Kani/CBMC; stub syn item types with the same variant/field names (payload = identity byte). Assumes all extern blocks of one run carry the same unsafety (the merge key ignores it). Not covered: syn parse/print, compiling the result, module recursion, pass selection, sequences longer than the bound (an unstable sort that is stable on short slices is indistinguishable).',
    ref='DESIGN.md section 3, C18')

CLAIMED['C02'] = dict(
    text='Bounded model checking of the real codegen/struct_layout.rs, helpers::{blob,integer_type,bitfield_unit} and ir/layout.rs: for each alignment/packing tuple (natural, packed, #pragma pack(2|4), aligned(N) on a member) the solver chooses member sizes and options; C offsets come from an Itanium/SysV record-layout model, the emitted field list (members + decoded padding blobs) is laid out by the Rust repr(C)/packed(n)/align(n) rules, and member offsets, size and alignment must coincide. Plus blob exactness, padding-blob placement, Layout::for_size and align_to over their whole domains. Also: the REAL text of the layout region of CompInfo::codegen (padding, packed/align attribute decision, opaque and union blobs) compiled against the same environment (kernel driver), CompInfo::is_packed / already_packed, the <stdint.h> name table, int_kind_rust_type / float_kind_rust_type against IntKind::{is_signed,known_size}, and the libclang builtin-kind match of build_builtin_ty. Kernel level: the arithmetic and tables that decide layout, not a C compiler round trip.',
    note='Trusted: Kani/CBMC; the C record-layout model and the Rust repr rules written in the harness; decoding macros of the stub environment. Kernel layout uses a hand model of the CompInfo::codegen driver for breadth; kernel driver uses the real region. Not covered: numbers libclang reports, C++ tail padding reuse, value round trips through a C compiler, field emission order (Field::codegen).',
    ref='DESIGN.md section 3, C02')
CLAIMED['C05'] = dict(
    text='Bounded model checking over ALL i64 values and option combinations of default_macro_constant_type (kind holds the value, sign rule, narrowest allowed), the literal choice of Var::codegen composed with the real IntKind::{is_signed,known_size}, the char-literal conversion of Var::parse, EvalResult::as_int against a libclang contract stub, and the enum repr translation table. Kernel level.',
    note='Trusted: Kani/CBMC; libclang CXEvalResult contract stub (getAsInt truncates, getAsLongLong/getAsUnsigned do not). Not covered: cexpr macro evaluation (disagrees with C for unsigned/overflowing expressions, documented), floats, strings, enumerator extraction.',
    ref='DESIGN.md section 3, C05')

CLAIMED['C01'] = dict(
    text='Narrow kernel of a very wide property: bounded model checking of the escaping DECISION of BindgenContext::rust_mangle (its condition, sliced verbatim) on every identifier of length 1..8 over [a-z0-9_$@?SA] - every Rust keyword and every name with $ @ ? is escaped and nothing else is, so definition and use sites agree; plus the compile-critical accessor/constructor templates for union parents (shared with C03; this is where finding F6, bindings that do not compile, was found); and the real Module::codegen with CodegenResult::{new, saw_*, inner}: for an item nested in 1..3 namespaces using any set of helper types (__BindgenUnionField, __IncompleteArrayField, __BindgenBitfieldUnit, block/objc prologue) each used helper is defined exactly once where its uses look for it, for every namespace / inline / module-raw-line option.',
    note='Trusted: Kani/CBMC; keyword list of the Rust Reference written in the harness. Not covered: the escaping itself (String::replace: not encodable, measured), path resolution, generics, derive soundness as rustc sees it, every other quote! template - i.e. most of the property.',
    ref='DESIGN.md section 3, C01')
CLAIMED['C04'] = dict(
    text='Kernel level: bounded model checking of the link-name decision - utils::names_will_be_identical_after_mangling equals the x86 decoration table (cdecl _name, stdcall _name@N, fastcall @name@N) for all names up to 3/7 bytes and 9 ABI cases, and the two real call-site statements (Function::codegen, Var::codegen): a binding without #[link_name] has a Rust name that decorates to the C symbol, and an emitted #[link_name] names the C symbol. Calling convention: the real get_abi maps every libclang CXCallingConv value to the ABI of the convention table (unknown ones stay Unknown, never silently C), and the real FunctionSig::abi applies --override-abi with its precedence and refuses ABIs the target lacks. The ABI feature gate itself is checked under C14.',
    note='Trusted: Kani/CBMC; decoration table in the harness. Not covered: argument lowering, by-value aggregates, variadics, libclang mangling, method receivers, actually calling anything.',
    ref='DESIGN.md section 3, C04')
CLAIMED['C07'] = dict(
    text='Local obligations that imply the least-fixed-point / order-independence property (Kildall): for HasFloat, HasDestructor, HasVtable, Sizedness, HasTypeParameterInArray and CannotDerive x5 traits the REAL constrain() is applied once to a node of each TypeKind variant from an ARBITRARY analysis state (solver-chosen) on a stub IR with the real Trace impls: it writes only its own entry, new fact = old fact JOIN rule(neighbours), Changed/Same is truthful, the rule is monotone in each neighbour, and whenever a neighbour influences the result the node is subscribed to it (real Trace edges + the analysis own consider_edge). generate_dependencies is checked to record exactly those pairs, and the real work-list loop is checked on a symbolic generic framework (with a failing twin). For the sixth analysis, UsedTemplateParameters, only dependency completeness is decided: the recording loop body of its own new() notes X under every item X traces, allowlisted or not (its set-valued constrain is out of reach, measured). Finding F4 (opaque items read unsubscribed neighbours) is reported as KNOWN-FINDING.',
    note='Trusted: Kani/CBMC; the stub IR (same names, flags for name/option-derived predicates); the composition argument is on paper. Not covered: UsedTemplateParameters::constrain (locality / monotonicity of the set-valued rule) and the closure computation of its new(), edges libclang fails to create, lookups in codegen, nodes with more than 3 neighbour slots.',
    ref='DESIGN.md section 3, C07')
CLAIMED['C08'] = dict(
    text='Rule level: for each of the five DeriveTraits and each TypeKind variant the real CannotDerive::constrain (constrain_type, constrain_join, insert, the blocklisted-type decision of context.rs, FunctionSig::function_pointers_can_derive) produces exactly max(previous fact, SPEC) where SPEC is an independent transcription of the documented rules, from an arbitrary pre-state - both directions (never derived when forbidden, never withheld when allowed). Plus the CanDerive lattice laws, the option gates of context.rs and derives_of_item (kernel gates), and the hand-written impl bodies (kernel manual_impls): the REAL codegen/impl_debug.rs and codegen/impl_partialeq.rs compiled against token stubs - the generated Debug body is a well-formed write! with as many arguments as placeholders, each argument a named member or the getter of a named bit-field of that struct, a member printed iff its type can be; the PartialEq body has one conjunct per base with storage, data member and named bit-field, same member on both sides (finding F11, a Debug body that did not compile, was found and fixed here).',
    note='Trusted: Kani/CBMC; the specification in harness/ir_derive_spec.rs; stub IR. Equality of one-step functions implies equality of least fixed points (paper). Not covered: rustc acceptance, executing the hand-written bodies on C-filled objects, the Default body (write_bytes template) and the needs_*_impl decisions in CompInfo::codegen.',
    ref='DESIGN.md section 3, C08')
CLAIMED['C09'] = dict(
    text='Traversal level: per TypeKind variant the edges emitted by the real Trace impls equal the references the IR node holds; one ItemTraversal::next() from an arbitrary (seen, queue) state yields the queue top, records exactly its predicate-admitted successors (closure and minimality per step) and keeps the queue = unvisited discovered items; the allowlisting wrapper never yields a blocklisted item but follows its references; codegen_edges equals its documented table over all EdgeKinds and CodegenConfig values. Root selection: the real filter closure of compute_allowlisted_and_codegen_items selects an item as a root iff the documented rule for its kind says so (pattern of its kind or --allowlist-item on its path, allowlisted file, replaces-annotation, modules always, built-in kinds and stdint names when not recursive, unnamed top-level enums through any variant name), for every item kind and TypeKind variant.',
    note='Trusted: Kani/CBMC; stub IR; pattern sets as tables of answers. Not covered: regex matching itself and the ^(...)$ anchoring wrapper (regex crate), path strings, textual identity between runs, compiling the subset; the step-to-whole-run composition is on paper.',
    ref='DESIGN.md section 3, C09')
CLAIMED['C10'] = dict(
    text='The opaque path of the REAL CompInfo::codegen region emits exactly one blob of the C size and alignment and never repr(packed) next to repr(align); a helper type blocklisted as type or item is not defined; and three shared kernels: helpers::blob has exactly the requested size and alignment (all sizes <= 65536, alignments 0..64, ffi_safe/namespaces symbolic) and a plain array only where allowed; an opaque item exposes no Field/BaseMember edges and a blocklisted root is never yielded by the allowlisting traversal while its references are; a blocklisted (non-allowlisted) type derives exactly what the user vouches for (real decision closure of blocklisted_type_implements_trait inside the real derive rule); and the real IsOpaque impls of ItemId/Item/Type/CompInfo decide opacity exactly as: annotation, --opaque-type match, TypeKind::Opaque, reference to / instantiation of an opaque item, non-type template parameters, unevaluable bit-field width, failed field layout, or a bit-field wider than its type - and an alias or pointer to an opaque type is not itself opaque.',
    note='Trusted: Kani/CBMC; stub IR and layout stubs. Not covered: is_blocklisted / opaque_by_name (regex + paths; a symbolic flag here), IsOpaque for TemplateInstantiation (path strings), that use sites still name the type, layout with a user-supplied definition.',
    ref='DESIGN.md section 3, C10')
CLAIMED['C12'] = dict(
    text='Kernel level: absence of panic, overflow, out-of-range shift, index error and unwrap on None for all inputs within the bounds of the input-facing kernel RustTarget::from_str over 45 shape-parameterised strings (digits symbolic); the same automatic checks are active in every harness of every other property. Error values: the real diagnostics prologue of fn parse returns Err(ClangDiagnostic) carrying every error/fatal message in order iff clang reported an error or fatal diagnostic (<= 3 diagnostics, all severities); the real input-path pre-check of Bindings::generate returns NotExist / FolderAsHeader / InsufficientPermissions exactly for a missing / directory / unreadable path, judged on what the path resolves to (stat vs lstat modelled, symbolic links included). Finding F3 (1.0-nightly underflow) is repaired.',
    note='Trusted: Kani/CBMC, dev-profile semantics; memchr/fmt::format stubs. Not covered: the several hundred expect/unwrap sites whose preconditions are libclang AST shapes, stack depth, termination, what libclang reports for a header and real file-system behaviour (both modelled).',
    ref='DESIGN.md section 3, C12')
CLAIMED['C13'] = dict(
    text='Codec level: parse(to_string(v)) = v for every value of EnumVariation, MacroTypeVariation, AliasVariation, NonCopyUnionStyle, Formatter, FieldVisibilityKind, Abi, RustEdition, nightly; RustTarget::from_str on shape-parameterised strings returns the decimal value written; CodegenConfig <-> --generate/--ignore-* for all 63 non-empty values through the real as_args closure and the real parse_codegen_config; header ordering: the clang command line of the builder rebuilt from command_line_flags() equals the original one for 1..4 headers; value parsers: TYPE::FIELD=ATTR (parse_field_attr, attributes containing "=", type patterns containing "::") and REGEX=ABI (parse_abi_override, regexes containing "=", all 10 ABIs) read back what as_args prints.',
    note='Trusted: Kani/CBMC; listed mechanical rewrites (owned strings -> tokens / borrowed slices, string-pattern search -> naive search) in the as_args / command_line_flags / value-parser slices; clap parsing is modelled (positional header, -- separator). Not covered: clap derive layer, the 117-entry as_args/builder table, defaults, byte-identical bindings.',
    ref='DESIGN.md section 3, C13')
CLAIMED['C15'] = dict(
    text='Bounded model checking of the real Bindings::write / format_tokens / rustfmt_path against a nondeterministic child process: for every spawn outcome, stdin refusal, <= 2 output bytes with a read error anywhere, wait() error and ANY raw 32-bit wait status (through the real ExitStatusExt::from_raw) write() returns Ok unless the writer fails, the body is the formatter output exactly when it ran to completion with status 0 or 3 and valid UTF-8, else the unformatted tokens; header comment and raw lines appear once, in order, for formatter none/prettyplease with a writer failing at any byte.',
    note='Trusted: Kani/CBMC; process/io stubs; one rewrite (::std::thread::spawn -> synchronous stub). Not covered: token equality of formatter output, hangs/deadlocks/scheduling, large inputs.',
    ref='DESIGN.md section 3, C15')

CLAIMED['C06'] = dict(
    text='Assertion-block level: bounded model checking of the real layout_tests statement of CompInfo::codegen and of the whole impl CodeGenerator for TemplateInstantiation, compiled against token stubs that decode each quote! template. For every layout (any usize size / alignment, or unknown), up to 3 fields (data member or bit-field unit, name and offset known or not), forward declaration, opacity, layout_tests and offset_of: exactly one block is emitted for a composite with a known layout, asserting the layout size, the layout alignment and the byte offset of every named non-bit-field member with a known offset, in order and nothing else (no member checks for opaque blobs); a concrete, non-opaque template instantiation with a known layout gets a size + alignment block; nothing is emitted with layout tests disabled, for forward declarations, unknown layouts, opaque or generic instantiations; the const-block vs #[test] form follows the offset_of feature and the run-time form declares `ptr` exactly when it is used.',
    note='Trusted: Kani/CBMC; the quote! decoding macros; the numbers in the IR (libclang: Type::fallible_layout, Cursor::offset_of_field) - i.e. "equals what the C compiler computes for the target" is NOT claimed; that the statement is reached only for non-template composites is checked syntactically by the slicer (guard text present). Not covered: cross-target runs, that the assertion text compiles, instantiation discovery.',
    ref='DESIGN.md section 3, C06')

CLAIMED['C16'] = dict(
    text='Decision level: bounded model checking of the three statements of Function::codegen that decide static-function wrapping (early exit for internal linkage, should_wrap with its link_name attribute, registration in items_to_serialize), verbatim, everything between them symbolic: a static function gets a binding iff it is wrapped (wrap_static_fns on, not variadic), the binding names <name><suffix>, exactly one wrapper is registered for it, and nothing is registered for external linkage; the suffix on the Rust side is the configured one (what serialize.rs appends on the C side). Kernel c_spelling: the three match tables of impl CSerialize for Type write, for every IntKind / FloatKind, the ISO C spelling of that very type (or refuse). Kernel wrapper_file: the assembly statements of utils::serialize_items emit one #include per input header before any wrapper and exactly one wrapper per registered item, in order. Finding F10 (a static function whose binding already carries a #[link_name] - always the case in C++ mode - is bound but not wrapped) is reported as KNOWN-FINDING; its region is exact and the complement is checked strictly.',
    note='Trusted: Kani/CBMC; name / attribute stubs. Not covered: the C text of a wrapper beyond built-in type spellings (declarators for pointers, arrays, function pointers, qualifiers), that it compiles against the headers, behavioural equality of wrapper and wrapped function, utils::serialize_items (file assembly), va_list wrappers beyond their registration.',
    ref='DESIGN.md section 3, C16')

CLAIMED['C17'] = dict(
    text='Reporting level: (1) depfile escaping - the body of DepfileSpec::to_string (which characters are escaped, with what, in which order, the separators, the iteration) with String::replace / format! replaced by a fixed-capacity model: for every target and prerequisite name of 1..4 bytes over printable ASCII (every byte symbolic), one or two prerequisites, the written line reads back through a ninja / cargo style reader to exactly the target and the prerequisites; (2) reporting - real text of CargoCallbacks (one rerun-if-changed line per included file always, per input header iff rerun_on_header_files, one rerun-if-env-changed line per variable; new() reports headers), of the dependency-seeding statement of BindgenContext::new (exactly the input headers), of the announcement loop of Builder::generate (every input header to every callback once) and of the InclusionDirective arm of Item::parse (every named included file to every callback once and into the dependency set).',
    note='Trusted: Kani/CBMC; the string-engine model (listed rewrites); the reader model. Not covered: that libclang delivers an inclusion directive for every file actually read and no other (the larger half of the property; oracle would be clang -M), String::replace / format! themselves, names longer than 4 bytes or with ":" / newline / non-ASCII, GNU make proper as reader ("#", "$" unescaped).',
    ref='DESIGN.md section 3, C17')

NOT_APPLICABLE = {
    'C11': 'quantifies over processes, hash seeds, thread interleavings and in-process histories; Kani has no concurrency/process model and the hash containers whose iteration order matters are exactly what the stub environment replaces (DESIGN.md section 3, C11)',
}

PENDING = {p: 'planned (DESIGN.md section 3) but its check is not built yet; not claimed until it is' for p in
           ['C01','C02','C03','C04','C05','C06','C07','C08','C09','C10','C12','C13','C15','C16','C17','C18'] if p not in CLAIMED}


def main():
    checks = []
    for pid in sorted(CLAIMED):
        c = CLAIMED[pid]
        checks.append({
            'property_id': pid,
            'quick_cmd': 'python3 gen/run.py --prop %s --tier quick' % pid,
            'thorough_cmd': 'python3 gen/run.py --prop %s --tier thorough' % pid,
            'evidence_file': '/verif/evidence/%s.json' % pid,
            'replay_cmd_template': 'cd {path} && CARGO_NET_OFFLINE=true cargo kani playback -Z concrete-playback -- kani_concrete_playback',
            'engine': 'kani-splice',
            'level_claimed': {'category': 'model_checking', 'text': c['text'], 'design_ref': c['ref']},
            'level_note': c['note'],
            'technique': 'solver-based bounded model checking of the real source (Kani 0.68 / CBMC 6.11 / CaDiCaL) spliced against stub environments; counterexamples replayed natively',
        })
    na = [{'property_id': p, 'reason': r} for p, r in sorted({**NOT_APPLICABLE, **PENDING}.items())]
    m = {
        'version': 1,
        'setup_cmd': 'python3 gen/setup.py',
        'hooks': {
            'guard': 'cfg(kani)',
            'enable': 'none needed: checks splice source text from /repo into generated crates under /verif/work and run cargo kani there; /repo is built without any hook',
            'baseline_off_cmd': 'cd /repo && cargo nextest run --workspace --no-fail-fast --tool-config-file pb:/w/lib/nextest.toml --profile pb --test-threads 8 --offline',
            'source_commits': [],
            'add_only': True,
        },
        'engines': [{'name': 'kani-splice', 'path': '/verif/gen', 'serves_properties': sorted(CLAIMED),
                     'kind_free_text': 'python generator that slices real items out of /repo/bindgen, compiles them against stub preludes with appended #[kani::proof] harnesses, runs cargo kani per harness in parallel, replays counterexamples natively'}],
        'checks': checks,
        'not_applicable': na,
        'notes': 'Exit codes: 0 held (KNOWN-FINDING/INCONCLUSIVE lines may be printed), 1 VIOLATION (natively replayed), 2 tooling error / vacuous harness / non-reproducing counterexample. Known findings: /verif/known_findings.json.',
    }
    json.dump(m, open(os.path.join(V, 'MANIFEST.json'), 'w'), indent=1)


if __name__ == '__main__':
    main()
