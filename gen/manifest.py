#!/usr/bin/env python3
"""Writes /verif/MANIFEST.json from the table below (single source of truth)."""
import json, os
V = os.path.dirname(os.path.dirname(os.path.abspath(__file__)))

CLAIMED = {
    'C03': dict(
        text='Bounded model checking of the real text of codegen/bitfield_unit.rs (all 8 value entry points and the bit accessors, storage sizes 1..16 bytes, every offset/width<=64/value), of the real accessor and constructor quote! templates of codegen/mod.rs instantiated per (declared type, unit size, offset, width) tuple and compared with C bit-field semantics, and of ir/comp.rs::bitfields_to_allocation_units on symbolic runs against clang\'s LayoutBitField rule. Three recorded defects (F1 sign extension, F2 shift by 64, F7 union unit size) are reported as KNOWN-FINDING; anything outside their regions is a violation.',
        note='Trusted: Kani/CBMC; bit-level reference models in the harness; libclang offsets assumed to obey the Itanium rule. Shapes (unit size, const OFFSET/WIDTH tuples, declared type) are harness parameters from a stated list; contents are symbolic. Not covered: which template CompInfo::codegen selects, enum-typed bit-fields, MS ABI, big-endian.',
        ref='DESIGN.md section 3, C03'),
    'C14': dict(
        text='Bounded model checking (Kani/CBMC over the real features.rs, E1 splice): for ALL u64 minor/patch values, all editions and nightly the solver shows no feature flag is on before its stabilisation release, flags are monotone, editions are gated exactly, constructors/constants agree with the table, and the edition gate statement of Builder::generate rejects exactly the unavailable pairs. Strongest claim of the set: the whole input space of the deciding code is covered.',
        note='Trusted: Kani/CBMC; the stabilisation table written in the harness from the Rust release notes. Not covered: that every codegen site consults its flag (token templates).',
        ref='DESIGN.md section 3, C14'),
}

CLAIMED['C18'] = dict(
    text='Bounded model checking of the real visit_items functions of merge_extern_blocks.rs and sort_semantically.rs (with the real slice::sort_by_key) on every sequence of up to 3 (quick) / 4 (thorough) items of symbolic kind, extern blocks with symbolic attributes/ABI and 1-2 foreign items: item multiset preserved, foreign items stay under their original attrs/ABI/unsafety, same-kind order preserved, each pass and merge-then-sort idempotent.',
    note='Trusted: Kani/CBMC; stub syn item types with the same variant/field names (payload = identity byte). Assumes all extern blocks of one run carry the same unsafety (the merge key ignores it). Not covered: syn parse/print, compiling the result, module recursion, pass selection, sequences longer than the bound (an unstable sort that is stable on short slices is indistinguishable).',
    ref='DESIGN.md section 3, C18')

CLAIMED['C02'] = dict(
    text='Bounded model checking of the real codegen/struct_layout.rs, helpers::{blob,integer_type,bitfield_unit} and ir/layout.rs: for each alignment/packing tuple (natural, packed, #pragma pack(2|4), aligned(N) on a member) the solver chooses member sizes and options; C offsets come from an Itanium/SysV record-layout model, the emitted field list (members + decoded padding blobs) is laid out by the Rust repr(C)/packed(n)/align(n) rules, and member offsets, size and alignment must coincide. Plus blob exactness, padding-blob placement, Layout::for_size and align_to over their whole domains. Kernel level: the arithmetic that decides layout, not a C compiler round trip.',
    note='Trusted: Kani/CBMC; the C record-layout model and the Rust repr rules written in the harness; decoding macros of the stub environment. The statement order of CompInfo::codegen is a hand model pinned by sha256. Not covered: primitive type mapping, enum repr, libclang numbers, C++ tail padding reuse, value round trips.',
    ref='DESIGN.md section 3, C02')
CLAIMED['C05'] = dict(
    text='Bounded model checking over ALL i64 values and option combinations of default_macro_constant_type (kind holds the value, sign rule, narrowest allowed), the literal choice of Var::codegen composed with the real IntKind::{is_signed,known_size}, the char-literal conversion of Var::parse, EvalResult::as_int against a libclang contract stub, and the enum repr translation table. Kernel level.',
    note='Trusted: Kani/CBMC; libclang CXEvalResult contract stub (getAsInt truncates, getAsLongLong/getAsUnsigned do not). Not covered: cexpr macro evaluation (disagrees with C for unsigned/overflowing expressions, documented), floats, strings, enumerator extraction.',
    ref='DESIGN.md section 3, C05')

NOT_APPLICABLE = {
    'C06': 'layout assertions are assembled by quote! templates inside CompInfo::codegen over numbers libclang supplies at run time; there is no separable computation to encode, and cross-target truth needs that target\'s C compiler (DESIGN.md section 3, C06)',
    'C11': 'quantifies over processes, hash seeds, thread interleavings and in-process histories; Kani has no concurrency/process model and the hash containers whose iteration order matters are exactly what the stub environment replaces (DESIGN.md section 3, C11)',
    'C16': 'serialize.rs writes C text while walking the real IR by item id; needs the real BindgenContext (not encodable under CBMC, measured) and a C compiler as oracle (DESIGN.md section 3, C16)',
}

PENDING = {p: 'planned (DESIGN.md section 3) but its check is not built yet; not claimed until it is' for p in
           ['C01','C02','C03','C04','C05','C07','C08','C09','C10','C12','C13','C15','C17','C18'] if p not in CLAIMED}


def main():
    checks = []
    for pid in sorted(CLAIMED):
        c = CLAIMED[pid]
        checks.append({
            'property_id': pid,
            'quick_cmd': 'python3 gen/run.py --prop %s --tier quick' % pid,
            'thorough_cmd': 'python3 gen/run.py --prop %s --tier thorough' % pid,
            'evidence_file': '/verif/evidence/%s.json' % pid,
            'replay_cmd_template': 'cd {path} && CARGO_NET_OFFLINE=true cargo kani playback -Z concrete-playback -- kani_concrete_playback',
            'engine': 'kani-splice',
            'level_claimed': {'category': 'model_checking', 'text': c['text'], 'design_ref': c['ref']},
            'level_note': c['note'],
            'technique': 'solver-based bounded model checking of the real source (Kani 0.68 / CBMC 6.11 / CaDiCaL) spliced against stub environments; counterexamples replayed natively',
        })
    na = [{'property_id': p, 'reason': r} for p, r in sorted({**NOT_APPLICABLE, **PENDING}.items())]
    m = {
        'version': 1,
        'setup_cmd': 'python3 gen/setup.py',
        'hooks': {
            'guard': 'cfg(kani)',
            'enable': 'none needed: checks splice source text from /repo into generated crates under /verif/work and run cargo kani there; /repo is built without any hook',
            'baseline_off_cmd': 'cd /repo && cargo nextest run --workspace --no-fail-fast --tool-config-file pb:/w/lib/nextest.toml --profile pb --test-threads 8 --offline',
            'source_commits': [],
            'add_only': True,
        },
        'engines': [{'name': 'kani-splice', 'path': '/verif/gen', 'serves_properties': sorted(CLAIMED),
                     'kind_free_text': 'python generator that slices real items out of /repo/bindgen, compiles them against stub preludes with appended #[kani::proof] harnesses, runs cargo kani per harness in parallel, replays counterexamples natively'}],
        'checks': checks,
        'not_applicable': na,
        'notes': 'Exit codes: 0 held (KNOWN-FINDING/INCONCLUSIVE lines may be printed), 1 VIOLATION (natively replayed), 2 tooling error / vacuous harness / non-reproducing counterexample. Known findings: /verif/known_findings.json.',
    }
    json.dump(m, open(os.path.join(V, 'MANIFEST.json'), 'w'), indent=1)


if __name__ == '__main__':
    main()
