#!/usr/bin/env python3
"""Entry point: python3 gen/run.py --prop C14 [--tier quick|thorough]

Regenerates the harness crates for one property from /repo's working tree,
runs every harness through Kani/CBMC, triages, writes evidence/<prop>.json.
Exit 0 = held on everything explored (KNOWN-FINDING / INCONCLUSIVE lines may be
printed); 1 = VIOLATION (replayed natively); 2 = tooling problem / vacuous
harness / counterexample that does not reproduce.
"""
import argparse, importlib, os, sys

sys.path.insert(0, os.path.dirname(os.path.abspath(__file__)))
import common


def main():
    ap = argparse.ArgumentParser()
    ap.add_argument('--prop', required=True)
    ap.add_argument('--tier', default=os.environ.get('VERIF_TIER', 'quick'), choices=['quick', 'thorough'])
    ap.add_argument('--only', default=None, help='regex: run only harnesses whose name matches (debugging)')
    ap.add_argument('--kernel', default=None, help='regex: run only kernels whose name matches (debugging)')
    ap.add_argument('--list', action='store_true')
    a = ap.parse_args()
    try:
        seed = int(os.environ.get('VERIF_SEED', '0'))
    except ValueError:
        seed = 0
    mod = importlib.import_module('props.' + a.prop.lower())
    kernels = mod.build(a.tier, seed)
    if a.kernel:
        import re
        kernels = [k for k in kernels if re.search(a.kernel, k.name)]
    if a.only:
        import re
        for k in kernels:
            k.harnesses = [h for h in k.harnesses if re.search(a.only, h.name)]
    if a.list:
        for k in kernels:
            print(k.name, k.error or '')
            for h in k.harnesses:
                print('   ', h.name, h.tier, h.expect, h.desc)
        return 0
    rc = common.run_property(a.prop, a.tier, seed, kernels, mod.LEVEL_TEXT, mod.OUTSIDE, mod.EXPLANATION)
    return rc


if __name__ == '__main__':
    sys.exit(main())
