#!/usr/bin/env python3
"""Offline setup: verify the tools the checks need are present; nothing is fetched or built here
(the harness crates are regenerated from /repo on every check run)."""
import subprocess, sys, os
env = dict(os.environ, CARGO_NET_OFFLINE='true')
ok = True
for cmd in (['cargo', 'kani', '--version'], ['cbmc', '--version']):
    try:
        out = subprocess.run(cmd, env=env, stdout=subprocess.PIPE, stderr=subprocess.STDOUT, text=True, timeout=120).stdout.strip()
        print(' '.join(cmd), '->', out.splitlines()[0] if out else '')
    except Exception as e:
        print('MISSING', cmd, e); ok = False
os.makedirs(os.path.join(os.path.dirname(os.path.dirname(os.path.abspath(__file__))), 'work'), exist_ok=True)
sys.exit(0 if ok else 1)
