"""Shared machinery: slicer, crate writer, parallel Kani runner, playback replay,
known-findings handling, evidence writer.

Everything a check decides is decided by CBMC (via `cargo kani`) over code that
is re-sliced from /repo's working tree on every run.  See DESIGN.md section 2.
"""
import os, re, sys, json, time, shutil, hashlib, subprocess, threading
from dataclasses import dataclass, field
from concurrent.futures import ThreadPoolExecutor, as_completed

REPO = os.environ.get('VERIF_REPO', '/repo')
VERIF = os.path.dirname(os.path.dirname(os.path.abspath(__file__)))
WORK = os.environ.get('VERIF_WORK', os.path.join(VERIF, 'work'))
BG = os.path.join(REPO, 'bindgen')
JOBS = int(os.environ.get('VERIF_JOBS', '14'))
MEM_KB = int(os.environ.get('VERIF_MEM_KB', str(36 * 1024 * 1024)))

ENV = dict(os.environ)
ENV['CARGO_NET_OFFLINE'] = 'true'
ENV.pop('RUSTFLAGS', None)

# --------------------------------------------------------------------------
# slicer


class SliceError(Exception):
    pass


def rd(rel):
    """Read a file of the bindgen crate (relative to /repo/bindgen)."""
    p = os.path.join(BG, rel)
    try:
        return open(p).read()
    except OSError as e:
        raise SliceError('cannot read %s: %s' % (rel, e))


def sha(s):
    return hashlib.sha256(s.encode()).hexdigest()[:16]


def match_brace(s, i):
    """s[i] == '{' (or '(' / '['): index just after the matching closer.
    Understands strings, raw strings, char literals vs lifetimes, comments."""
    openc = s[i]
    closec = {'{': '}', '(': ')', '[': ']'}[openc]
    depth = 0
    n = len(s)
    while i < n:
        c = s[i]
        if s.startswith('//', i):
            j = s.find('\n', i)
            i = n if j < 0 else j
            continue
        if s.startswith('/*', i):
            d = 1
            i += 2
            while d and i < n:
                if s.startswith('/*', i):
                    d += 1; i += 2
                elif s.startswith('*/', i):
                    d -= 1; i += 2
                else:
                    i += 1
            continue
        if c == 'r' and re.match(r'r#*"', s[i:i + 8]) and (i == 0 or not (s[i - 1].isalnum() or s[i - 1] == '_')):
            m = re.match(r'r(#*)"', s[i:])
            term = '"' + m.group(1)
            j = s.find(term, i + m.end())
            if j < 0:
                raise SliceError('unterminated raw string')
            i = j + len(term)
            continue
        if c == '"':
            i += 1
            while s[i] != '"':
                if s[i] == '\\':
                    i += 1
                i += 1
            i += 1
            continue
        if c == "'":
            m = re.match(r"'(\\x[0-9a-fA-F]{2}|\\u\{[0-9a-fA-F]+\}|\\.|[^\\'])'", s[i:])
            if m:
                i += m.end()
                continue
            i += 1
            continue
        if c == openc:
            depth += 1
        elif c == closec:
            depth -= 1
            if depth == 0:
                return i + 1
        i += 1
    raise SliceError('unbalanced braces')


def extract(src, header_regex, with_attrs=True, what=None):
    """Extract one braced item (fn / impl / struct / enum / mod / macro invocation)
    whose header matches header_regex (multiline).  Returns its text including
    directly preceding attribute / doc-comment lines."""
    m = re.search(header_regex, src, flags=re.M)
    if not m:
        raise SliceError('item not found: %s' % (what or header_regex))
    start = m.start()
    # find the opening brace of the body (skip over generics / where clauses);
    # a ';' first means a body-less item
    i = m.end() - 1 if src[m.end() - 1] == '{' else m.end()
    n = len(src)
    while i < n and src[i] != '{':
        if src[i] == ';':
            end = i + 1
            break
        if src[i] in '([':
            i = match_brace(src, i)
            continue
        i += 1
    else:
        if i >= n:
            raise SliceError('no body for %s' % (what or header_regex))
    if i < n and src[i] == '{':
        end = match_brace(src, i)
    if with_attrs:
        # walk back over preceding lines that are attributes or doc comments
        ls = src.rfind('\n', 0, start) + 1
        start = ls
        while True:
            pe = start - 1
            if pe <= 0:
                break
            ps = src.rfind('\n', 0, pe) + 1
            line = src[ps:pe].strip()
            if line.startswith('#[') or line.startswith('///'):
                start = ps
            else:
                break
    return src[start:end]


def extract_from(rel, header_regex, **kw):
    return extract(rd(rel), header_regex, what='%s :: %s' % (rel, header_regex), **kw)


def strip_inner(s):
    s = re.sub(r'^#!\[.*?\]\s*$', '', s, flags=re.M)
    s = re.sub(r'^//!.*$', '', s, flags=re.M)
    return s


def strip_uses(s, also=()):
    """Remove `use crate::/super::/self::` imports and `mod x;` lines."""
    s = re.sub(r'^[ \t]*(pub(\([a-z]+\))? )?use (crate|super|self)\b[^;]*;', '', s, flags=re.M | re.S)
    s = re.sub(r'^[ \t]*(pub(\([a-z]+\))? )?mod \w+;', '', s, flags=re.M)
    for pat in also:
        s = re.sub(pat, '', s, flags=re.M | re.S)
    return s


def strip_test_mods(s):
    """Remove `#[cfg(test)] mod x { .. }` blocks and `#[test] fn`s."""
    while True:
        m = re.search(r'#\[cfg\(test\)\]\s*(pub(\([a-z]+\))? )?mod \w+\s*\{', s)
        if not m:
            break
        end = match_brace(s, m.end() - 1)
        s = s[:m.start()] + s[end:]
    while True:
        m = re.search(r'#\[test\]\s*fn \w+\s*\(\s*\)\s*\{', s)
        if not m:
            break
        end = match_brace(s, m.end() - 1)
        s = s[:m.start()] + s[end:]
    s = re.sub(r'#\[cfg\(test\)\]\s*mod \w+;', '', s)
    return s


def line_range(rel, text):
    """1-based line range of `text` inside the repo file (for evidence)."""
    src = rd(rel)
    k = src.find(text)
    if k < 0:
        return None
    a = src.count('\n', 0, k) + 1
    return [a, a + text.count('\n')]


# --------------------------------------------------------------------------
# harness / kernel descriptions


@dataclass
class H:
    name: str
    expect: str = 'pass'      # 'pass' | 'twin' (must fail) | 'finding:<ID>' (fails while finding stands)
    tier: str = 'quick'       # 'quick' = both tiers, 'thorough' = thorough only
    stubbing: bool = False
    timeout: int = 600
    weight: int = 1
    desc: str = ''
    sample: object = None
    may_unsat: tuple = ()     # cover descriptions allowed to be unsatisfiable
    extra_args: tuple = ()
    path: str = None          # fully qualified harness path for --exact (default: match by name)


@dataclass
class Kernel:
    name: str
    files: dict = field(default_factory=dict)
    harnesses: list = field(default_factory=list)
    encoded: list = field(default_factory=list)     # [{file, item, sha256, lines}]
    stubs: list = field(default_factory=list)
    assumptions: list = field(default_factory=list)
    bounds: list = field(default_factory=list)
    error: str = None
    cargo_features: list = field(default_factory=list)   # enabled by default in the generated crate


def enc(rel, item, text):
    return {'file': 'bindgen/' + rel, 'item': item, 'sha256': sha(text), 'lines': line_range(rel, text)}


def kernel_or_error(name, builder):
    """Run builder() -> Kernel; a SliceError yields an INCONCLUSIVE kernel."""
    try:
        k = builder()
        k.name = name
        return k
    except SliceError as e:
        return Kernel(name=name, error='slice-failed: %s' % e)


CARGO_TOML = '''[package]
name = "%s"
version = "0.0.0"
edition = "2021"
[lib]
path = "src/lib.rs"
[workspace]
[dependencies]
[lints.rust]
unexpected_cfgs = { level = "allow" }
'''


def write_crate(root, name, files, features=()):
    if os.path.exists(root):
        shutil.rmtree(root)
    os.makedirs(os.path.join(root, 'src'))
    toml = CARGO_TOML % name
    if features:
        toml += '[features]\ndefault = [%s]\n' % ', '.join('"%s"' % f for f in features) + ''.join('%s = []\n' % f for f in features)
    open(os.path.join(root, 'Cargo.toml'), 'w').write(toml)
    for rel, text in files.items():
        p = os.path.join(root, rel)
        os.makedirs(os.path.dirname(p), exist_ok=True)
        open(p, 'w').write(text)


# --------------------------------------------------------------------------
# Kani runner

CHECK_RE = re.compile(r'^Check (\d+): (.+?)[ \t]*\n\s*- Status: (\w+)\s*\n\s*- Description: "(.*?)"[ \t]*\n(?:\s*- Location: (.*)\n)?', re.M | re.S)


def parse_kani(out):
    r = {'checks': 0, 'success': 0, 'failed': [], 'unreachable': 0, 'undetermined': 0,
         'covers': {}, 'verdict': None, 'time': None, 'unwind_fail': False, 'compile_error': False,
         'vars': None, 'clauses': None}
    for blk in re.split(r'^Check \d+: ', out, flags=re.M)[1:]:
        lines = blk.split('\n')
        cid = lines[0].strip()
        ms = re.search(r'^\s*- Status: (\w+)', blk, flags=re.M)
        md = re.search(r'^\s*- Description: "(.*?)"[ \t]*$(?=\n\s*- Location|\n\s*$|\n*\Z)', blk, flags=re.M | re.S)
        ml = re.search(r'^\s*- Location: (.*)$', blk, flags=re.M)
        if not ms:
            continue
        status = ms.group(1)
        desc = ' '.join(md.group(1).split()) if md else ''
        loc = ml.group(1) if ml else ''
        if '.cover.' in cid:
            r['covers'][desc] = status
            continue
        r['checks'] += 1
        if status == 'SUCCESS':
            r['success'] += 1
        elif status == 'FAILURE':
            r['failed'].append({'id': cid, 'desc': desc, 'loc': loc or ''})
            if 'unwinding assertion' in desc:
                r['unwind_fail'] = True
        elif status == 'UNREACHABLE':
            r['unreachable'] += 1
        else:
            r['undetermined'] += 1
    m = re.search(r'VERIFICATION:- (\w+)', out)
    if m:
        r['verdict'] = m.group(1)
    m = re.search(r'Verification Time: ([0-9.]+)s', out)
    if m:
        r['time'] = float(m.group(1))
    m = re.search(r'(\d+) variables, (\d+) clauses', out)
    if m:
        r['vars'], r['clauses'] = int(m.group(1)), int(m.group(2))
    if re.search(r'^error(\[E\d+\])?:', out, flags=re.M) and r['verdict'] is None:
        r['compile_error'] = True
    return r


class Weighted:
    def __init__(self, cap):
        self.cap = cap
        self.used = 0
        self.cv = threading.Condition()

    def acquire(self, w):
        w = min(w, self.cap)
        with self.cv:
            while self.used + w > self.cap:
                self.cv.wait()
            self.used += w
        return w

    def release(self, w):
        with self.cv:
            self.used -= w
            self.cv.notify_all()


SLOTS = Weighted(JOBS)


def sh(cmd, cwd, timeout, log=None):
    """Run under ulimit -v + timeout; returns (rc, output, seconds). rc = -9 on timeout.
    With `log`, output streams into that file while the command runs (so a long solver run can be watched)."""
    t0 = time.time()
    full = 'ulimit -v %d; exec %s' % (MEM_KB, cmd)
    sink = open(log, 'w') if log else None
    tail = ''
    try:
        p = subprocess.Popen(['bash', '-c', full], cwd=cwd, env=ENV, stdin=subprocess.PIPE, stdout=sink or subprocess.PIPE,
                             stderr=subprocess.STDOUT, text=True, start_new_session=True)
        try:
            out, _ = p.communicate(timeout=timeout)
            rc = p.returncode
        except subprocess.TimeoutExpired:
            try:
                os.killpg(p.pid, 9)
            except OSError:
                pass
            out, _ = p.communicate()
            tail = '\n[runner] TIMEOUT after %ds\n' % timeout
            rc = -9
    except OSError as e:
        out, rc, tail = '', -1, '[runner] spawn failed: %s' % e
    dt = time.time() - t0
    if sink:
        sink.write(tail)
        sink.close()
        out = open(log, errors='replace').read()
    else:
        out = (out or '') + tail
    return rc, out, dt


def run_harness(croot, h, logdir, playback=False, kname=''):
    """One `cargo kani --harness` run in its own target dir."""
    tdir = os.path.join(croot, 'target_' + h.name)
    args = ['cargo', 'kani', '--harness', h.path or ('proofs::' + h.name), '--exact', '--target-dir', tdir]
    args += ['--no-assertion-reach-checks']   # otherwise CBMC emits one JSON trace per reachable check (GBs, minutes)
    if h.stubbing:
        args += ['-Z', 'stubbing']
    if playback:
        args += ['-Z', 'concrete-playback', '--concrete-playback=inplace']
    args += list(h.extra_args)
    w = SLOTS.acquire(h.weight)
    try:
        for attempt in range(5):
            rc, out, dt = sh(' '.join(args), croot, h.timeout,
                             log=os.path.join(logdir, kname + h.name + ('.playback' if playback else '') + '.log'))
            # sandbox flakiness seen under load: cargo's `rustc -` target probe reads garbage on stdin; retry
            if 'to learn about target-specific information' in out or 'Failed to get cargo metadata' in out:
                shutil.rmtree(tdir, ignore_errors=True)
                time.sleep(0.5 + attempt)
                continue
            break
    finally:
        SLOTS.release(w)
        shutil.rmtree(tdir, ignore_errors=True)
    r = parse_kani(out)
    r['rc'] = rc
    r['wall'] = dt
    r['timeout'] = (rc == -9)
    r['oom'] = ('Status: ERROR' in out or 'std::bad_alloc' in out or 'out of memory' in out.lower() or 'memory exhausted' in out.lower())
    return r, out


def native_replay(croot, h, logdir):
    """After a playback=inplace run: execute the generated #[test]s natively in
    dev-like and release-like profiles.  Returns dict(profile -> reproduced?)."""
    res = {}
    # the generated tests use `Vec`/`vec!`, which stub preludes may shadow: make them absolute
    for root, _, fs in os.walk(os.path.join(croot, 'src')):
        for f in fs:
            p = os.path.join(root, f)
            t = open(p).read()
            if 'kani_concrete_playback' not in t:
                continue
            # Kani emits the same test twice when two failing checks share one counterexample: keep the first;
            # inside the generated tests only (sliced code may itself say `vec![]` against a stub Vec), make Vec / vec! absolute
            seen = set()
            def dedupe(m):
                if m.group(1) in seen:
                    return ''
                seen.add(m.group(1))
                b = m.group(0).replace('let concrete_vals: Vec<Vec<u8>> = vec![', 'let concrete_vals: ::std::vec::Vec<::std::vec::Vec<u8>> = ::std::vec![')
                return re.sub(r'^(\s*)vec!\[([0-9, ]*)\](,?)\s*$', r'\1::std::vec![\2]\3', b, flags=re.M)
            t = re.sub(r'#\[test\]\s*fn (kani_concrete_playback_\w+)\(\s*\)\s*\{.*?kani::concrete_playback_run\([^;]*;\s*\}', dedupe, t, flags=re.S)
            open(p, 'w').write(t)
    profiles = {
        'dev': {},
        'release': {'CARGO_PROFILE_TEST_OPT_LEVEL': '3', 'CARGO_PROFILE_TEST_DEBUG_ASSERTIONS': 'false',
                    'CARGO_PROFILE_TEST_OVERFLOW_CHECKS': 'false'},
    }
    for prof, extra in profiles.items():
        env = ' '.join('%s=%s' % kv for kv in extra.items())
        cmd = 'env %s CARGO_TARGET_DIR=%s cargo kani playback -Z concrete-playback %s -- kani_concrete_playback_%s' % (
            env, os.path.join(croot, 'target_replay_' + prof), '-Z stubbing' if False else '', h.name + ' --test-threads=1')   # stub environments keep state in statics: one replay at a time
        rc, out, dt = sh(cmd, croot, 600, log=os.path.join(logdir, '%s.replay_%s.log' % (h.name, prof)))
        m = re.search(r'test result: (\w+)\. (\d+) passed; (\d+) failed', out)
        if not m:
            res[prof] = None   # could not run
        else:
            res[prof] = int(m.group(3)) > 0
        shutil.rmtree(os.path.join(croot, 'target_replay_' + prof), ignore_errors=True)
    return res


# --------------------------------------------------------------------------
# known findings


def load_known():
    p = os.path.join(VERIF, 'known_findings.json')
    try:
        d = json.load(open(p))
    except OSError:
        return {}
    out = {}
    for e in d.get('findings', []):
        if e.get('status', 'known') == 'known':
            out[e['id']] = e
    return out


# --------------------------------------------------------------------------
# property driver


def ensure_dev_null():
    """Seen in this sandbox: something (`rustc -o /dev/null`) replaced /dev/null by a regular file; cargo then feeds its
    contents to `rustc -` as source.  Recreate the device node when that happened (needs root; ignored otherwise)."""
    import stat
    try:
        if not stat.S_ISCHR(os.stat('/dev/null').st_mode):
            os.remove('/dev/null')
            os.mknod('/dev/null', 0o666 | stat.S_IFCHR, os.makedev(1, 3))
            os.chmod('/dev/null', 0o666)
    except OSError:
        pass


def run_property(prop, tier, seed, kernels, level_text, outside, explanation):
    """Execute all kernels' harnesses, triage, write evidence, return exit code."""
    ensure_dev_null()
    t0 = time.time()
    known = load_known()
    wroot = os.path.join(WORK, prop)
    os.makedirs(wroot, exist_ok=True)
    # one run per property work dir at a time
    import fcntl
    lockf = open(os.path.join(wroot, '.lock'), 'w')
    fcntl.flock(lockf, fcntl.LOCK_EX)
    logdir = os.path.join(wroot, 'logs')
    shutil.rmtree(logdir, ignore_errors=True)
    os.makedirs(logdir)
    jobs = []
    inconclusive = []
    for k in kernels:
        if k.error:
            print('INCONCLUSIVE kernel=%s reason=%s' % (k.name, k.error))
            inconclusive.append({'kernel': k.name, 'reason': k.error})
            continue
        if not k.harnesses:
            # a kernel that lost all its harnesses (a selection by name or position that no longer matches) must not pass silently
            print('INCONCLUSIVE kernel=%s reason=no-harnesses' % k.name)
            inconclusive.append({'kernel': k.name, 'reason': 'no-harnesses'})
            continue
        croot = os.path.join(wroot, k.name)
        write_crate(croot, 'k_' + re.sub(r'\W', '_', k.name), k.files, k.cargo_features)
        for h in k.harnesses:
            if h.tier == 'thorough' and tier != 'thorough':
                continue
            jobs.append((k, croot, h))
    results = []
    lock = threading.Lock()

    def work(job):
        k, croot, h = job
        r, out = run_harness(croot, h, logdir, kname=k.name + '__')
        return job, r

    with ThreadPoolExecutor(max_workers=max(JOBS, 1) * 2) as ex:
        futs = [ex.submit(work, j) for j in jobs]
        for f in as_completed(futs):
            job, r = f.result()
            results.append((job, r))
            k, croot, h = job
            st = 'TIMEOUT' if r['timeout'] else ('COMPILE-ERROR' if r['compile_error'] else (r['verdict'] or 'ERROR'))
            sys.stderr.write('[%s] %s/%s %s %.1fs (%d checks)\n' % (prop, k.name, h.name, st, r['wall'], r['checks']))

    violations, known_lines, vacuous, tool_errors = [], [], [], []
    known_hits = {}
    discharged = obligations = 0
    nontrivial = 0
    samples = []
    solver_s = 0.0
    per_h = []
    compile_failed = set()
    for (k, croot, h), r in sorted(results, key=lambda x: (x[0][0].name, x[0][2].name)):
        rec = {'kernel': k.name, 'harness': h.name, 'expect': h.expect, 'verdict': r['verdict'], 'checks': r['checks'],
               'success': r['success'], 'wall_s': round(r['wall'], 1), 'solver_s': r['time'],
               'covers': r['covers'], 'desc': h.desc}
        per_h.append(rec)
        solver_s += r['time'] or 0.0
        if r['compile_error']:
            if k.name not in compile_failed:
                compile_failed.add(k.name)
                print('INCONCLUSIVE kernel=%s reason=slice-does-not-compile (see %s)' % (k.name, os.path.join(logdir, k.name + '__' + h.name + '.log')))
                inconclusive.append({'kernel': k.name, 'reason': 'slice-does-not-compile'})
            rec['outcome'] = 'inconclusive'
            continue
        if r['timeout'] or r['oom'] or r['verdict'] is None:
            why = 'timeout' if r['timeout'] else ('out-of-memory' if r['oom'] else 'no-verdict')
            print('INCONCLUSIVE kernel=%s harness=%s reason=%s' % (k.name, h.name, why))
            inconclusive.append({'kernel': k.name, 'harness': h.name, 'reason': why})
            rec['outcome'] = 'inconclusive'
            continue
        real_fail = [f for f in r['failed'] if 'unwinding assertion' not in f['desc']]
        if r['verdict'] == 'SUCCESSFUL':
            bad_cov = [d for d, s in r['covers'].items() if s != 'SATISFIED' and d not in h.may_unsat]
            if h.expect == 'twin':
                print('VACUOUS kernel=%s harness=%s reason=twin-harness-passed' % (k.name, h.name))
                vacuous.append(rec)
                rec['outcome'] = 'vacuous'
                continue
            if bad_cov:
                print('VACUOUS kernel=%s harness=%s unsatisfied-witness=%s' % (k.name, h.name, bad_cov))
                vacuous.append(rec)
                rec['outcome'] = 'vacuous'
                continue
            if h.expect.startswith('finding:'):
                fid = h.expect.split(':', 1)[1]
                print('NOTE finding %s no longer manifests in harness %s (inverted harness passed)' % (fid, h.name))
                rec['outcome'] = 'finding-gone'
                continue
            obligations += r['checks']
            discharged += r['success'] + r['unreachable']
            rec['outcome'] = 'held'
            if r['covers'] or True:
                nontrivial += 1
            if h.sample is not None and len(samples) < 40:
                samples.append({'harness': h.name, 'case': h.sample, 'checks': r['checks']})
            continue
        # FAILED
        if r['unwind_fail'] and not real_fail:
            print('TOOL-ERROR kernel=%s harness=%s reason=unwinding-bound-too-small' % (k.name, h.name))
            tool_errors.append(rec)
            rec['outcome'] = 'unwind'
            continue
        if h.expect == 'twin':
            rec['outcome'] = 'twin-failed-as-required'
            nontrivial += 1
            continue
        if h.expect.startswith('finding:'):
            fid = h.expect.split(':', 1)[1]
            if fid in known:
                known_hits.setdefault(fid, []).append('%s: %s' % (h.name, '; '.join(sorted(set(f['desc'] for f in real_fail)))[:160]))
                rec['outcome'] = 'known-finding'
                continue
            # not listed any more: treat as an ordinary failure
        # candidate violation -> concrete playback -> native replay
        rec['failed'] = real_fail[:5]
        r2, out2 = run_harness(croot, h, logdir, playback=True, kname=k.name + '__')
        rep = native_replay(croot, h, logdir) if 'kani_concrete_playback' in out2 else {}
        rec['replay'] = rep
        rdir = os.path.join(wroot, 'replay_' + h.name)
        shutil.rmtree(rdir, ignore_errors=True)
        shutil.copytree(croot, rdir, ignore=shutil.ignore_patterns('target*'))
        open(os.path.join(rdir, 'REPLAY.md'), 'w').write(
            'property %s kernel %s harness %s\nfailed checks:\n%s\n\nreplay: cd %s && CARGO_NET_OFFLINE=true cargo kani playback -Z concrete-playback -- kani_concrete_playback_%s\nnative replay result: %s\n' % (
                prop, k.name, h.name, json.dumps(real_fail, indent=1), rdir, h.name, rep))
        if any(v for v in rep.values()):
            print('VIOLATION property=%s replay=%s' % (prop, rdir))
            print('  harness=%s failed: %s' % (h.name, '; '.join(sorted(set(f['desc'] for f in real_fail)))[:300]))
            violations.append(rec)
            rec['outcome'] = 'violation'
        else:
            print('ENCODING-ERROR kernel=%s harness=%s counterexample does not reproduce natively (%s) failed=%s' % (
                k.name, h.name, rep, '; '.join(sorted(set(f['desc'] for f in real_fail)))[:300]))
            tool_errors.append(rec)
            rec['outcome'] = 'encoding-error'

    for fid in sorted(known_hits):
        line = 'KNOWN-FINDING: property=%s %s [%s; region: %s; shown by %s]' % (
            prop, known[fid]['what'], fid, known[fid].get('region', ''), ' | '.join(known_hits[fid])[:400])
        print(line)
        known_lines.append(line)
    wall = time.time() - t0
    encoded, stubs, assumptions, bounds = [], [], [], []
    for k in kernels:
        encoded += [dict(e, kernel=k.name) for e in k.encoded]
        stubs += ['%s: %s' % (k.name, s) for s in k.stubs]
        assumptions += ['%s: %s' % (k.name, s) for s in k.assumptions]
        bounds += ['%s: %s' % (k.name, s) for s in k.bounds]
    if not samples:
        samples = [{'harness': p['harness'], 'case': p['desc']} for p in per_h[:5]] or [{'note': 'no harness ran'}]
    ev = {
        'property_id': prop, 'tier': tier, 'seed': seed, 'level': 'model_checking',
        'coverage': {
            'evaluations': max(len(results), 1),
            'distinct_nontrivial': nontrivial,
            'rule': 'one evaluation = one Kani proof harness (one SAT query over all inputs within its bound); counted non-trivial when it produced a verdict, all its cover witnesses were satisfied (or, for a twin, it failed as required)',
            'samples': samples,
            'obligations': obligations, 'discharged': discharged,
            'checker_cmd': 'cargo kani --harness <h> --exact [-Z stubbing] (Kani 0.68.0, CBMC 6.11.0, CaDiCaL), unwinding assertions on',
            'trusted_base': ['Kani 0.68 MIR->goto translation', 'CBMC 6.11 + CaDiCaL', 'the stub preludes under /verif/gen (listed in stubs)', 'the reference models written in the harnesses'],
            'functions_encoded': encoded, 'stubs': stubs, 'bounds': bounds,
            'harnesses': per_h, 'inconclusive': inconclusive, 'known_findings_reported': known_lines,
            'solver_seconds': round(solver_s, 1), 'explanation': explanation, 'outside_the_claim': outside,
            'exhaustive': False,
        },
        'assumptions': assumptions,
        'wall_s': round(wall, 1),
        'violations': len(violations),
    }
    evdir = os.environ.get('VERIF_EVIDENCE_DIR', os.path.join(VERIF, 'evidence'))
    os.makedirs(evdir, exist_ok=True)
    json.dump(ev, open(os.path.join(evdir, prop + '.json'), 'w'), indent=1)
    print('SUMMARY property=%s tier=%s harnesses=%d held=%d obligations=%d discharged=%d inconclusive=%d known=%d violations=%d wall=%.0fs solver=%.0fs' % (
        prop, tier, len(results), sum(1 for p in per_h if p.get('outcome') == 'held'), obligations, discharged,
        len(inconclusive), len(known_lines), len(violations), wall, solver_s))
    if violations:
        return 1
    if vacuous or tool_errors:
        return 2
    return 0
