// Stub environment for codegen/struct_layout.rs + codegen/helpers.rs::{blob,integer_type,bitfield_unit} + ir/layout.rs.
// Token-producing macros are made observable: the emitted type is decoded to its Rust (size, align).
#![allow(warnings)]
macro_rules! debug { ($($t:tt)*) => {} }
macro_rules! warn { ($($t:tt)*) => {} }
macro_rules! trace { ($($t:tt)*) => {} }
macro_rules! info { ($($t:tt)*) => {} }
macro_rules! format { ($($t:tt)*) => { String::new() } }
macro_rules! format_ident {
    ("__BindgenOpaqueArray{align}") => { crate::proc_macro2::Ident(align) };
    ("__BindgenOpaqueArray{}", $a:expr) => { crate::proc_macro2::Ident($a) };
}
macro_rules! quote {
    (# $vis:ident # $name:ident : # $ty:ident ,) => { crate::proc_macro2::TokenStream::Field($ty.clone()) };
    // --- shapes of the CompInfo::codegen region (kernel `driver`) ---
    (pub _address : u8 ,) => { crate::proc_macro2::TokenStream::Field(crate::syn::prim(1)) };
    (pub _bindgen_opaque_blob : # $ty:ident ,) => { crate::proc_macro2::TokenStream::Field($ty.clone()) };
    (pub bindgen_union_field : # $ty:ident ,) => { crate::proc_macro2::TokenStream::Field($ty.clone()) };
    (_unused : [u8 ; 0] ,) => { crate::proc_macro2::TokenStream::Field(crate::syn::Type { size: 0, align: 1, elems: 0, wrapped: false }) };
    (FAM : ? Sized = [ # $inner:ident ; 0 ]) => { crate::proc_macro2::TokenStream::Other };
    (# $inner:ident) => { crate::proc_macro2::TokenStream::Other };
    ([ # $ty:ident ; 0 ]) => { crate::proc_macro2::TokenStream::Other };
    (< # ( # $g:ident , ) * # $f:ident >) => { crate::proc_macro2::TokenStream::Other };
    (< # ( # $g:ident , ) * >) => { crate::proc_macro2::TokenStream::Other };
    () => { crate::proc_macro2::TokenStream::Other };
    (u64) => { crate::proc_macro2::TokenStream::AlignTy(8) };
    (u32) => { crate::proc_macro2::TokenStream::AlignTy(4) };
    (u16) => { crate::proc_macro2::TokenStream::AlignTy(2) };
    (u8) => { crate::proc_macro2::TokenStream::AlignTy(1) };
    (pub _bindgen_align : [ # $t:ident ; 0 ] ,) => { match $t { crate::proc_macro2::TokenStream::AlignTy(a) => crate::proc_macro2::TokenStream::AlignField(a), _ => crate::proc_macro2::TokenStream::Other } };
    (# [repr (align (# $e:ident))]) => { crate::proc_macro2::TokenStream::ReprAlign($e) };
    // the allocation-unit constructor of BitfieldUnit::codegen (layout kernel, harness unit_*): not looked at
    (# [inline] $($t:tt)*) => { crate::proc_macro2::TokenStream::Other };
}
pub mod proc_macro2 {
    #[derive(Debug, Clone, Copy)] pub struct Ident(pub usize);
    #[derive(Debug, Clone, Copy)] pub struct Span;
    impl Span { pub fn call_site() -> Span { Span } }
    impl Ident { pub fn new(_: &str, _: Span) -> Ident { Ident(0) } }
    #[derive(Debug, Clone, Copy)] pub enum TokenStream { Field(crate::syn::Type), Member(usize), AlignTy(usize), AlignField(usize), Repr(usize), ReprAlign(usize), Other }
}
pub mod syn {
    /// Rust layout of the emitted type. `elems`: 0 = scalar/opaque wrapper, n = plain array of n elements
    #[derive(Debug, Clone, Copy, PartialEq, Eq)]
    pub struct Type { pub size: usize, pub align: usize, pub elems: usize, pub wrapped: bool }
    pub const fn prim(n: usize) -> Type { Type { size: n, align: n, elems: 0, wrapped: false } }
    pub fn up(x: usize, a: usize) -> usize { (x + a - 1) / a * a }
    /// `Ident(n)`: n = the alignment baked into the name __BindgenOpaqueArray<n> (0 = another wrapper such as __BindgenBitfieldUnit, align 1)
    pub fn opaque(id: crate::proc_macro2::Ident, size: usize) -> Type {
        let a = if id.0 == 0 { 1 } else { id.0 };
        Type { size: up(size, a), align: a, elems: size, wrapped: true }
    }
    macro_rules! parse_quote {
        (u128) => { crate::syn::prim(16) };
        (u64) => { crate::syn::prim(8) };
        (u32) => { crate::syn::prim(4) };
        (u16) => { crate::syn::prim(2) };
        (u8) => { crate::syn::prim(1) };
        ([ # $ty:ident ; # $len:ident ]) => { crate::syn::Type { size: $ty.size * $len, align: $ty.align, elems: $len, wrapped: false } };
        (root :: __BindgenOpaqueArray < [ # $ty:ident ; # $len:ident ] >) => { crate::syn::Type { size: $ty.size * $len, align: $ty.align, elems: $len, wrapped: true } };
        (__BindgenOpaqueArray < [ # $ty:ident ; # $len:ident ] >) => { crate::syn::Type { size: $ty.size * $len, align: $ty.align, elems: $len, wrapped: true } };
        // #[repr(C, align(N))] pub struct __BindgenOpaqueArrayN<T>(pub T): size rounds up to N
        (root :: # $id:ident < [ u8 ; # $size:ident ] >) => { crate::syn::opaque($id, $size) };
        (# $id:ident < [ u8 ; # $size:ident ] >) => { crate::syn::opaque($id, $size) };
        (root :: # $t:ident) => { $t };
    }
    pub(crate) use parse_quote;
}
use proc_macro2::{Ident, Span};
use std::cmp;
#[derive(Debug, Clone, Copy, PartialEq, Eq, PartialOrd, Ord)]
pub enum FieldVisibilityKind { Private, PublicCrate, Public }
#[derive(Debug, Clone, Copy)] pub struct Vis;
pub fn access_specifier(_: FieldVisibilityKind) -> Vis { Vis }
#[derive(Debug)] pub struct Options { pub force_explicit_padding: bool, pub enable_cxx_namespaces: bool, pub flexarray_dst: bool }
#[derive(Debug)] pub struct BindgenContext { pub opts: Options, pub ptr_size: usize }
impl BindgenContext {
    pub fn options(&self) -> &Options { &self.opts }
    pub fn target_pointer_size(&self) -> usize { self.ptr_size }
    pub fn resolve_type(&self, t: &'static Type) -> &'static Type { t }
    pub fn generated_opaque_array(&self, _: usize) {}
}
#[derive(Debug)] pub struct CompInfo { pub union_: bool, pub rust_union: (bool, bool) }
impl CompInfo {
    pub fn is_union(&self) -> bool { self.union_ }
    pub fn is_rust_union(&self, _: &BindgenContext, _: Option<&Layout>, _: &str) -> (bool, bool) { self.rust_union }
}
#[derive(Debug)] pub enum TypeKind { Int, Comp, Array(&'static Type, usize) }
#[derive(Debug)] pub struct Type { pub layout: Option<Layout>, pub kind: TypeKind }
impl Type {
    pub fn layout(&self, _: &BindgenContext) -> Option<Layout> { self.layout }
    pub fn canonical_type(&self, _: &BindgenContext) -> &Type { self }
    pub fn kind(&self) -> &TypeKind { &self.kind }
}
