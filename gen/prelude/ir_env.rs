// Stub IR for the fix-point analyses and the traversal (C07-C10).
// Same type / variant / method NAMES as bindgen's IR, array-backed, flags instead of computed predicates.
// The real `impl Trace for ..` blocks, ir/analysis/*.rs and ir/traversal.rs are compiled against it unchanged.
#![allow(warnings)]
macro_rules! trace { ($($t:tt)*) => { () } }
macro_rules! debug { ($($t:tt)*) => { () } }
macro_rules! warn { ($($t:tt)*) => { () } }
macro_rules! extra_assert { ($($t:tt)*) => {} }

pub const NI: usize = /*NI*/;       // item 0 = root module; 1..NI-1 = items

#[derive(Copy, Clone, Debug, PartialEq, Eq, PartialOrd, Ord, Hash, Default)]
pub struct ItemId(pub usize);
#[derive(Copy, Clone, Debug, PartialEq, Eq, PartialOrd, Ord, Hash, Default)]
pub struct TypeId(pub ItemId);
impl From<TypeId> for ItemId { fn from(t: TypeId) -> ItemId { t.0 } }
impl From<&TypeId> for ItemId { fn from(t: &TypeId) -> ItemId { t.0 } }
#[derive(Copy, Clone, Debug, PartialEq, Eq, Default)] pub struct FunctionId(pub ItemId);
impl From<FunctionId> for ItemId { fn from(t: FunctionId) -> ItemId { t.0 } }
impl From<&FunctionId> for ItemId { fn from(t: &FunctionId) -> ItemId { t.0 } }
#[derive(Copy, Clone, Debug, PartialEq, Eq, Default)] pub struct VarId(pub ItemId);
impl From<VarId> for ItemId { fn from(t: VarId) -> ItemId { t.0 } }
impl TypeId {
    pub fn has_vtable_ptr(&self, ctx: &BindgenContext) -> bool { ctx.items[(self.0).0].fl.vtable_ptr }
    pub fn is_opaque(&self, ctx: &BindgenContext, _: &()) -> bool { ctx.items[(self.0).0].fl.opaque }
}
impl ItemId {
    pub fn expect_type_id(self, _: &BindgenContext) -> TypeId { TypeId(self) }
    pub fn as_type_id(self, ctx: &BindgenContext) -> Option<TypeId> { match ctx.items[self.0].kind { ItemKind::Type(_) => Some(TypeId(self)), _ => None } }
}

// ---- containers -------------------------------------------------------------
pub const CAP: usize = /*CAP*/;
pub const IC: usize = /*IC*/;    // capacity of CompInfo's inner_types / inner_vars / methods / constructors lists
#[derive(Clone, Debug)]
pub struct Vec<T> { pub buf: [Option<T>; CAP], pub len: usize }
macro_rules! vec { () => { Vec::new() }; ($x:expr) => { { let mut v = Vec::new(); v.push($x); v } } }
impl<T: Copy> Vec<T> {
    pub fn new() -> Self { Vec { buf: [None; CAP], len: 0 } }
    pub fn push(&mut self, t: T) { assert!(self.len < CAP, "stub Vec capacity"); self.buf[self.len] = Some(t); self.len += 1; }
    pub fn pop(&mut self) -> Option<T> { if self.len == 0 { None } else { self.len -= 1; self.buf[self.len] } }
    pub fn len(&self) -> usize { self.len }
    pub fn is_empty(&self) -> bool { self.len == 0 }
    pub fn iter(&self) -> VecIter<'_, T> { VecIter { v: self, i: 0 } }
    pub fn contains(&self, x: &T) -> bool where T: PartialEq { let mut i = 0; let mut r = false; while i < CAP { if i < self.len && self.buf[i].as_ref() == Some(x) { r = true; } i += 1; } r }
}
impl<T: Copy> Default for Vec<T> { fn default() -> Self { Vec::new() } }
pub struct VecIter<'a, T> { v: &'a Vec<T>, i: usize }
impl<'a, T> Iterator for VecIter<'a, T> { type Item = &'a T; fn next(&mut self) -> Option<&'a T> { if self.i >= CAP { return None; } let k = self.i; self.i += 1; if k < self.v.len { self.v.buf[k].as_ref() } else { None } } }
impl<'a, T> IntoIterator for &'a Vec<T> { type Item = &'a T; type IntoIter = VecIter<'a, T>; fn into_iter(self) -> Self::IntoIter { VecIter { v: self, i: 0 } } }
pub struct VecIntoIter<T> { v: Vec<T>, i: usize }
impl<T: Copy> Iterator for VecIntoIter<T> { type Item = T; fn next(&mut self) -> Option<T> { if self.i >= CAP { return None; } let k = self.i; self.i += 1; if k < self.v.len { self.v.buf[k] } else { None } } }
impl<T: Copy> IntoIterator for Vec<T> { type Item = T; type IntoIter = VecIntoIter<T>; fn into_iter(self) -> Self::IntoIter { VecIntoIter { v: self, i: 0 } } }
impl<T: Copy> core::iter::FromIterator<T> for Vec<T> { fn from_iter<I: IntoIterator<Item = T>>(it: I) -> Self { let mut v = Vec::new(); for x in it { v.push(x); } v } }
impl<T: Copy> Extend<T> for Vec<T> { fn extend<I: IntoIterator<Item = T>>(&mut self, it: I) { for x in it { self.push(x); } } }

pub trait Key: Copy { fn idx(&self) -> usize; fn from_idx(i: usize) -> Self; }
impl Key for ItemId { fn idx(&self) -> usize { self.0 } fn from_idx(i: usize) -> Self { ItemId(i) } }
impl Key for TypeId { fn idx(&self) -> usize { (self.0).0 } fn from_idx(i: usize) -> Self { TypeId(ItemId(i)) } }
#[derive(Clone, Debug)]
pub struct HashSet<K> { pub present: [bool; NI], _k: core::marker::PhantomData<K> }
impl<K: Key> Default for HashSet<K> { fn default() -> Self { HashSet { present: [false; NI], _k: core::marker::PhantomData } } }
impl<K: Key> HashSet<K> {
    pub fn insert(&mut self, k: K) -> bool { let was = self.present[k.idx()]; self.present[k.idx()] = true; !was }
    pub fn contains(&self, k: &K) -> bool { self.present[k.idx()] }
}
#[derive(Clone, Debug)]
pub struct HashMap<K, V> { pub vals: [Option<V>; NI], _k: core::marker::PhantomData<K> }
impl<K: Key, V> Default for HashMap<K, V> { fn default() -> Self { HashMap { vals: core::array::from_fn(|_| None), _k: core::marker::PhantomData } } }
pub struct OccupiedEntry<'a, V> { slot: &'a mut Option<V> }
pub struct VacantEntry<'a, V> { slot: &'a mut Option<V> }
pub enum Entry<'a, V> { Occupied(OccupiedEntry<'a, V>), Vacant(VacantEntry<'a, V>) }
impl<'a, V> OccupiedEntry<'a, V> {
    pub fn get(&self) -> &V { self.slot.as_ref().unwrap() }
    pub fn get_mut(&mut self) -> &mut V { self.slot.as_mut().unwrap() }
    pub fn insert(&mut self, v: V) -> V { self.slot.replace(v).unwrap() }
}
impl<'a, V> VacantEntry<'a, V> { pub fn insert(self, v: V) -> &'a mut V { *self.slot = Some(v); self.slot.as_mut().unwrap() } }
impl<'a, V> Entry<'a, V> {
    pub fn or_insert_with<F: FnOnce() -> V>(self, f: F) -> &'a mut V { match self { Entry::Occupied(o) => o.slot.as_mut().unwrap(), Entry::Vacant(v) => v.insert(f()) } }
    pub fn or_default(self) -> &'a mut V where V: Default { self.or_insert_with(V::default) }
}
impl<K: Key, V> HashMap<K, V> {
    pub fn entry(&mut self, k: K) -> Entry<'_, V> { let slot = &mut self.vals[k.idx()]; if slot.is_some() { Entry::Occupied(OccupiedEntry { slot }) } else { Entry::Vacant(VacantEntry { slot }) } }
    pub fn get(&self, k: &K) -> Option<&V> { self.vals[k.idx()].as_ref() }
    pub fn contains_key(&self, k: &K) -> bool { self.vals[k.idx()].is_some() }
    pub fn insert(&mut self, k: K, v: V) -> Option<V> { self.vals[k.idx()].replace(v) }
}
pub struct MapIntoIter<K, V> { m: HashMap<K, V>, i: usize }
impl<K: Key, V> Iterator for MapIntoIter<K, V> { type Item = (K, V); fn next(&mut self) -> Option<(K, V)> { while self.i < NI { let k = self.i; self.i += 1; if let Some(v) = self.m.vals[k].take() { return Some((K::from_idx(k), v)); } } None } }
impl<K: Key, V> IntoIterator for HashMap<K, V> { type Item = (K, V); type IntoIter = MapIntoIter<K, V>; fn into_iter(self) -> Self::IntoIter { MapIntoIter { m: self, i: 0 } } }
impl<K: Key, V> core::iter::FromIterator<(K, V)> for HashMap<K, V> { fn from_iter<I: IntoIterator<Item = (K, V)>>(it: I) -> Self { let mut m = HashMap::default(); for (k, v) in it { m.vals[k.idx()] = Some(v); } m } }
/// `ItemSet` (a BTreeSet<ItemId> in bindgen): membership array, ascending iteration with a concrete counter
#[derive(Clone, Debug)]
pub struct ItemSet { pub present: [bool; NI] }
/// iteration: the present ids are compacted once (one loop over NI), then `next` is loop-free
pub struct ItemSetIter<'a> { s: &'a ItemSet, pos: usize, n: usize, ids: [ItemId; NI] }
impl ItemSet {
    pub fn new() -> Self { ItemSet { present: [false; NI] } }
    pub fn all() -> Self { ItemSet { present: [true; NI] } }
    pub fn contains(&self, k: &ItemId) -> bool { self.present[k.0] }
    pub fn insert(&mut self, k: ItemId) -> bool { let was = self.present[k.0]; self.present[k.0] = true; !was }
    pub fn iter(&self) -> ItemSetIter<'_> { let mut ids = [ItemId(0); NI]; let mut n = 0; let mut k = 0; while k < NI { if self.present[k] { ids[n] = ItemId(k); n += 1; } k += 1; } ItemSetIter { s: self, pos: 0, n, ids } }
}
impl<'a> Iterator for ItemSetIter<'a> { type Item = &'a ItemId; fn next(&mut self) -> Option<&'a ItemId> {
    if self.pos < self.n { let k = self.pos; self.pos += 1; Some(unsafe { &*(&self.ids[k] as *const ItemId) }) } else { None } } }
impl<'a> IntoIterator for &'a ItemSet { type Item = &'a ItemId; type IntoIter = ItemSetIter<'a>; fn into_iter(self) -> Self::IntoIter { self.iter() } }

#[derive(Clone, Debug)]
pub struct List<T, const K: usize> { pub a: [T; K], pub n: usize }
pub struct ListIter<'a, T, const K: usize> { l: &'a List<T, K>, i: usize }
impl<'a, T, const K: usize> Iterator for ListIter<'a, T, K> { type Item = &'a T; fn next(&mut self) -> Option<&'a T> { if self.i >= K { return None; } let k = self.i; self.i += 1; if k < self.l.n { Some(&self.l.a[k]) } else { None } } }
impl<T, const K: usize> List<T, K> {
    pub fn iter(&self) -> ListIter<'_, T, K> { ListIter { l: self, i: 0 } }
    pub fn is_empty(&self) -> bool { self.n == 0 }
    pub fn len(&self) -> usize { self.n }
}
pub struct ListIntoIter<T, const K: usize> { l: List<T, K>, i: usize }
impl<T: Copy, const K: usize> Iterator for ListIntoIter<T, K> { type Item = T; fn next(&mut self) -> Option<T> { if self.i >= K { return None; } let k = self.i; self.i += 1; if k < self.l.n { Some(self.l.a[k]) } else { None } } }
impl<T: Copy, const K: usize> IntoIterator for List<T, K> { type Item = T; type IntoIter = ListIntoIter<T, K>; fn into_iter(self) -> Self::IntoIter { ListIntoIter { l: self, i: 0 } } }
impl<'a, T, const K: usize> IntoIterator for &'a List<T, K> { type Item = &'a T; type IntoIter = ListIter<'a, T, K>; fn into_iter(self) -> Self::IntoIter { self.iter() } }

// ---- IR -----------------------------------------------------------------------
#[derive(Clone, Copy, Debug, PartialEq, Eq, Default)] pub struct Layout { pub size: usize, pub align: usize }
pub const RUST_DERIVE_IN_ARRAY_LIMIT: usize = /*ARRAY_LIMIT*/;
pub const RUST_DERIVE_FUNPTR_LIMIT: usize = /*FUNPTR_LIMIT*/;

#[derive(Clone, Debug)] pub struct Base { pub ty: TypeId, pub virt: bool }
impl Base { pub fn is_virtual(&self) -> bool { self.virt } }
#[derive(Clone, Debug)] pub struct FieldData { pub ty: TypeId }
pub trait FieldMethods { fn ty(&self) -> TypeId; }
impl FieldMethods for FieldData { fn ty(&self) -> TypeId { self.ty } }
#[derive(Clone, Debug)] pub struct Bitfield { pub ty: TypeId }
impl FieldMethods for Bitfield { fn ty(&self) -> TypeId { self.ty } }
#[derive(Clone, Debug)] pub struct BitfieldUnit { pub bitfields: List<Bitfield, 1> }
impl BitfieldUnit { pub fn bitfields(&self) -> &List<Bitfield, 1> { &self.bitfields } }
#[derive(Clone, Debug)] pub enum Field { DataMember(FieldData), Bitfields(BitfieldUnit) }
#[derive(Clone, Debug)] pub struct RawField(pub FieldData);
impl FieldMethods for RawField { fn ty(&self) -> TypeId { self.0.ty } }
pub type FieldList = List<Field, 2>;
pub type RawFieldList = List<RawField, 1>;
#[derive(Clone, Debug)] pub enum CompFields { Before(RawFieldList), After { fields: FieldList, has_bitfield_units: bool }, Error }
#[derive(Clone, Copy, Debug, PartialEq, Eq)] pub enum CompKind { Struct, Union }
#[derive(Clone, Debug)] pub struct Method { pub signature: FunctionId }
impl Method { pub fn signature(&self) -> FunctionId { self.signature } }
#[derive(Clone, Debug)] pub struct CompInfo {
    pub fields: CompFields, pub bases: List<Base, 1>, pub kind: CompKind,
    pub own_dtor: bool, pub own_virtual: bool, pub fwd: bool, pub non_type_tparams: bool, pub big_bitfield_unit: bool, pub self_tparams: usize,
    pub inner_types: List<TypeId, IC>, pub inner_vars: List<VarId, IC>, pub methods: List<Method, IC>, pub ctors: List<FunctionId, IC>, pub dtor: Option<FunctionId>,
    pub e_fields: FieldList,
}
impl CompInfo {
    pub fn base_members(&self) -> &List<Base, 1> { &self.bases }
    pub fn kind(&self) -> CompKind { self.kind }
    pub fn has_own_destructor(&self) -> bool { self.own_dtor }
    pub fn has_own_virtual_method(&self) -> bool { self.own_virtual }
    pub fn is_forward_declaration(&self) -> bool { self.fwd }
    pub fn has_non_type_template_params(&self) -> bool { self.non_type_tparams }
    pub fn has_too_large_bitfield_unit(&self) -> bool { self.big_bitfield_unit }
    pub fn self_template_params(&self, _: &BindgenContext) -> List<TypeId, 1> { List { a: [TypeId(ItemId(0))], n: self.self_tparams } }
    pub fn fields(&self) -> &FieldList { match &self.fields { CompFields::After { fields, .. } => fields, _ => &self.e_fields } }
    pub fn inner_types(&self) -> &List<TypeId, IC> { &self.inner_types }
    pub fn inner_vars(&self) -> &List<VarId, IC> { &self.inner_vars }
    pub fn methods(&self) -> &List<Method, IC> { &self.methods }
    pub fn destructor(&self) -> Option<(u8, FunctionId)> { self.dtor.map(|d| (0u8, d)) }
    pub fn constructors(&self) -> &List<FunctionId, IC> { &self.ctors }
}
#[derive(Clone, Debug)] pub struct TemplateInstantiation { pub definition: TypeId, pub args: List<TypeId, 1> }
impl TemplateInstantiation {
    pub fn template_definition(&self) -> TypeId { self.definition }
    pub fn template_arguments(&self) -> &List<TypeId, 1> { &self.args }
}
/*ABI_ENUM*/
#[derive(Debug, Copy, Clone, PartialEq)] pub enum ClangAbi { Known(Abi), Unknown(u32) }
#[derive(Clone, Debug)] pub struct ArgList { pub a: [(Option<u8>, TypeId); 1], pub n: usize, pub declared_len: usize }
impl ArgList { pub fn iter(&self) -> ArgIter<'_> { ArgIter { l: self, i: 0 } } pub fn len(&self) -> usize { self.declared_len } pub fn is_empty(&self) -> bool { self.declared_len == 0 } }
pub struct ArgIter<'a> { l: &'a ArgList, i: usize }
impl<'a> Iterator for ArgIter<'a> { type Item = &'a (Option<u8>, TypeId); fn next(&mut self) -> Option<Self::Item> { if self.i >= 1 { return None; } let k = self.i; self.i += 1; if k < self.l.n { Some(&self.l.a[k]) } else { None } } }
impl<'a> IntoIterator for &'a ArgList { type Item = &'a (Option<u8>, TypeId); type IntoIter = ArgIter<'a>; fn into_iter(self) -> ArgIter<'a> { self.iter() } }
/// `argument_types.len()` may exceed the one traced slot (only the COUNT matters to the 12-argument rule)
#[derive(Clone, Debug)] pub struct FunctionSig { pub return_type: TypeId, pub argument_types: ArgList, pub abi: ClangAbi }
impl FunctionSig {
    pub fn return_type(&self) -> TypeId { self.return_type }
    pub fn argument_types(&self) -> &ArgList { &self.argument_types }
    /*FUNPTR_CAN_DERIVE*/
}
#[derive(Clone, Debug)] pub struct Enum { pub repr: Option<TypeId> }
impl Enum { pub fn repr(&self) -> Option<TypeId> { self.repr } }
#[derive(Clone, Debug)] pub struct ObjCInterface;
impl Trace for ObjCInterface { type Extra = (); fn trace<T: Tracer>(&self, _: &BindgenContext, _: &mut T, _: &()) {} }
pub type TParams = List<TypeId, 1>;

#[derive(Clone, Debug)]
pub enum TypeKind {
    Void, NullPtr, Comp(CompInfo), Opaque, Int(u8), Float(u8), Complex(u8), Alias(TypeId),
    TemplateAlias(TypeId, TParams), Vector(TypeId, usize), Array(TypeId, usize), Function(FunctionSig),
    Enum(Enum), Pointer(TypeId), BlockPointer(TypeId), Reference(TypeId), TemplateInstantiation(TemplateInstantiation),
    UnresolvedTypeRef(u8, u8, Option<ItemId>), ResolvedTypeRef(TypeId), TypeParam, ObjCInterface(ObjCInterface), ObjCId, ObjCSel,
}
#[derive(Clone, Debug)] pub struct Type { pub kind: TypeKind, pub layout: Option<Layout>, pub named: bool }
impl Type {
    pub fn kind(&self) -> &TypeKind { &self.kind }
    pub fn name(&self) -> Option<&str> { if self.named { Some("n") } else { None } }
    pub fn layout(&self, _: &BindgenContext) -> Option<Layout> { self.layout }
    pub fn is_union(&self) -> bool { matches!(&self.kind, TypeKind::Comp(c) if c.kind == CompKind::Union) }
    // further predicates of the real Type (ir/ty.rs), so that a rule that starts consulting one is decided rather than failing to compile
    pub fn is_comp(&self) -> bool { matches!(self.kind, TypeKind::Comp(..)) }
    pub fn is_function(&self) -> bool { matches!(self.kind, TypeKind::Function(..)) }
    pub fn is_enum(&self) -> bool { matches!(self.kind, TypeKind::Enum(..)) }
    pub fn is_void(&self) -> bool { matches!(self.kind, TypeKind::Void) }
    pub fn is_int(&self) -> bool { matches!(self.kind, TypeKind::Int(..)) }
    pub fn is_float(&self) -> bool { matches!(self.kind, TypeKind::Float(..)) }
    pub fn is_type_param(&self) -> bool { matches!(self.kind, TypeKind::TypeParam) }
    pub fn is_template_instantiation(&self) -> bool { matches!(self.kind, TypeKind::TemplateInstantiation(..)) }
    pub fn is_opaque_kind(&self) -> bool { matches!(self.kind, TypeKind::Opaque) }
    /// real one follows Alias/ResolvedTypeRef/TemplateAlias/TemplateInstantiation chains; one level is enough for the stub graph (children are leaves)
    pub fn canonical_type<'a>(&'a self, ctx: &'a BindgenContext) -> &'a Type {
        match self.kind { TypeKind::Alias(t) | TypeKind::ResolvedTypeRef(t) | TypeKind::TemplateAlias(t, _) => ctx.resolve_type(t), _ => self }
    }
}
#[derive(Clone, Debug)] pub struct Function { pub sig: TypeId }
impl Function { pub fn signature(&self) -> TypeId { self.sig } }
#[derive(Clone, Debug)] pub struct Var { pub ty: TypeId }
impl Var { pub fn ty(&self) -> TypeId { self.ty } }
#[derive(Clone, Debug)] pub struct Module { pub children: ItemSet }
impl Module { pub fn children(&self) -> &ItemSet { &self.children } }
#[derive(Clone, Debug)] pub enum ItemKind { Module(Module), Type(Type), Function(Function), Var(Var) }
impl ItemKind { pub fn is_module(&self) -> bool { matches!(self, ItemKind::Module(_)) } }
/// per-item flags standing for predicates the real code computes from names / annotations / options
#[derive(Clone, Debug, Default)] pub struct Flags { pub opaque: bool, pub no_copy: bool, pub no_debug: bool, pub no_default: bool, pub no_hash: bool, pub no_partialeq: bool, pub vtable: bool, pub vtable_ptr: bool, pub tparams: usize, pub blocklisted: bool, pub stdint_name: bool, pub named: bool }
#[derive(Clone, Debug)] pub struct Item { pub id: ItemId, pub kind: ItemKind, pub fl: Flags }
pub trait IsOpaque { type Extra; fn is_opaque(&self, ctx: &BindgenContext, extra: &Self::Extra) -> bool; }
impl IsOpaque for Item { type Extra = (); fn is_opaque(&self, _: &BindgenContext, _: &()) -> bool { self.fl.opaque } }
impl Item {
    pub fn id(&self) -> ItemId { self.id }
    pub fn kind(&self) -> &ItemKind { &self.kind }
    pub fn as_type(&self) -> Option<&Type> { match &self.kind { ItemKind::Type(t) => Some(t), _ => None } }
    pub fn expect_type(&self) -> &Type { self.as_type().unwrap() }
    pub fn all_template_params(&self, _: &BindgenContext) -> List<TypeId, 1> { List { a: [TypeId(ItemId(0))], n: self.fl.tparams } }
    pub fn has_vtable(&self, _: &BindgenContext) -> bool { self.fl.vtable }
    pub fn is_blocklisted(&self, _: &BindgenContext) -> bool { self.fl.blocklisted }
    pub fn is_enabled_for_codegen(&self, ctx: &BindgenContext) -> bool { let cc = &ctx.options().codegen_config; match self.kind { ItemKind::Module(..) => true, ItemKind::Var(_) => cc.vars(), ItemKind::Type(_) => cc.types(), ItemKind::Function(_) => cc.functions() } }
}
/// user callbacks: `n` installed callbacks; the last one answers `answer` (None = not overridden)
#[derive(Debug, Default)] pub struct Callbacks { pub n: usize }
impl Callbacks { pub fn is_empty(&self) -> bool { self.n == 0 } }
#[derive(Debug, Default)] pub struct Callback { pub answer: Option<CanDerive> }
impl Callback { pub fn blocklisted_type_implements_trait(&self, _name: &str, _t: DeriveTrait) -> Option<CanDerive> { self.answer } }
#[derive(Debug, Default, Clone, Copy)] pub struct CodegenConfig { pub bits: u8 }
impl CodegenConfig {
    pub fn functions(self) -> bool { self.bits & 1 != 0 } pub fn types(self) -> bool { self.bits & 2 != 0 } pub fn vars(self) -> bool { self.bits & 4 != 0 }
    pub fn methods(self) -> bool { self.bits & 8 != 0 } pub fn constructors(self) -> bool { self.bits & 16 != 0 } pub fn destructors(self) -> bool { self.bits & 32 != 0 }
}
#[derive(Debug, Default)] pub struct Options { pub untagged_union: bool, pub parse_callbacks: Callbacks, pub last: Callback, pub codegen_config: CodegenConfig }
impl Options { pub fn last_callback<T>(&self, f: impl Fn(&Callback) -> Option<T>) -> Option<T> { if self.parse_callbacks.n == 0 { None } else { f(&self.last) } } }
#[derive(Debug)]
pub struct BindgenContext { pub items: [Item; NI], pub allow: ItemSet, pub options: Options, pub has_dtor: [bool; NI], pub stdint_answer: bool }
impl BindgenContext {
    pub fn resolve_item<Id: Into<ItemId>>(&self, id: Id) -> &Item { &self.items[id.into().0] }
    pub fn resolve_item_fallible<Id: Into<ItemId>>(&self, id: Id) -> Option<&Item> { let i = id.into().0; if i < NI { Some(&self.items[i]) } else { None } }
    pub fn resolve_type(&self, id: TypeId) -> &Type { self.items[(id.0).0].as_type().unwrap() }
    pub fn allowlisted_items(&self) -> &ItemSet { &self.allow }
    pub fn options(&self) -> &Options { &self.options }
    pub fn is_stdint_type(&self, _: &str) -> bool { self.stdint_answer }
    /// real decision closure of BindgenContext::blocklisted_type_implements_trait (ir/context.rs), memoisation removed
    pub fn blocklisted_type_implements_trait(&self, item: &Item, derive_trait: DeriveTrait) -> CanDerive {
        /*BLOCKLISTED_IMPL*/
    }
    pub fn lookup_has_destructor(&self, id: TypeId) -> bool { self.has_dtor[(id.0).0] }
    pub fn no_copy_by_name(&self, i: &Item) -> bool { i.fl.no_copy }
    pub fn no_debug_by_name(&self, i: &Item) -> bool { i.fl.no_debug }
    pub fn no_default_by_name(&self, i: &Item) -> bool { i.fl.no_default }
    pub fn no_hash_by_name(&self, i: &Item) -> bool { i.fl.no_hash }
    pub fn no_partialeq_by_name(&self, i: &Item) -> bool { i.fl.no_partialeq }
}
