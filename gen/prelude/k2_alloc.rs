// Stub environment for ir/comp.rs::bitfields_to_allocation_units (C03 K2).
#![allow(warnings)]
use std::cmp;
pub const K: usize = /*K*/;
macro_rules! vec { () => { Vec::new() } }
#[derive(Clone, Debug)]
pub struct Vec<T> { pub buf: [Option<T>; K], pub len: usize }
impl<T: Copy> Vec<T> {
    pub fn new() -> Self { Vec { buf: [None; K], len: 0 } }
    pub fn push(&mut self, t: T) { assert!(self.len < K); self.buf[self.len] = Some(t); self.len += 1; }
}
#[derive(Debug)] pub struct BindgenContext;
pub mod syn { #[derive(Debug, Clone, Copy)] pub struct Type(pub usize); macro_rules! parse_quote { (u128) => { crate::syn::Type(16) }; (u64) => { crate::syn::Type(8) }; (u32) => { crate::syn::Type(4) }; (u16) => { crate::syn::Type(2) }; (u8) => { crate::syn::Type(1) }; } pub(crate) use parse_quote; }
impl BindgenContext {
    pub fn target_pointer_size(&self) -> usize { 8 }
    pub fn collected_typerefs(&self) -> bool { true }
    pub fn resolve_type(&self, t: TypeId) -> Type { Type { layout: t.0 } }
}
#[derive(Clone, Copy, Debug)] pub struct TypeId(pub Option<Layout>);
#[derive(Clone, Copy, Debug)] pub struct Type { pub layout: Option<Layout> }
impl Type { pub fn layout(&self, _: &BindgenContext) -> Option<Layout> { self.layout } }
#[derive(Clone, Copy, Debug)] pub struct RawField { pub width: u32, pub ty: TypeId, pub offset: Option<usize>, pub named: bool }
impl RawField {
    pub fn bitfield_width(&self) -> Option<u32> { Some(self.width) }
    pub fn ty(&self) -> TypeId { self.ty }
    pub fn offset(&self) -> Option<usize> { self.offset }
    pub fn name(&self) -> Option<&str> { if self.named { Some("f") } else { None } }
}
#[derive(Clone, Copy, Debug)] pub struct Bitfield { pub offset_into_unit: usize, pub raw: RawField }
impl Bitfield { pub fn new(offset_into_unit: usize, raw: RawField) -> Bitfield { Bitfield { offset_into_unit, raw } } }
#[derive(Clone, Debug)] pub struct BitfieldUnit { pub nth: usize, pub layout: Layout, pub bitfields: Vec<Bitfield> }
#[derive(Clone, Debug)] pub enum Field { Bitfields(BitfieldUnit) }
pub struct Out { pub units: [Option<BitfieldUnit>; 2], pub n: usize }
impl Extend<Field> for Out { fn extend<I: IntoIterator<Item = Field>>(&mut self, it: I) { for f in it { let Field::Bitfields(u) = f; assert!(self.n < 2); self.units[self.n] = Some(u); self.n += 1; } } }
pub struct In { pub a: [RawField; K], pub n: usize, pub i: usize }
impl Iterator for In { type Item = RawField; fn next(&mut self) -> Option<RawField> { if self.i >= K { return None; } let k = self.i; self.i += 1; if k < self.n { Some(self.a[k]) } else { None } } }
// Layout (ir/layout.rs) is spliced below; its const fn `for_size` family needs nothing else.
