// Stub of the slice of `syn` that the two post-processing passes touch: same
// variant and field names, fixed-capacity Vec with concrete-counter iterators.
#![allow(warnings)]
pub const CAP: usize = /*CAP*/;
#[derive(Clone, Copy, Debug, PartialEq, Eq, Default)] pub struct ForeignItem(pub u8);
#[derive(Clone, Copy, Debug, PartialEq, Eq, Default)] pub struct Tok;
#[derive(Clone, Copy, Debug, PartialEq, Eq, Default)]
pub struct ItemForeignMod { pub attrs: u8, pub abi: u8, pub brace_token: Tok, pub unsafety: bool, pub items: Vec<ForeignItem> }
#[derive(Clone, Copy, Debug, PartialEq, Eq)]
pub enum Item { Type(u8), Struct(u8), Const(u8), Fn(u8), Enum(u8), Union(u8), Static(u8), Trait(u8), TraitAlias(u8), Impl(u8), Mod(u8), Use(u8), Verbatim(u8), ExternCrate(u8), ForeignMod(ItemForeignMod), Macro(u8), Other(u8) }
impl Default for Item { fn default() -> Self { Item::Other(0) } }
#[derive(Clone, Copy, Debug, PartialEq, Eq)]
pub struct Vec<T> { pub buf: [T; CAP], pub len: usize }
impl<T: Copy + Default> Default for Vec<T> { fn default() -> Self { Vec { buf: [T::default(); CAP], len: 0 } } }
impl<T: Copy + Default> Vec<T> {
    pub fn new() -> Self { Self::default() }
    pub fn push(&mut self, t: T) { assert!(self.len < CAP, "stub Vec capacity"); self.buf[self.len] = t; self.len += 1; }
    pub fn extend_from_slice(&mut self, s: &Vec<T>) { let mut i = 0; while i < CAP { if i < s.len { self.push(s.buf[i]); } i += 1; } }
    pub fn as_mut_slice(&mut self) -> &mut [T] { let n = self.len; &mut self.buf[..n] }
}
pub struct IntoIt<T> { v: Vec<T>, i: usize }
impl<T: Copy> Iterator for IntoIt<T> { type Item = T; fn next(&mut self) -> Option<T> { if self.i >= CAP { return None; } let k = self.i; self.i += 1; if k < self.v.len { Some(self.v.buf[k]) } else { None } } }
impl<T: Copy> IntoIterator for Vec<T> { type Item = T; type IntoIter = IntoIt<T>; fn into_iter(self) -> IntoIt<T> { IntoIt { v: self, i: 0 } } }
pub struct MutIt<'a, T> { v: *mut Vec<T>, i: usize, _p: core::marker::PhantomData<&'a mut T> }
impl<'a, T> Iterator for MutIt<'a, T> { type Item = &'a mut T; fn next(&mut self) -> Option<&'a mut T> { if self.i >= CAP { return None; } let k = self.i; self.i += 1; unsafe { if k < (*self.v).len { Some(&mut (*self.v).buf[k]) } else { None } } } }
impl<'a, T> IntoIterator for &'a mut Vec<T> { type Item = &'a mut T; type IntoIter = MutIt<'a, T>; fn into_iter(self) -> MutIt<'a, T> { MutIt { v: self, i: 0, _p: core::marker::PhantomData } } }
