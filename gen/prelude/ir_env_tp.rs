// Additions to the stub IR for ir/analysis/template_params.rs (UsedTemplateParameters): container methods it alone uses,
// template parameter lists of a type, and the environment of the real ItemResolver (sliced from ir/context.rs).
/// ItemResolver (ir/context.rs) follows ResolvedTypeRef / Alias links in a `loop` with a cycle check; CBMC unrolls that loop to the global bound at
/// every call site (measured: half of all loop unwindings of a step harness).  Stub: the same two flags, at most two hops, straight-line -
/// enough for the 4-item graphs (X -> child -> leaf).
#[derive(Debug, Copy, Clone)] pub struct ItemResolver { id: ItemId, through_type_refs: bool, through_type_aliases: bool }
impl ItemResolver {
    pub fn through_type_refs(mut self) -> ItemResolver { self.through_type_refs = true; self }
    pub fn through_type_aliases(mut self) -> ItemResolver { self.through_type_aliases = true; self }
    fn hop(&self, ctx: &BindgenContext, id: ItemId) -> ItemId { match ctx.resolve_item(id).as_type().map(|t| t.kind()) { Some(&TypeKind::ResolvedTypeRef(n)) if self.through_type_refs => n.into(), Some(&TypeKind::Alias(n)) if self.through_type_aliases => n.into(), _ => id } }
    pub fn resolve(self, ctx: &BindgenContext) -> &Item { let a = self.hop(ctx, self.id); let b = self.hop(ctx, a); ctx.resolve_item(b) }
}
impl ItemId { pub fn into_resolver(self) -> ItemResolver { ItemResolver { id: self, through_type_refs: false, through_type_aliases: false } } }
impl TypeId { pub fn into_resolver(self) -> ItemResolver { self.0.into_resolver() } }
impl PartialEq<TypeId> for ItemId { fn eq(&self, o: &TypeId) -> bool { *self == o.0 } }
impl PartialEq<ItemId> for TypeId { fn eq(&self, o: &ItemId) -> bool { self.0 == *o } }
impl BindgenContext { pub fn collected_typerefs(&self) -> bool { true } }
impl Type {
    /// as `impl TemplateParameters for TypeKind` (ir/ty.rs): composites and template aliases declare parameters; a resolved reference forwards
    pub fn self_template_params(&self, ctx: &BindgenContext) -> TParams {
        match &self.kind {
            TypeKind::Comp(c) => List { a: [TypeId(ItemId(PARAM))], n: c.self_tparams },
            TypeKind::TemplateAlias(_, args) => args.clone(),
            TypeKind::ResolvedTypeRef(id) => match &ctx.resolve_type(*id).kind { TypeKind::Comp(c) => List { a: [TypeId(ItemId(PARAM))], n: c.self_tparams }, TypeKind::TemplateAlias(_, args) => args.clone(), _ => List { a: [TypeId(ItemId(PARAM))], n: 0 } },
            _ => List { a: [TypeId(ItemId(PARAM))], n: 0 },
        }
    }
}
impl<K: Key, V> HashMap<K, V> {
    pub fn get_mut(&mut self, k: &K) -> Option<&mut V> { self.vals[k.idx()].as_mut() }
    pub fn values(&self) -> impl Iterator<Item = &V> { self.vals.iter().filter_map(|v| v.as_ref()) }
}
impl<K: Key, V> core::ops::Index<&K> for HashMap<K, V> { type Output = V; fn index(&self, k: &K) -> &V { self.vals[k.idx()].as_ref().expect("no entry found for key") } }
pub struct HashSetIter<'a, K> { s: &'a HashSet<K>, pos: usize, n: usize, ids: [ItemId; NI] }
impl<'a> Iterator for HashSetIter<'a, ItemId> { type Item = &'a ItemId; fn next(&mut self) -> Option<&'a ItemId> { if self.pos < self.n { let k = self.pos; self.pos += 1; Some(unsafe { &*(&self.ids[k] as *const ItemId) }) } else { None } } }
impl HashSet<ItemId> { pub fn iter(&self) -> HashSetIter<'_, ItemId> { let mut ids = [ItemId(0); NI]; let mut n = 0; let mut k = 0; while k < NI { if self.present[k] { ids[n] = ItemId(k); n += 1; } k += 1; } HashSetIter { s: self, pos: 0, n, ids } } }
impl<K: Key> core::iter::FromIterator<K> for HashSet<K> { fn from_iter<I: IntoIterator<Item = K>>(it: I) -> Self { let mut s = HashSet::default(); for k in it { s.insert(k); } s } }
impl ItemSet { pub fn len(&self) -> usize { let mut n = 0; let mut i = 0; while i < NI { if self.present[i] { n += 1; } i += 1; } n } }
impl core::iter::FromIterator<ItemId> for ItemSet { fn from_iter<I: IntoIterator<Item = ItemId>>(it: I) -> Self { let mut s = ItemSet::new(); for k in it { s.insert(k); } s } }
impl<'a> Extend<&'a ItemId> for ItemSet { fn extend<I: IntoIterator<Item = &'a ItemId>>(&mut self, it: I) { for k in it { self.insert(*k); } } }
impl Extend<ItemId> for ItemSet { fn extend<I: IntoIterator<Item = ItemId>>(&mut self, it: I) { for k in it { self.insert(k); } } }
pub struct ItemSetIntoIter { pos: usize, n: usize, ids: [ItemId; NI] }
impl Iterator for ItemSetIntoIter { type Item = ItemId; fn next(&mut self) -> Option<ItemId> { if self.pos < self.n { let k = self.pos; self.pos += 1; Some(self.ids[k]) } else { None } } }
impl IntoIterator for ItemSet { type Item = ItemId; type IntoIter = ItemSetIntoIter; fn into_iter(self) -> ItemSetIntoIter { let mut ids = [ItemId(0); NI]; let mut n = 0; let mut k = 0; while k < NI { if self.present[k] { ids[n] = ItemId(k); n += 1; } k += 1; } ItemSetIntoIter { pos: 0, n, ids } } }
impl<'a> IntoIterator for &'a HashSet<ItemId> { type Item = &'a ItemId; type IntoIter = HashSetIter<'a, ItemId>; fn into_iter(self) -> Self::IntoIter { self.iter() } }
