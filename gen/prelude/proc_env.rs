// Stub environment for lib.rs Bindings::{write, rustfmt_path, format_tokens}: child process = nondeterministic script.
#![allow(warnings)]
use std::borrow::Cow;
use std::path::{Path, PathBuf};
macro_rules! eprintln { ($($t:tt)*) => {} }
macro_rules! format { ($($t:tt)*) => { String::new() } }
macro_rules! write { ($w:expr, $($t:tt)*) => { $w.write_all(b"H") } }
macro_rules! warn { ($($t:tt)*) => {} }
macro_rules! debug_assert { ($($t:tt)*) => {} }
pub mod io {
    /// io::Error as a plain value (the real one has a bit-packed representation whose drop glue and Debug impl dominate the formula;
    /// the property does not depend on what an error contains, only on where one arises)
    #[derive(Clone, Copy, PartialEq, Eq)] pub enum ErrorKind { NotFound, BrokenPipe, Other, InvalidData }
    pub struct Error(pub ErrorKind);
    impl Error { pub fn new<M>(k: ErrorKind, _: M) -> Error { Error(k) } pub fn kind(&self) -> ErrorKind { self.0 } }
    impl From<ErrorKind> for Error { fn from(k: ErrorKind) -> Error { Error(k) } }
    impl core::fmt::Debug for Error { fn fmt(&self, _: &mut core::fmt::Formatter<'_>) -> core::fmt::Result { Ok(()) } }
    pub type Result<T> = core::result::Result<T, Error>;
    pub trait Write { fn write_all(&mut self, b: &[u8]) -> Result<()>; }
    pub trait Read { fn read_byte(&mut self) -> Result<Option<u8>>; }
    impl<W: Write> Write for &mut W { fn write_all(&mut self, b: &[u8]) -> Result<()> { (**self).write_all(b) } }
    impl Write for std::vec::Vec<u8> { fn write_all(&mut self, b: &[u8]) -> Result<()> { self.extend_from_slice(b); Ok(()) } }
    /// the user's writer: fixed buffer, fails once `fail_at` bytes were accepted
    pub struct Sink { pub buf: [u8; 16], pub len: usize, pub fail_at: usize }
    impl Write for Sink { fn write_all(&mut self, b: &[u8]) -> Result<()> { let mut i = 0; while i < b.len() { if self.len >= self.fail_at { return Err(Error::from(ErrorKind::Other)); } assert!(self.len < 16); self.buf[self.len] = b[i]; self.len += 1; i += 1; } Ok(()) } }
    pub fn copy<R: Read, W: Write>(r: &mut R, w: &mut W) -> Result<u64> {
        let mut n = 0u64; let mut i = 0;
        while i < 5 { match r.read_byte()? { Some(b) => { w.write_all(&[b])?; n += 1; } None => return Ok(n) } i += 1; }
        Ok(n)
    }
}
use io::Write;
pub mod env { pub fn var(_: &str) -> Result<String, ()> { if kani_any_bool() { Ok(String::new()) } else { Err(()) } } fn kani_any_bool() -> bool { #[cfg(kani)] { kani::any() } #[cfg(not(kani))] { false } } }
pub mod time { pub struct Timer; impl Timer { pub fn new(_: &str) -> Timer { Timer } pub fn with_output(self, _: bool) -> Timer { self } } }
pub mod proc_macro2 { #[derive(Debug, Clone)] pub struct TokenStream; impl TokenStream { pub fn to_string(&self) -> String { String::from("M") } } }
pub mod syn { macro_rules! parse_quote { ($($t:tt)*) => { () } } pub(crate) use parse_quote; }
pub mod prettyplease { pub fn unparse(_: &()) -> String { String::from("P") } }
#[derive(Debug, Clone, Copy, PartialEq, Eq)] pub enum Formatter { None, Rustfmt, #[cfg(feature = "prettyplease")] Prettyplease }
#[derive(Debug, Clone, Copy)] pub struct RustEdition;
#[derive(Debug, Clone, Copy)] pub struct RustTarget; impl RustTarget { pub fn latest_edition(self) -> RustEdition { RustEdition } }
pub struct Lines { pub a: [&'static str; 2], pub n: usize }
pub struct LinesIter<'a> { l: &'a Lines, i: usize }
impl<'a> Iterator for LinesIter<'a> { type Item = &'a &'static str; fn next(&mut self) -> Option<Self::Item> { if self.i >= 2 { return None; } let k = self.i; self.i += 1; if k < self.l.n { Some(&self.l.a[k]) } else { None } } }
impl<'a> IntoIterator for &'a Lines { type Item = &'a &'static str; type IntoIter = LinesIter<'a>; fn into_iter(self) -> LinesIter<'a> { LinesIter { l: self, i: 0 } } }
impl Lines { pub fn is_empty(&self) -> bool { self.n == 0 } }
pub struct BindgenOptions { pub disable_header_comment: bool, pub raw_lines: Lines, pub formatter: Formatter, pub time_phases: bool, pub rustfmt_path: Option<PathBuf>, pub rustfmt_configuration_file: Option<PathBuf>, pub rust_edition: Option<RustEdition>, pub rust_target: RustTarget }
pub fn rustfmt_non_fatal_error_diagnostic(_: &str, _: &BindgenOptions) {}
// ---- child process model ----
#[derive(Clone, Copy)] pub struct Script { pub streams: bool, pub big: bool, pub stdin_ok: bool, pub spawn_ok: bool, pub out: [u8; 4], pub out_len: usize, pub read_err_at: usize, pub wait_ok: bool, pub raw_status: i32 }
static mut SCRIPT: Option<Script> = None;
pub fn set_script(s: Script) { unsafe { SCRIPT = Some(s); IN_FEEDER = false; STDOUT_DRAINED = false; } }
fn script() -> Script { unsafe { SCRIPT.unwrap() } }
pub struct Stdio; impl Stdio { pub fn piped() -> Stdio { Stdio } }
pub struct Command;
pub struct ChildStdin; pub struct ChildStdout { pos: usize }
pub struct Child { pub stdin: Option<ChildStdin>, pub stdout: Option<ChildStdout> }
impl Command {
    pub fn new<P>(_: P) -> Command { Command }
    pub fn stdin(&mut self, _: Stdio) -> &mut Command { self }
    pub fn stdout(&mut self, _: Stdio) -> &mut Command { self }
    pub fn args<I>(&mut self, _: I) -> &mut Command { self }
    pub fn spawn(&mut self) -> io::Result<Child> { if script().spawn_ok { Ok(Child { stdin: Some(ChildStdin), stdout: Some(ChildStdout { pos: 0 }) }) } else { Err(io::Error::from(io::ErrorKind::NotFound)) } }
}
// pipes are finite: a child that streams (emits output while it is still reading input - `cat; exit 1`, a formatter that gives up half way) stops reading
// its stdin once its stdout pipe is full.  If the source is bigger than the pipes (`big`) and the parent writes all of it on the very thread that
// will only afterwards drain the child's stdout, both sides wait for each other forever.  IN_FEEDER: inside the helper thread's closure.
static mut IN_FEEDER: bool = false; static mut STDOUT_DRAINED: bool = false;
impl io::Write for ChildStdin { fn write_all(&mut self, _: &[u8]) -> io::Result<()> {
    let s = script();
    if s.streams && s.big && unsafe { !IN_FEEDER && !STDOUT_DRAINED } { panic!("pipe deadlock: the whole source is written to the formatter's stdin on the thread that has not yet drained its stdout (write() hangs)"); }
    if s.stdin_ok { Ok(()) } else { Err(io::Error::from(io::ErrorKind::BrokenPipe)) } } }
impl io::Read for ChildStdout { fn read_byte(&mut self) -> io::Result<Option<u8>> { let s = script(); if self.pos == s.read_err_at { unsafe { STDOUT_DRAINED = true; } return Err(io::Error::from(io::ErrorKind::BrokenPipe)); } if self.pos < s.out_len { let b = s.out[self.pos]; self.pos += 1; Ok(Some(b)) } else { unsafe { STDOUT_DRAINED = true; } Ok(None) } } }
impl Child { pub fn wait(&mut self) -> io::Result<std::process::ExitStatus> { use std::os::unix::process::ExitStatusExt; let s = script(); if s.wait_ok { Ok(std::process::ExitStatus::from_raw(s.raw_status)) } else { Err(io::Error::from(io::ErrorKind::Other)) } } }
pub mod verif_thread { pub struct H<T>(T); impl<T> H<T> { pub fn join(self) -> Result<T, ()> { Ok(self.0) } } pub fn spawn<F: FnOnce() -> T, T>(f: F) -> H<T> { unsafe { super::IN_FEEDER = true; } let r = f(); unsafe { super::IN_FEEDER = false; } H(r) } }
pub struct Bindings { pub options: BindgenOptions, pub module: proc_macro2::TokenStream }
