// C03 K1c: const-generic entry points of bitfield_unit.rs, one instantiation
// per (OFFSET, WIDTH) tuple (shapes are parameters), storage/value symbolic.
#![allow(warnings)]
mod bitfield_unit;
use bitfield_unit::__BindgenBitfieldUnit as Unit;

fn ref_get(st: &[u8], off: usize, width: u8) -> u64 {
    let mut v = 0u64;
    let mut i = 0usize;
    while i < width as usize {
        let bit = off + i;
        if (st[bit / 8] >> (bit % 8)) & 1 == 1 { v |= 1u64 << i; }
        i += 1;
    }
    v
}
fn mask(width: u8) -> u64 { if width >= 64 { !0u64 } else { (1u64 << width) - 1 } }

#[cfg(kani)]
mod proofs {
    use super::*;
    fn const_case<const N: usize, const O: usize, const W: u8>() {
        let st: [u8; N] = kani::any();
        let val: u64 = kani::any();
        let u = Unit::new(st);
        let g = u.get_const::<O, W>();
        assert!(g == ref_get(&st, O, W), "get_const differs from the bit model");
        assert!(unsafe { Unit::<[u8; N]>::raw_get_const::<O, W>(&u as *const _) } == g, "raw_get_const differs from get_const");
        let mut a = Unit::new(st); a.set_const::<O, W>(val);
        let mut b = Unit::new(st); unsafe { Unit::<[u8; N]>::raw_set_const::<O, W>(&mut b as *mut _, val) };
        assert!(a.get_const::<O, W>() == val & mask(W), "set_const then get_const is not val mod 2^width");
        let k: usize = kani::any(); kani::assume(k < N * 8);
        if k < O || k >= O + W as usize {
            assert!(a.get_bit(k) == u.get_bit(k), "set_const changed a bit outside the field");
        } else {
            assert!(a.get_bit(k) == ((val >> (k - O)) & 1 == 1), "set_const stored a wrong bit");
        }
        assert!(b.get_bit(k) == a.get_bit(k), "raw_set_const differs from set_const");
    }
    /*GENERATED*/
}
