// C14: a consuming site - the string-constant arm of Var::codegen (`VarType::String(ref bytes) => { .. }`, real text) with the real
// BindgenContext::trait_prefix, against the real RustFeatures: which library items / literal forms the emitted constant uses.
pub mod cstr_site {
    use super::*;
    #[derive(Clone, Copy, PartialEq, Eq, Debug)] pub enum Prefix { Core, Std }
    pub type Ident = Prefix;
    pub struct Options { pub generate_cstr: bool, pub use_core: bool, pub rust_features: RustFeatures }
    pub struct BindgenContext { pub o: Options }
    impl BindgenContext {
        pub fn options(&self) -> &Options { &self.o }
        pub fn rust_ident_raw(&self, s: &str) -> Ident { if s.len() == 4 { Prefix::Core } else { Prefix::Std } }   // "core" / "std"
/*TRAIT_PREFIX_FN*/
    }
    /// the bytes of the C string: only their count and whether there is a NUL inside matter here
    #[derive(Clone, Copy)] pub struct Bytes { pub n: usize, pub interior_nul: bool }
    impl Bytes { pub fn clone(&self) -> Bytes { *self } pub fn push(&mut self, _: u8) { self.n += 1; } pub fn len(&self) -> usize { self.n } }
    pub struct CStr; impl CStr { pub fn from_bytes_with_nul(b: &Bytes) -> Result<CStr, ()> { if b.interior_nul { Err(()) } else { Ok(CStr) } } }
    pub mod proc_macro2 { pub struct Literal; impl Literal { pub fn usize_unsuffixed(_: usize) -> Literal { Literal } pub fn c_string(_: super::CStr) -> Literal { Literal } pub fn byte_string(_: &super::Bytes) -> Literal { Literal } } }
    #[derive(Clone, Copy, PartialEq, Eq, Debug)] pub enum Emitted { CStrLiteral(Prefix), CStrUnchecked(Prefix), ByteArray }
    #[derive(Clone, Copy)] pub enum Tok { CStrTy(Prefix), Arr, Lifetime, Item(Emitted) }
    impl Tok { fn prefix(self) -> Prefix { match self { Tok::CStrTy(p) => p, _ => panic!("CStr type path expected") } } }
    pub struct Out { pub e: Option<Emitted>, pub n: usize }
    impl Out { pub fn push(&mut self, t: Tok) { match t { Tok::Item(e) => { self.e = Some(e); self.n += 1; } _ => panic!("not an item") } } }
    macro_rules! quote {
        (:: # $p:ident :: ffi :: CStr) => { Tok::CStrTy($p) };
        (# ( # $a:ident ) * pub const # $id:ident : & # $ty:ident = # $v:ident ;) => { Tok::Item(Emitted::CStrLiteral($ty.prefix())) };
        (# ( # $a:ident ) * # [ allow ( unsafe_code ) ] pub const # $id:ident : & # $ty:ident = unsafe { # $ty2:ident :: from_bytes_with_nul_unchecked ( # $b:ident ) } ;) => { Tok::Item(Emitted::CStrUnchecked($ty.prefix())) };
        ([ u8 ; # $len:ident ]) => { Tok::Arr };
        ('static) => { Tok::Lifetime };
        (# ( # $a:ident ) * pub const # $id:ident : & # ( # $lt:ident ) * # $ty:ident = # $v:ident ;) => { Tok::Item(Emitted::ByteArray) };
    }
    /// the body of the `VarType::String(ref bytes)` arm of Var::codegen (without its final `None`)
    pub fn string_constant(ctx: &BindgenContext, bytes: &Bytes, result: &mut Out) {
        let attrs = (); let canonical_ident = ();
/*STRING_ARM*/
    }
    #[cfg(kani)]
    mod proofs {
        use super::*;
        #[kani::proof] #[kani::unwind(6)]
        fn string_constants_use_only_what_the_target_has() {
            let nightly: bool = kani::any(); let minor: u64 = kani::any();
            let target = if nightly { RustTarget::nightly() } else { RustTarget(Version::Stable(minor, kani::any())) };
            let e: u8 = kani::any(); kani::assume((e as usize) < RustEdition::ALL.len()); let edition = RustEdition::ALL[e as usize];
            kani::assume(edition.is_available(target));     // Builder::generate rejects the others (edition_gate_rejects_exactly_unavailable)
            let ctx = BindgenContext { o: Options { generate_cstr: kani::any(), use_core: kani::any(), rust_features: RustFeatures::new(target, edition) } };
            let bytes = Bytes { n: kani::any::<u8>() as usize, interior_nul: kani::any() };
            let mut out = Out { e: None, n: 0 };
            string_constant(&ctx, &bytes, &mut out);
            assert!(out.n == 1, "exactly one constant per string macro");
            let has = |m: u64| nightly || minor >= m;
            match out.e.unwrap() {
                Emitted::ByteArray => {}
                Emitted::CStrLiteral(p) => {
                    assert!(ctx.o.generate_cstr, "CStr constant without --generate-cstr");
                    assert!(has(77) && edition >= RustEdition::Edition2021, "c\"..\" literal on a target / edition that does not have it (1.77, edition 2021)");
                    assert!(p == Prefix::Std || has(64), "core::ffi::CStr used on a target older than 1.64");
                }
                Emitted::CStrUnchecked(p) => {
                    assert!(ctx.o.generate_cstr, "CStr constant without --generate-cstr");
                    assert!(has(59), "const CStr::from_bytes_with_nul_unchecked on a target older than 1.59");
                    assert!(p == Prefix::Std || has(64), "core::ffi::CStr used on a target older than 1.64");
                }
            }
            assert!(!bytes.interior_nul || out.e == Some(Emitted::ByteArray), "a string with an interior NUL cannot be a CStr");
            kani::cover!(matches!(out.e, Some(Emitted::CStrUnchecked(Prefix::Core))), "core CStr via from_bytes_with_nul_unchecked");
            kani::cover!(matches!(out.e, Some(Emitted::CStrLiteral(_))), "c-string literal");
        }
    }
}
