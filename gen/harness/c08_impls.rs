// C08: the hand-written impl bodies - real text of codegen/impl_debug.rs and codegen/impl_partialeq.rs compiled against
// token stubs that record what each quote! template says and a String stub that keeps the exact text of the format string.
// Recursion through alias-like kinds is removed by instantiating the recursive impl / fn once per hop (ItemL0..ItemL2).
#![allow(warnings)]
pub const TCAP: usize = 6;    // tokens per list
pub const NF: usize = 2;      // fields per composite
pub const NB: usize = 2;      // bit-fields per unit

// ---- String: the text AS THE GENERATED CODE WILL SEE IT, kept as the exact transition function of Rust's format-string grammar ------------
// states: 0 text, 1 after `{`, 2 inside a placeholder, 3 after `}`; per start state: end state, placeholders completed, malformed
#[derive(Clone, Copy)] pub struct Tr { pub end: u8, pub count: u8, pub bad: bool }
#[derive(Clone, Copy)] pub struct String { pub t: [Tr; 4] }
const fn step(t: Tr, c: u8) -> Tr {
    match t.end {
        0 => if c == b'{' { Tr { end: 1, ..t } } else if c == b'}' { Tr { end: 3, ..t } } else { t },
        1 => if c == b'{' { Tr { end: 0, ..t } } else if c == b'}' { Tr { end: 0, count: t.count + 1, bad: t.bad } } else { Tr { end: 2, ..t } },
        2 => if c == b'}' { Tr { end: 0, count: t.count + 1, bad: t.bad } } else if c == b'{' { Tr { end: 0, count: t.count, bad: true } } else { t },
        _ => if c == b'}' { Tr { end: 0, ..t } } else { Tr { end: 0, count: t.count, bad: true } },
    }
}
pub trait Text { fn put(&self, dst: &mut String); }
impl Text for &'static str { fn put(&self, dst: &mut String) { dst.append(&String::lit(self.as_bytes())) } }
impl<'a> Text for &'a String { fn put(&self, dst: &mut String) { dst.append(self) } }
impl String {
    pub const fn new() -> Self { String { t: [Tr { end: 0, count: 0, bad: false }, Tr { end: 1, count: 0, bad: false }, Tr { end: 2, count: 0, bad: false }, Tr { end: 3, count: 0, bad: false }] } }
    const fn push_byte(mut self, c: u8) -> Self { let mut s = 0; while s < 4 { self.t[s] = step(self.t[s], c); s += 1; } self }
    pub const fn lit(bs: &[u8]) -> String { let mut r = String::new(); let mut i = 0; while i < bs.len() { r = r.push_byte(bs[i]); i += 1; } r }
    pub fn append(&mut self, o: &String) { let mut s = 0; while s < 4 { let a = self.t[s]; let b = o.t[a.end as usize]; self.t[s] = Tr { end: b.end, count: a.count + b.count, bad: a.bad || b.bad }; s += 1; } }
    pub fn push_str<S: Text>(&mut self, s: S) { s.put(self) }
    /// what `format!(lit)` evaluates to: `{{` -> `{`, `}}` -> `}`, `{ident}` -> one byte `x` (an interpolated C identifier or number: brace-free); evaluated at compile time
    pub const fn fmt1(lit: &str) -> String {
        let bs = lit.as_bytes(); let mut s = String::new(); let mut i = 0;
        while i < bs.len() {
            let c = bs[i];
            if c == b'{' && i + 1 < bs.len() && bs[i + 1] == b'{' { s = s.push_byte(b'{'); i += 2; continue; }
            if c == b'}' && i + 1 < bs.len() && bs[i + 1] == b'}' { s = s.push_byte(b'}'); i += 2; continue; }
            if c == b'{' { while i < bs.len() && bs[i] != b'}' { i += 1; } i += 1; s = s.push_byte(b'x'); continue; }
            s = s.push_byte(c); i += 1;
        }
        s
    }
}
macro_rules! format { ($l:literal) => {{ const S: String = String::fmt1($l); S }} }
macro_rules! write { ($d:ident, $l:literal) => {{ const S: String = String::fmt1($l); $d.append(&S); Ok::<(), ()>(()) }} }

// ---- tokens: one flat 3-byte record per token (an enum of large variants is what made the first version run out of memory) -----------------
#[derive(Clone, Copy, PartialEq, Eq, Debug)] pub struct Ident(pub u8);
pub const T_ID: u8 = 0; pub const T_FMT: u8 = 1; pub const T_FIELD: u8 = 2; pub const T_GETTER: u8 = 3; pub const T_TUPLE: u8 = 4;     // arguments of write!
pub const T_EQ_FIELD: u8 = 5; pub const T_EQ_GETTER: u8 = 6; pub const T_EQ_BLOB: u8 = 7; pub const T_EQ_UNION: u8 = 8; pub const T_EQ_TUPLE: u8 = 9;   // conjuncts of eq
pub const T_FN: u8 = 10; pub const T_TY: u8 = 11;
#[derive(Clone, Copy)] pub struct TokenStream { pub tag: u8, pub a: u8, pub b: u8 }
const fn tk(tag: u8, a: u8, b: u8) -> TokenStream { TokenStream { tag, a, b } }
/// the format string that was turned into a token (`quote! { #format_string }`: there is one per generated function)
pub static mut FMT: String = String::new(); pub static mut N_FMT: usize = 0;
pub mod proc_macro2 { pub use super::{Ident, TokenStream}; }
pub trait ToTok { fn tok(&self) -> TokenStream; }
impl ToTok for Ident { fn tok(&self) -> TokenStream { tk(T_ID, self.0, 0) } }
impl ToTok for String { fn tok(&self) -> TokenStream { unsafe { FMT = *self; N_FMT += 1; } tk(T_FMT, 0, 0) } }
impl ToTok for TokenStream { fn tok(&self) -> TokenStream { *self } }
impl<'a, T: ToTok> ToTok for &'a T { fn tok(&self) -> TokenStream { (**self).tok() } }
fn id_of(t: TokenStream) -> u8 { assert!(t.tag == T_ID, "quote!: identifier expected"); t.a }
pub struct Vec<T> { pub a: [TokenStream; TCAP], pub n: usize, _p: core::marker::PhantomData<T> }
impl Vec<TokenStream> {
    pub fn new() -> Self { Vec { a: [tk(T_TY, 0, 0); TCAP], n: 0, _p: core::marker::PhantomData } }
    pub fn push(&mut self, t: TokenStream) { assert!(self.n < TCAP, "stub Vec capacity"); self.a[self.n] = t; self.n += 1; }
    pub fn is_empty(&self) -> bool { self.n == 0 } pub fn len(&self) -> usize { self.n }
    pub fn insert(&mut self, at: usize, t: TokenStream) { assert!(at == 0 && self.n < TCAP); let mut i = TCAP - 1; while i > 0 { self.a[i] = self.a[i - 1]; i -= 1; } self.a[0] = t; self.n += 1; }
    pub fn extend(&mut self, o: Vec<TokenStream>) { let mut i = 0; while i < TCAP { if i < o.n { self.push(o.a[i]); } i += 1; } }
}
macro_rules! vec { () => { Vec::new() }; ($x:expr) => {{ let mut v = Vec::new(); v.push($x); v }} }
/// what the function shell (`fn fmt` / `fn eq`) was built from; written by the quote! arm, read by the harness
pub struct Out { pub toks: [TokenStream; TCAP], pub n: usize, pub built: bool }
pub static mut OUT: Out = Out { toks: [tk(T_TY, 0, 0); TCAP], n: 0, built: false };
fn build_fn(v: &Vec<TokenStream>) -> TokenStream { unsafe { let mut i = 0; while i < TCAP { if i < v.n { OUT.toks[i] = v.a[i]; } i += 1; } OUT.n = v.n; OUT.built = true; } tk(T_FN, 0, 0) }
macro_rules! quote {
    (# $i:ident) => { $i.tok() };
    (self . # $i:ident) => { tk(T_FIELD, id_of($i.tok()), 0) };
    (self . # $i:ident ()) => { tk(T_GETTER, id_of($i.tok()), 0) };
    // the shape the Vector arm of impl_debug had before it was repaired (finding F11): `len` arguments `self.<tuple index>`
    (# ( format ! ( $l:literal , self . # $ids:ident ) ) , *) => { tk(T_TUPLE, $ids.end as u8, 0) };
    (fn fmt ( $($a:tt)* ) -> :: # $p:ident :: fmt :: Result { write ! ( f , # ( # $t:ident ) , * ) }) => { build_fn(&$t) };
    (self . # $a:ident == other . # $b:ident) => { tk(T_EQ_FIELD, id_of($a.tok()), id_of($b.tok())) };
    (self . # $a:ident () == other . # $b:ident ()) => { tk(T_EQ_GETTER, id_of($a.tok()), id_of($b.tok())) };
    (& self . _bindgen_opaque_blob [ .. ] == & other . _bindgen_opaque_blob [ .. ]) => { tk(T_EQ_BLOB, 0, 0) };
    (& self . bindgen_union_field [ .. ] == & other . bindgen_union_field [ .. ]) => { tk(T_EQ_UNION, 0, 0) };
    (# ( self . # $a:ident == other . # $b:ident && ) * true) => { tk(T_EQ_TUPLE, $a.end as u8, 0) };
    (fn eq ( & self , other : & # $ty:ident ) -> bool { # ( # $t:ident ) && * }) => { build_fn(&$t) };
}

// ---- IR stub -----------------------------------------------------------------------------------------------------------------
#[derive(Clone, Copy, PartialEq, Eq, Debug)] pub struct ItemId(pub usize);
#[derive(Clone, Copy, PartialEq, Eq, Debug)] pub struct TypeId(pub usize);
#[derive(Clone, Copy)] pub struct FunctionSig { pub can_derive: bool }
impl FunctionSig { pub fn function_pointers_can_derive(&self) -> bool { self.can_derive } }
#[derive(Clone, Copy)] pub struct TemplateInstantiation { pub opaque: bool }
impl TemplateInstantiation { pub fn is_opaque<T>(&self, _: &BindgenContext, _: &T) -> bool { self.opaque } }
#[derive(Clone, Copy)]
pub enum TypeKind {
    Void, NullPtr, Comp(()), Opaque, Int(()), Float(()), Complex(()), Alias(TypeId), TemplateAlias(TypeId, ()), Vector(TypeId, usize), Array(TypeId, usize), Function(FunctionSig),
    Enum(()), Pointer(TypeId), BlockPointer(TypeId), Reference(TypeId), TemplateInstantiation(TemplateInstantiation), UnresolvedTypeRef((), (), ()), ResolvedTypeRef(TypeId), TypeParam, ObjCInterface(()), ObjCId, ObjCSel,
}
#[derive(Clone, Copy)] pub struct Type { pub kind: TypeKind }
impl Type { pub fn kind(&self) -> &TypeKind { &self.kind } pub fn canonical_type<'a>(&'a self, _: &'a BindgenContext) -> &'a Type { self } }
#[derive(Clone, Copy)] pub struct ItemData { pub id: ItemId, pub ty: Option<Type>, pub allowlisted: bool, pub tp_in_array: bool, pub no_debug: bool, pub disallow_debug: bool }
#[derive(Clone, Copy)] pub struct Annotations { pub disallow_debug: bool } impl Annotations { pub fn disallow_debug(&self) -> bool { self.disallow_debug } }
pub trait HasData { fn data(&self) -> &ItemData; }
pub trait HasTypeParamInArray {} pub trait IsOpaque {} pub trait ItemCanonicalName {} pub trait FieldMethods {}
macro_rules! item_level { ($($n:ident)*) => { $(
    #[derive(Clone, Copy)] pub struct $n(pub ItemData);
    impl $n {
        pub fn id(&self) -> ItemId { self.0.id } pub fn as_type(&self) -> Option<&Type> { self.0.ty.as_ref() } pub fn expect_type(&self) -> &Type { self.0.ty.as_ref().expect("not a type") }
        pub fn has_type_param_in_array(&self, _: &BindgenContext) -> bool { self.0.tp_in_array }
        pub fn annotations(&self) -> Annotations { Annotations { disallow_debug: self.0.disallow_debug } }
    }
    impl HasData for $n { fn data(&self) -> &ItemData { &self.0 } } )* } }
item_level!(ItemL0 ItemL1 ItemL2 ItemL3);
/// the composite's own item
pub struct Item { pub opaque: bool }
impl Item { pub fn canonical_name(&self, _: &BindgenContext) -> () {} pub fn is_opaque(&self, _: &BindgenContext, _: &()) -> bool { self.opaque } }
pub struct Allow<'a>(&'a BindgenContext);
impl<'a> Allow<'a> { pub fn contains(&self, id: &ItemId) -> bool { self.0.allow[id.0] } }
pub struct Options { pub use_core: bool, pub untagged_union: bool }
/// items: field f's type is item 10*f; an alias-like item at hop k of field f refers to item 10*f + k + 1
pub struct BindgenContext { pub l0: [ItemL0; 3], pub l1: [ItemL1; 3], pub l2: [ItemL2; 3], pub allow: [bool; 40], pub pointee: Type, pub o: Options }
impl BindgenContext {
    pub fn options(&self) -> &Options { &self.o }
    pub fn allowlisted_items(&self) -> Allow<'_> { Allow(self) }
    pub fn rust_ident(&self, name: &str) -> Ident { Ident(name.as_bytes()[0]) }
    pub fn rust_ident_raw(&self, name: &str) -> Ident { Ident(name.as_bytes()[0]) }
    pub fn trait_prefix(&self) -> Ident { Ident(0) }
    pub fn resolve_l0(&self, t: TypeId) -> &ItemL0 { assert!(t.0 % 10 == 0); &self.l0[t.0 / 10] }
    pub fn resolve_l1(&self, t: TypeId) -> &ItemL1 { assert!(t.0 % 10 == 1); &self.l1[t.0 / 10] }
    pub fn resolve_l2(&self, t: TypeId) -> &ItemL2 { assert!(t.0 % 10 == 2); &self.l2[t.0 / 10] }
    pub fn resolve_l3(&self, t: TypeId) -> &ItemL3 { kani::assume(false); unreachable!() }   // bound: at most two alias hops
    pub fn resolve_type(&self, _: TypeId) -> &Type { &self.pointee }
    pub fn no_debug_by_name<I: HasData>(&self, i: &I) -> bool { i.data().no_debug }
}
#[derive(Clone, Copy)] pub struct FieldData { pub name: Option<&'static str>, pub ty: TypeId }
impl FieldData { pub fn name(&self) -> Option<&str> { self.name } pub fn ty(&self) -> TypeId { self.ty } }
#[derive(Clone, Copy)] pub struct Bitfield { pub name: Option<&'static str>, pub getter: &'static str }
impl Bitfield { pub fn name(&self) -> Option<&str> { self.name } pub fn getter_name(&self) -> &str { self.getter } }
#[derive(Clone, Copy)] pub struct List<T, const K: usize> { pub a: [T; K], pub n: usize }
pub struct ListIter<'a, T, const K: usize> { l: &'a List<T, K>, i: usize }
impl<'a, T, const K: usize> Iterator for ListIter<'a, T, K> { type Item = &'a T; fn next(&mut self) -> Option<&'a T> { if self.i >= K { return None; } let k = self.i; self.i += 1; if k < self.l.n { Some(&self.l.a[k]) } else { None } } }
impl<T, const K: usize> List<T, K> { pub fn iter(&self) -> ListIter<'_, T, K> { ListIter { l: self, i: 0 } } }
/// `iter().filter_map(f)`: inherent, so it is chosen over Iterator::filter_map. Applies `f` to the K slots once, up front, and compacts the results:
/// with the std adaptor the inner counter becomes data dependent once two paths that left `find_map` at different positions merge, and every
/// loop is then unrolled to the global bound (measured: 30+ inlined copies of the closure instead of 2). `f` is pure here.
impl<'a, T, const K: usize> ListIter<'a, T, K> {
    pub fn filter_map<B, F: FnMut(&'a T) -> Option<B>>(self, mut f: F) -> Compact<B, K> {
        let mut vals: [Option<B>; K] = core::array::from_fn(|_| None); let mut m = 0; let mut k = 0;
        while k < K { if k < self.l.n { if let Some(v) = f(&self.l.a[k]) { vals[m] = Some(v); m += 1; } } k += 1; }
        Compact { vals, m, pos: 0 }
    }
}
pub struct Compact<B, const K: usize> { vals: [Option<B>; K], m: usize, pos: usize }
impl<B, const K: usize> Iterator for Compact<B, K> { type Item = B; fn next(&mut self) -> Option<B> { if self.pos >= K { return None; } let k = self.pos; self.pos += 1; if k < self.m { self.vals[k].take() } else { None } } }
impl<'a, T, const K: usize> IntoIterator for &'a List<T, K> { type Item = &'a T; type IntoIter = ListIter<'a, T, K>; fn into_iter(self) -> Self::IntoIter { self.iter() } }
#[derive(Clone, Copy)] pub struct BitfieldUnit { pub bfs: List<Bitfield, NB> }
impl BitfieldUnit { pub fn bitfields(&self) -> &List<Bitfield, NB> { &self.bfs } }
#[derive(Clone, Copy)] pub enum Field { DataMember(FieldData), Bitfields(BitfieldUnit) }
#[derive(Clone, Copy, PartialEq, Eq)] pub enum CompKind { Struct, Union }
#[derive(Clone, Copy)] pub struct Base { pub ty: TypeId, pub field_name: &'static str, pub storage: bool }
impl Base { pub fn requires_storage(&self, _: &BindgenContext) -> bool { self.storage } }
pub struct CompInfo { pub kind: CompKind, pub bases: List<Base, 1>, pub fields: List<Field, NF> }
impl CompInfo { pub fn kind(&self) -> CompKind { self.kind } pub fn base_members(&self) -> &List<Base, 1> { &self.bases } pub fn fields(&self) -> &List<Field, NF> { &self.fields } }

// ---- real text: codegen/impl_debug.rs (the recursive impl instantiated per hop) -----------------------------------------------
pub mod impl_debug {
    use super::*;
/*IMPL_DEBUG*/
    impl<'a> ImplDebug<'a> for ItemL3 { type Extra = &'a str; fn impl_debug(&self, _: &BindgenContext, _: &str) -> Option<(String, Vec<proc_macro2::TokenStream>)> { kani::assume(false); None } }
}
// ---- real text: codegen/impl_partialeq.rs -------------------------------------------------------------------------------------
pub mod impl_partialeq {
    use super::*;
/*IMPL_PARTIALEQ*/
    fn gen_field_l3(_: &BindgenContext, _: &ItemL3, _: &str) -> proc_macro2::TokenStream { kani::assume(false); tk(T_TY, 0, 0) }
}

#[cfg(kani)]
mod proofs {
    use super::*;
    const FNAME: [&str; 3] = ["a", "b", "c"];          // data member / base names
    const BNAME: [&str; NB] = ["p", "q"];              // bit-field C names
    const GNAME: [&str; NB] = ["P", "Q"];              // their getters when mangled (keyword / method clash)
    fn any_kind(hop: usize, f: usize) -> TypeKind {
        let k: u8 = kani::any(); let next = TypeId(10 * f + hop + 1); let len: usize = kani::any(); kani::assume(len >= 1 && len <= 64);
        match k {
            0 => TypeKind::Void, 1 => TypeKind::NullPtr, 2 => TypeKind::Comp(()), 3 => TypeKind::Opaque, 4 => TypeKind::Int(()), 5 => TypeKind::Float(()), 6 => TypeKind::Complex(()),
            7 => TypeKind::Alias(next), 8 => TypeKind::TemplateAlias(next, ()), 9 => TypeKind::Vector(next, len), 10 => TypeKind::Array(next, len), 11 => TypeKind::Function(FunctionSig { can_derive: kani::any() }),
            12 => TypeKind::Enum(()), 13 => TypeKind::Pointer(next), 14 => TypeKind::BlockPointer(next), 15 => TypeKind::Reference(next), 16 => TypeKind::TemplateInstantiation(TemplateInstantiation { opaque: kani::any() }),
            17 => TypeKind::ResolvedTypeRef(next), 18 => TypeKind::TypeParam, 19 => TypeKind::ObjCInterface(()), 20 => TypeKind::ObjCId, _ => { kani::assume(k == 21); TypeKind::ObjCSel }
        }
    }
    fn any_item(hop: usize, f: usize, always_type: bool) -> ItemData {
        let is_type: bool = kani::any(); kani::assume(is_type || !always_type);
        ItemData { id: ItemId(10 * f + hop), ty: if is_type { Some(Type { kind: any_kind(hop, f) }) } else { None }, allowlisted: kani::any(), tp_in_array: kani::any(), no_debug: kani::any(), disallow_debug: kani::any() }
    }
    fn any_ctx(always_type: bool) -> BindgenContext {
        let l0 = [ItemL0(any_item(0, 0, always_type)), ItemL0(any_item(0, 1, always_type)), ItemL0(any_item(0, 2, always_type))];
        let l1 = [ItemL1(any_item(1, 0, always_type)), ItemL1(any_item(1, 1, always_type)), ItemL1(any_item(1, 2, always_type))];
        let l2 = [ItemL2(any_item(2, 0, always_type)), ItemL2(any_item(2, 1, always_type)), ItemL2(any_item(2, 2, always_type))];
        let mut allow = [false; 40];
        let mut f = 0; while f < 3 { allow[10 * f] = l0[f].0.allowlisted; allow[10 * f + 1] = l1[f].0.allowlisted; allow[10 * f + 2] = l2[f].0.allowlisted; f += 1; }
        let pointee = Type { kind: if kani::any() { TypeKind::Function(FunctionSig { can_derive: kani::any() }) } else { TypeKind::Int(()) } };
        BindgenContext { l0, l1, l2, allow, pointee, o: Options { use_core: kani::any(), untagged_union: kani::any() } }
    }
    fn any_unit() -> BitfieldUnit {
        let n: usize = kani::any(); kani::assume(n >= 1 && n <= NB);
        let mut a = [Bitfield { name: None, getter: "" }; NB]; let mut j = 0;
        while j < NB { let named: bool = kani::any(); let mangled: bool = kani::any(); a[j] = Bitfield { name: if named { Some(BNAME[j]) } else { None }, getter: if mangled { GNAME[j] } else { BNAME[j] } }; j += 1; }
        BitfieldUnit { bfs: List { a, n } }
    }
    /// a field: data member f (named, or unnamed = skipped by impl_debug) or a bit-field unit
    fn any_field(f: usize, named_only: bool) -> Field {
        if kani::any() { let named: bool = kani::any(); kani::assume(named || !named_only); Field::DataMember(FieldData { name: if named { Some(FNAME[f]) } else { None }, ty: TypeId(10 * f) }) } else { Field::Bitfields(any_unit()) }
    }
    /// the item a field's type finally denotes after following alias-like kinds (None: a hop is not allowlisted / not a type / more than two hops)
    fn resolved<'a>(ctx: &'a BindgenContext, f: usize, need_allow: bool) -> Option<&'a ItemData> {
        let chain = [&ctx.l0[f].0, &ctx.l1[f].0, &ctx.l2[f].0]; let mut h = 0;
        while h < 3 {
            let it = chain[h];
            if need_allow && !it.allowlisted { return None; }
            match it.ty { None => return None, Some(t) => match t.kind { TypeKind::Alias(_) | TypeKind::TemplateAlias(..) | TypeKind::ResolvedTypeRef(_) | TypeKind::BlockPointer(_) => {}, _ => return Some(it) } }
            h += 1;
        }
        kani::assume(false); None
    }
    /// specification: does the generated Debug body pass member `f` to `{:?}`?  The member's type must implement Debug and be known to: every item on
    /// the way (through aliases, and for arrays / vectors the element) is allowlisted (the user's own definition of a blocklisted type promises nothing)
    /// and not excluded from Debug by --no-debug or a nodebug annotation; the final kind can be printed.
    fn debug_prints(ctx: &BindgenContext, f: usize) -> bool {
        let chain = [&ctx.l0[f].0, &ctx.l1[f].0, &ctx.l2[f].0]; let mut h = 0;
        while h < 3 {
            let it = chain[h];
            if !it.allowlisted { return false; }
            let t = match it.ty { None => return false, Some(t) => t };
            match t.kind {
                TypeKind::Alias(_) | TypeKind::TemplateAlias(..) | TypeKind::ResolvedTypeRef(_) | TypeKind::BlockPointer(_) => {}
                TypeKind::Array(..) => { if it.tp_in_array { return false; } }      // .. and the element decides
                TypeKind::Vector(..) => return true,      // an array of an arithmetic type
                TypeKind::Opaque | TypeKind::TypeParam => return false,
                TypeKind::TemplateInstantiation(i) => return !i.opaque,
                TypeKind::Pointer(_) => return match ctx.pointee.kind { TypeKind::Function(s) => s.can_derive, _ => true },
                TypeKind::Comp(..) | TypeKind::Enum(..) => return !(it.no_debug || it.disallow_debug),
                _ => return true,
            }
            h += 1;
        }
        kani::assume(false); false
    }
    /// number of `{..}` placeholders of the format string, None if it is not a valid format string
    fn placeholders(s: &String) -> Option<usize> { let t = s.t[0]; if t.bad || t.end != 0 { None } else { Some(t.count as usize) } }

    #[kani::proof] #[kani::unwind(8)]
    fn manual_debug_body_compiles_and_prints_every_printable_member() {
        let ctx = any_ctx(false);
        let fields = List { a: [any_field(0, false), any_field(1, false)], n: NF };
        let item = Item { opaque: kani::any() };
        let kind = if kani::any() { CompKind::Struct } else { CompKind::Union };
        let out = impl_debug::gen_debug_impl(&ctx, &fields, &item, kind);
        let (toks, n) = unsafe { assert!(out.tag == T_FN && OUT.built, "gen_debug_impl did not produce the fmt function"); (OUT.toks, OUT.n) };
        assert!(n >= 1 && toks[0].tag == T_FMT, "Debug body: the first write! argument is not the format string");
        // expected argument list, in declaration order
        let mut exp = [(0u8, 0u8); TCAP]; let mut m = 0;
        if !item.opaque && kind == CompKind::Struct {
            let mut f = 0; while f < NF { match fields.a[f] {
                Field::DataMember(fd) => if fd.name.is_some() && debug_prints(&ctx, f) { exp[m] = (T_FIELD, FNAME[f].as_bytes()[0]); m += 1; },
                Field::Bitfields(u) => { let mut j = 0; while j < NB { if j < u.bfs.n && u.bfs.a[j].name.is_some() { exp[m] = (T_GETTER, u.bfs.a[j].getter.as_bytes()[0]); m += 1; } j += 1; } } }
                f += 1; }
        }
        let ph = unsafe { assert!(N_FMT == 1, "Debug body: exactly one format string"); placeholders(&FMT) };
        assert!(ph.is_some(), "Debug body: the format string is not a valid format string");
        // arguments the generated write! really has (a `#(..),*` over tuple indices expands to `len` of them)
        let mut nargs = 0; let mut i = 1; while i < TCAP { if i < n { nargs += if toks[i].tag == T_TUPLE { toks[i].a as usize } else { 1 }; } i += 1; }
        assert!(ph == Some(nargs), "Debug body: number of placeholders differs from the number of arguments (does not compile)");
        let mut i = 1; while i < TCAP { if i < n { assert!(toks[i].tag != T_TUPLE, "Debug body: refers to tuple indices of a struct with named members (does not compile)"); } i += 1; }
        assert!(n - 1 == m, "Debug body: a printable member is missing or a member is printed that must not be");
        let mut i = 1; while i < TCAP { if i < n { assert!((toks[i].tag, toks[i].a) == exp[i - 1], "Debug body: argument is not the member / bit-field getter of this struct, in declaration order"); } i += 1; }
        kani::cover!(n == 3 && !item.opaque, "two members printed");
        kani::cover!(n == 1 && !item.opaque && kind == CompKind::Struct, "no member printable");
        kani::cover!(n > 1 && toks[1].tag == T_GETTER && toks[1].a == b'P', "mangled getter printed");
        kani::cover!(matches!(ctx.l0[0].0.ty, Some(Type { kind: TypeKind::Vector(..) })) && n > 1 && toks[1].tag == T_FIELD && toks[1].a == b'a', "vector member printed");
        kani::cover!(matches!(ctx.l0[0].0.ty, Some(Type { kind: TypeKind::Alias(..) })) && matches!(ctx.l1[0].0.ty, Some(Type { kind: TypeKind::ResolvedTypeRef(..) })) && n > 1 && toks[1].a == b'a', "member printed through two alias hops");
    }

    #[kani::proof] #[kani::unwind(8)]
    fn manual_partialeq_body_compares_every_member_and_bitfield() {
        let ctx = any_ctx(true);
        let item = Item { opaque: kani::any() };
        let kind = if kani::any() { CompKind::Struct } else { CompKind::Union };
        kani::assume(kind != CompKind::Union || !ctx.o.untagged_union);   // PartialEq is never `Manually` for a Rust union (derive rule, checked by spec_partialeq_Comp)
        let nb: usize = kani::any(); kani::assume(nb <= 1);
        let base = Base { ty: TypeId(20), field_name: FNAME[2], storage: kani::any() };
        let fields = List { a: [any_field(0, true), any_field(1, true)], n: { let n: usize = kani::any(); kani::assume(n <= NF); n } };
        // a vector member makes derive(PartialEq) `No`, so the manual impl is never generated for one (derive rule, checked by spec_partialeq_Vector)
        let mut f = 0; while f < 3 { if let Some(it) = resolved(&ctx, f, false) { kani::assume(!matches!(it.ty.unwrap().kind, TypeKind::Vector(..))); } f += 1; }
        let comp = CompInfo { kind, bases: List { a: [base], n: nb }, fields };
        let mut exp = [(0u8, 0u8); TCAP]; let mut m = 0;
        if item.opaque { exp[0] = (T_EQ_BLOB, 0); m = 1; }
        else if kind == CompKind::Union { exp[0] = (T_EQ_UNION, 0); m = 1; }
        else {
            if nb == 1 && base.storage { exp[m] = (T_EQ_FIELD, FNAME[2].as_bytes()[0]); m += 1; }
            let mut f = 0; while f < NF { if f < fields.n { match fields.a[f] {
                Field::DataMember(_) => { exp[m] = (T_EQ_FIELD, FNAME[f].as_bytes()[0]); m += 1; }
                Field::Bitfields(u) => { let mut j = 0; while j < NB { if j < u.bfs.n && u.bfs.a[j].name.is_some() { exp[m] = (T_EQ_GETTER, u.bfs.a[j].getter.as_bytes()[0]); m += 1; } j += 1; } } } }
                f += 1; }
        }
        kani::assume(m >= 1);   // `Manually` comes from a member (large array, function pointer): there is one
        let out = impl_partialeq::gen_partialeq_impl(&ctx, &comp, &item, &tk(T_TY, 0, 0));
        let (toks, n) = unsafe { assert!(out.is_some() && out.unwrap().tag == T_FN && OUT.built, "gen_partialeq_impl did not produce the eq function"); (OUT.toks, OUT.n) };
        assert!(n == m, "PartialEq body: a member, base or bit-field is not compared (or something is compared twice)");
        let mut i = 0; while i < TCAP { if i < n {
            assert!(toks[i].tag >= T_EQ_FIELD && toks[i].tag <= T_EQ_UNION, "PartialEq body: a conjunct is not a comparison of named members");
            assert!((toks[i].tag, toks[i].a) == exp[i], "PartialEq body: conjunct does not compare the expected member / getter, in declaration order");
            assert!(toks[i].tag == T_EQ_BLOB || toks[i].tag == T_EQ_UNION || toks[i].a == toks[i].b, "PartialEq body: conjunct compares different members of self and other"); } i += 1; }
        kani::cover!(n == 5, "base and two units of two bit-fields compared");
        kani::cover!(toks[0].tag == T_EQ_GETTER && toks[0].a == b'Q', "mangled getter compared");
        kani::cover!(toks[0].tag == T_EQ_BLOB, "opaque blob compared");
    }
}
