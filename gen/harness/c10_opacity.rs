// C10: when does a type become an opaque blob?  Real `impl IsOpaque for {Id, Item, Type, CompInfo}` (ir/item.rs, ir/ty.rs, ir/comp.rs)
// on a three-item mini IR.  (`impl IsOpaque for TemplateInstantiation` builds path strings and is a stub: definition opaque, or matched by name.)
#![allow(warnings)]
macro_rules! debug_assert { ($($t:tt)*) => { () } }
#[derive(Copy, Clone, Debug, PartialEq, Eq, Default)] pub struct ItemId(pub usize);
#[derive(Copy, Clone, Debug, PartialEq, Eq, Default)] pub struct TypeId(pub ItemId);
impl From<TypeId> for ItemId { fn from(t: TypeId) -> ItemId { t.0 } }
#[derive(Clone, Copy, Debug, Default)] pub struct Layout { pub size: usize, pub align: usize }
pub trait IsOpaque { type Extra; fn is_opaque(&self, ctx: &BindgenContext, extra: &Self::Extra) -> bool; }
#[derive(Clone, Copy)] pub struct Bitfield { pub ty: TypeId, pub width: u32 }
impl Bitfield { pub fn ty(&self) -> TypeId { self.ty } pub fn width(&self) -> u32 { self.width } }
#[derive(Clone, Copy)] pub struct BitfieldUnit { pub bf: [Bitfield; 1] }
impl BitfieldUnit { pub fn bitfields(&self) -> &[Bitfield; 1] { &self.bf } }
#[derive(Clone, Copy)] pub enum Field { DataMember(u8), Bitfields(BitfieldUnit) }
pub enum CompFields { Before, After { fields: [Field; 1] }, Error }
pub struct CompInfo { pub has_non_type_template_params: bool, pub has_unevaluable_bit_field_width: bool, pub fields: CompFields, pub empty: [Field; 0] }
impl CompInfo { pub fn fields(&self) -> &[Field] { match &self.fields { CompFields::After { fields } => fields, _ => &self.empty } } }
pub struct TemplateInstantiation { pub def: TypeId, pub by_name: bool }
impl TemplateInstantiation { pub fn template_definition(&self) -> TypeId { self.def } }
impl IsOpaque for TemplateInstantiation { type Extra = Item; fn is_opaque(&self, ctx: &BindgenContext, _: &Item) -> bool { self.template_definition().is_opaque(ctx, &()) || self.by_name } }
pub enum TypeKind { Opaque, TemplateInstantiation(TemplateInstantiation), Comp(CompInfo), ResolvedTypeRef(TypeId), Int, Alias(TypeId), Pointer(TypeId) }
pub struct Type { pub kind: TypeKind, pub layout: Option<Layout> }
impl Type { pub fn layout(&self, _: &BindgenContext) -> Option<Layout> { self.layout } }
pub struct Annotations { pub opaque: bool } impl Annotations { pub fn opaque(&self) -> bool { self.opaque } }
pub enum ItemKind { Type(Type), Function }
pub struct Item { pub annotations: Annotations, pub kind: ItemKind, pub by_name: bool }
impl Item { pub fn as_type(&self) -> Option<&Type> { match &self.kind { ItemKind::Type(t) => Some(t), _ => None } } pub fn path_for_allowlisting(&self, _: &BindgenContext) -> bool { self.by_name } }
pub struct BindgenContext { pub items: [Item; 3] }
impl BindgenContext {
    pub fn in_codegen_phase(&self) -> bool { true }
    pub fn resolve_item(&self, id: ItemId) -> &Item { &self.items[id.0] }
    pub fn resolve_type(&self, id: TypeId) -> &Type { self.items[(id.0).0].as_type().unwrap() }
    pub fn opaque_by_name(&self, matched: bool) -> bool { matched }
}
/*IMPL_ID*/
/*IMPL_ITEM*/
/*IMPL_TYPE*/
/*IMPL_COMP*/
#[cfg(kani)]
mod proofs {
    use super::*;
    fn leaf(op_ann: bool, by_name: bool, opaque_kind: bool) -> Item { Item { annotations: Annotations { opaque: op_ann }, kind: ItemKind::Type(Type { kind: if opaque_kind { TypeKind::Opaque } else { TypeKind::Int }, layout: Some(Layout { size: 4, align: 4 }) }), by_name } }
    /// X = item 2; items 0 and 1 are what it may refer to.  `shape` (concrete): which kind X has.
    fn case(shape: u8, k0: bool) {
        // k0 (concrete): the referred-to item is TypeKind::Opaque; a symbolic kind there makes CBMC unroll the recursion through every kind
        let (a0, n0): (bool, bool) = (kani::any(), kani::any());
        let bf_size: usize = kani::any(); kani::assume(bf_size >= 1 && bf_size <= 8);
        let it1 = Item { annotations: Annotations { opaque: false }, kind: ItemKind::Type(Type { kind: TypeKind::Int, layout: Some(Layout { size: bf_size, align: bf_size }) }), by_name: false };
        let (xa, xn): (bool, bool) = (kani::any(), kani::any());
        let width: u32 = kani::any(); kani::assume(width <= 1024);
        let (nt, un): (bool, bool) = (kani::any(), kani::any());
        let fields_mode: u8 = kani::any(); kani::assume(fields_mode < 3);
        let inst_by_name: bool = kani::any(); let is_bf: bool = kani::any();
        let xkind = match shape {
            0 => TypeKind::Opaque, 1 => TypeKind::Int, 2 => TypeKind::Alias(TypeId(ItemId(0))), 3 => TypeKind::Pointer(TypeId(ItemId(0))), 4 => TypeKind::ResolvedTypeRef(TypeId(ItemId(0))),
            5 => TypeKind::TemplateInstantiation(TemplateInstantiation { def: TypeId(ItemId(0)), by_name: inst_by_name }),
            _ => TypeKind::Comp(CompInfo { has_non_type_template_params: nt, has_unevaluable_bit_field_width: un, empty: [],
                    fields: match fields_mode { 0 => CompFields::Before, 1 => CompFields::Error, _ => CompFields::After { fields: [if is_bf { Field::Bitfields(BitfieldUnit { bf: [Bitfield { ty: TypeId(ItemId(1)), width }] }) } else { Field::DataMember(0) }] } } }),
        };
        let ctx = BindgenContext { items: [leaf(a0, n0, k0), it1, Item { annotations: Annotations { opaque: xa }, kind: ItemKind::Type(Type { kind: xkind, layout: Some(Layout { size: 8, align: 8 }) }), by_name: xn }] };
        let got = ItemId(2).is_opaque(&ctx, &());
        let target_opaque = a0 || n0 || k0;
        // documented: opaque by annotation, by --opaque-type name, or because bindgen cannot represent the structure
        let structural = match shape {
            0 => true, 1 | 2 | 3 => false,
            4 => target_opaque,                 // a resolved reference is as opaque as what it resolves to
            5 => target_opaque || inst_by_name, // instantiation of an opaque template, or matched with its arguments
            _ => nt || un || fields_mode == 1 || (fields_mode == 2 && is_bf && width / 8 > bf_size as u32),   // non-type template params, unevaluable / unknown-layout bit-fields, bit-field wider than its type
        };
        assert!(got == (xa || xn || structural), "opacity differs from: annotation, --opaque-type, or unrepresentable structure");
        kani::cover!(got, "opaque"); if shape != 0 { kani::cover!(!got, "transparent"); }
        // an alias or pointer to an opaque type is NOT itself opaque (only the pointee is a blob)
        if shape == 2 || shape == 3 { assert!(got == (xa || xn)); }
    }
    /*GENERATED*/
}
