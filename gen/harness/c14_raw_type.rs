// C14: a consuming site - `ast_ty::raw_type` and `ast_ty::c_void` of codegen/helpers.rs (real text): which path the C scalar
// types (c_int, c_char, ..) and c_void are taken from, against the real RustFeatures.  `core::ffi::c_int` & co. exist from
// 1.64; `core::ffi::c_void` from 1.30 (below the earliest accepted target); `std::os::raw::*` always.
pub mod raw_type_site {
    use super::*;
    #[derive(Clone, Copy, PartialEq, Eq, Debug)] pub enum PathChoice { CoreFfi, StdOsRaw, Prefixed }
    pub struct Pfx; impl Pfx { pub fn as_str(&self) -> &str { "p" } }
    pub struct Options { pub ctypes_prefix: Option<Pfx>, pub use_core: bool, pub f: RustFeatures }
    impl Options { pub fn rust_features(&self) -> RustFeatures { self.f } }
    pub struct BindgenContext { pub o: Options }
    pub struct Ident;
    impl BindgenContext {
        pub fn options(&self) -> &Options { &self.o }
        pub fn rust_ident_raw(&self, _: &str) -> Ident { Ident }
    }
    pub struct TokenStream; impl TokenStream { pub fn from_str(_: &str) -> Result<TokenStream, ()> { Ok(TokenStream) } }
    pub mod syn {
        pub type Type = super::PathChoice;
        macro_rules! parse_quote {
            (:: core :: ffi :: # $i:ident) => { { let _ = &$i; $crate::features::raw_type_site::PathChoice::CoreFfi } };
            (:: core :: ffi :: c_void) => { $crate::features::raw_type_site::PathChoice::CoreFfi };
            (:: std :: os :: raw :: # $i:ident) => { { let _ = &$i; $crate::features::raw_type_site::PathChoice::StdOsRaw } };
            (:: std :: os :: raw :: c_void) => { $crate::features::raw_type_site::PathChoice::StdOsRaw };
            (# $p:ident :: # $i:ident) => { { let _ = (&$p, &$i); $crate::features::raw_type_site::PathChoice::Prefixed } };
            (# $p:ident :: c_void) => { { let _ = &$p; $crate::features::raw_type_site::PathChoice::Prefixed } };
        }
        pub(crate) use parse_quote;
    }
/*RAW_TYPE_FN*/
/*C_VOID_FN*/
    #[cfg(kani)]
    mod proofs {
        use super::*;
        #[kani::proof] #[kani::unwind(6)]
        fn c_scalar_paths_exist_on_the_target() {
            let nightly: bool = kani::any(); let minor: u64 = kani::any();
            let target = if nightly { RustTarget::nightly() } else { RustTarget(Version::Stable(minor, kani::any())) };
            let e: u8 = kani::any(); kani::assume((e as usize) < RustEdition::ALL.len()); let edition = RustEdition::ALL[e as usize];
            let with_prefix: bool = kani::any();
            let ctx = BindgenContext { o: Options { ctypes_prefix: if with_prefix { Some(Pfx) } else { None }, use_core: kani::any(), f: RustFeatures::new(target, edition) } };
            let has = |m: u64| nightly || minor >= m;
            let r = raw_type(&ctx, "c_int");
            if with_prefix { assert!(r == PathChoice::Prefixed, "--ctypes-prefix not honoured for a C scalar type"); }
            else {
                assert!(r != PathChoice::Prefixed);
                assert!(r != PathChoice::CoreFfi || has(64), "core::ffi::c_int & co. used on a Rust target older than 1.64");
                assert!(r != PathChoice::CoreFfi || ctx.o.use_core, "core::ffi path without --use-core");
                // not withheld: with --use-core a target that has core::ffi::c_* must not fall back to std (no_std crates)
                assert!(!(ctx.o.use_core && has(64)) || r == PathChoice::CoreFfi, "--use-core on a target with core::ffi::c_* still names std::os::raw");
            }
            let v = c_void(&ctx);
            if with_prefix { assert!(v == PathChoice::Prefixed, "--ctypes-prefix not honoured for c_void"); }
            else {
                assert!(v != PathChoice::Prefixed);
                assert!((v == PathChoice::CoreFfi) == ctx.o.use_core, "c_void: core::ffi::c_void (1.30, every accepted target) exactly with --use-core");
            }
            kani::cover!(!with_prefix && ctx.o.use_core && !nightly && minor == 63 && r == PathChoice::StdOsRaw, "1.63 + use_core falls back to std");
            kani::cover!(!with_prefix && r == PathChoice::CoreFfi, "core path taken");
        }
    }
}
