// C06 / C02: what CompInfo::from_ty records for a data member - the tail of its CXCursor_FieldDecl arm (from `let comment = ..` to
// `ci.fields.append_raw_field(field);`, real text).  The numbers libclang reports must reach the IR whatever the options are: the offset feeds
// the layout assertions AND the padding computation of the layout tracker.
#![allow(warnings)]
#[derive(Clone, Copy, PartialEq, Eq, Debug)] pub struct Str(pub u8);      // a name, by identity; 0 = the empty string
impl Str { pub fn is_empty(&self) -> bool { self.0 == 0 } }
#[derive(Clone, Copy)] pub struct Cursor { pub name: Str, pub public: bool, pub offset: Result<usize, ()>, pub comment: Option<Str> }
impl Cursor {
    pub fn raw_comment(&self) -> Option<Str> { self.comment } pub fn spelling(&self) -> Str { self.name } pub fn public_accessible(&self) -> bool { self.public }
    pub fn offset_of_field(&self) -> Result<usize, ()> { self.offset }
}
#[derive(Clone, Copy)] pub struct Annotations; impl Annotations { pub fn new(_: &Cursor) -> Option<Annotations> { Some(Annotations) } }
/// every option a code path could consult: all symbolic in the harness
pub struct Options { pub layout_tests: bool, pub derive_debug: bool, pub derive_copy: bool, pub derive_default: bool, pub impl_debug: bool, pub force_explicit_padding: bool, pub enable_cxx_namespaces: bool,
                     pub generate_comments: bool, pub respect_cxx_access_specs: bool, pub untagged_union: bool, pub use_core: bool, pub fit_macro_constants: bool }
pub struct BindgenContext { pub o: Options } impl BindgenContext { pub fn options(&self) -> &Options { &self.o } }
#[derive(Clone, Copy, PartialEq, Eq, Debug)] pub struct TypeId(pub usize);
#[derive(Clone, Copy)] pub struct RawField { pub name: Option<Str>, pub ty: TypeId, pub bitfield_width: Option<u32>, pub public: bool, pub offset: Option<usize> }
impl RawField { pub fn new(name: Option<Str>, ty: TypeId, _comment: Option<Str>, _annotations: Option<Annotations>, bitfield_width: Option<u32>, public: bool, offset: Option<usize>) -> RawField { RawField { name, ty, bitfield_width, public, offset } } }
pub struct Fields { pub last: Option<RawField>, pub n: usize } impl Fields { pub fn append_raw_field(&mut self, f: RawField) { self.last = Some(f); self.n += 1; } }
pub struct CompInfo { pub fields: Fields }
pub fn record_field(ctx: &BindgenContext, ci: &mut CompInfo, cur: Cursor, field_type: TypeId, bit_width: Option<u32>) {
/*FIELD_RECORD*/
}
#[cfg(kani)]
mod proofs {
    use super::*;
    #[kani::proof]
    fn a_member_is_recorded_with_the_numbers_libclang_reports_whatever_the_options() {
        let o = Options { layout_tests: kani::any(), derive_debug: kani::any(), derive_copy: kani::any(), derive_default: kani::any(), impl_debug: kani::any(), force_explicit_padding: kani::any(), enable_cxx_namespaces: kani::any(),
                          generate_comments: kani::any(), respect_cxx_access_specs: kani::any(), untagged_union: kani::any(), use_core: kani::any(), fit_macro_constants: kani::any() };
        let ctx = BindgenContext { o };
        let bit_width: Option<u32> = if kani::any() { Some(kani::any()) } else { None };
        let name = Str(kani::any()); kani::assume(!name.is_empty() || bit_width.is_some());      // only bit-fields can be nameless (asserted by the code itself)
        let cur = Cursor { name, public: kani::any(), offset: if kani::any() { Ok(kani::any()) } else { Err(()) }, comment: if kani::any() { Some(Str(7)) } else { None } };
        let mut ci = CompInfo { fields: Fields { last: None, n: 0 } };
        record_field(&ctx, &mut ci, cur, TypeId(5), bit_width);
        assert!(ci.fields.n == 1, "a member must be recorded exactly once");
        let f = ci.fields.last.unwrap();
        assert!(f.offset == cur.offset.ok(), "the member's offset in the IR is not what libclang reported (it decides explicit padding and the offset assertion, independently of every option)");
        assert!(f.bitfield_width == bit_width && f.ty == TypeId(5) && f.public == cur.public, "member recorded with another width / type / access");
        assert!(f.name == if name.is_empty() { None } else { Some(name) }, "member recorded under another name");
        kani::cover!(!ctx.o.layout_tests && f.offset.is_some(), "offset recorded with layout tests off");
    }
}
