// C09: which items are allowlisting ROOTS - the real filter closure of BindgenContext::compute_allowlisted_and_codegen_items
// (compiled as fn is_root) against an independent statement of the documented rules.
#![allow(warnings)]
macro_rules! debug { ($($t:tt)*) => {} }
pub const NV: usize = 3;
pub const ITEM_BASE: u8 = 1; pub const PARENT_BASE: u8 = 2;
#[derive(Clone, Copy, PartialEq, Eq)] pub struct Seg(pub u8);
/// a path = a known prefix (base) + the segments pushed onto it
#[derive(Clone, Copy)] pub struct PathV { pub base: u8, pub extra: [u8; NV], pub n: usize, pub stdint: bool }
impl PathV {
    pub fn push(&mut self, s: Seg) { self.extra[self.n] = s.0; self.n += 1; }
    pub fn pop(&mut self) -> Option<Seg> { if self.n == 0 { None } else { self.n -= 1; Some(Seg(self.extra[self.n])) } }
    pub fn join(&self, _: &str) -> Name { Name(*self) }
}
impl core::ops::Index<core::ops::RangeFrom<usize>> for PathV { type Output = PathV; fn index(&self, _: core::ops::RangeFrom<usize>) -> &PathV { self } }
#[derive(Clone, Copy)] pub struct Name(pub PathV);
#[derive(Clone, Copy)] pub struct FileName;
pub trait Matchable { fn answer(&self, set: &RegexSet) -> bool; }
impl Matchable for Name { fn answer(&self, s: &RegexSet) -> bool { let p = &self.0; if p.base == ITEM_BASE && p.n == 0 { s.own } else if p.base == PARENT_BASE && p.n == 1 && (p.extra[0] as usize) < NV { s.variant[p.extra[0] as usize] } else { s.other } } }
impl Matchable for &Name { fn answer(&self, s: &RegexSet) -> bool { (**self).answer(s) } }
impl Matchable for FileName { fn answer(&self, s: &RegexSet) -> bool { s.file } }
/// a set of whole-name anchored patterns, as a table of answers: for the item's own path, for parent::variant_k, for a file name, for any other text
#[derive(Clone, Copy)] pub struct RegexSet { pub empty: bool, pub own: bool, pub variant: [bool; NV], pub file: bool, pub other: bool }
impl RegexSet { pub fn is_empty(&self) -> bool { self.empty } pub fn matches<M: Matchable>(&self, m: M) -> bool { !self.empty && m.answer(self) } }
pub struct Options { pub allowlisted_types: RegexSet, pub allowlisted_functions: RegexSet, pub allowlisted_vars: RegexSet, pub allowlisted_files: RegexSet, pub allowlisted_items: RegexSet, pub allowlist_recursively: bool }
#[derive(Clone, Copy, PartialEq, Eq)] pub struct ItemId(pub usize);
pub struct File { pub named: bool } impl File { pub fn name(&self) -> Option<FileName> { if self.named { Some(FileName) } else { None } } }
pub struct Location { pub named: bool } impl Location { pub fn location(&self) -> (File, usize, usize, usize) { (File { named: self.named }, 0, 0, 0) } }
pub struct Annotations { pub replaces: Option<()> } impl Annotations { pub fn use_instead_of(&self) -> Option<&()> { self.replaces.as_ref() } }
pub struct Variant { pub k: u8 } impl Variant { pub fn name_for_allowlisting(&self) -> Seg { Seg(self.k) } }
pub struct Enum { pub v: [Variant; NV], pub n: usize } impl Enum { pub fn variants(&self) -> &[Variant] { &self.v[..self.n] } }
pub enum TypeKind { Void, NullPtr, Int(()), Float(()), Complex(()), Array(()), Vector(()), Pointer(()), Reference(()), Function(()), ResolvedTypeRef(()), Opaque, TypeParam, Enum(Enum),
                    Comp(()), Alias(()), TemplateAlias(()), TemplateInstantiation(()), UnresolvedTypeRef(()), BlockPointer(()), ObjCInterface(()), ObjCId, ObjCSel }
pub struct Type { pub kind: TypeKind, pub name: Option<()> } impl Type { pub fn kind(&self) -> &TypeKind { &self.kind } pub fn name(&self) -> Option<&()> { self.name.as_ref() } }
pub enum ItemKind { Module(()), Function(()), Var(()), Type(Type) }
pub struct Item { pub kind: ItemKind, pub annotations: Annotations, pub loc: Option<Location>, pub path: PathV, pub parent: ItemId }
impl Item {
    pub fn kind(&self) -> &ItemKind { &self.kind }
    pub fn annotations(&self) -> &Annotations { &self.annotations }
    pub fn location(&self) -> Option<&Location> { self.loc.as_ref() }
    pub fn path_for_allowlisting(&self, _: &BindgenContext) -> &PathV { &self.path }
    pub fn parent_id(&self) -> ItemId { self.parent }
    pub fn is_module(&self) -> bool { matches!(self.kind, ItemKind::Module(..)) }
}
pub struct BindgenContext { pub o: Options, pub parent: Item }
impl BindgenContext {
    pub fn options(&self) -> &Options { &self.o }
    pub fn resolve_item(&self, _: ItemId) -> &Item { &self.parent }
    pub fn is_stdint_type(&self, n: &Name) -> bool { n.0.stdint }
    pub fn is_root(&self, item: &Item) -> bool
/*CLOSURE_BODY*/
}
#[cfg(kani)]
mod proofs {
    use super::*;
    fn any_set() -> RegexSet { let s = RegexSet { empty: kani::any(), own: kani::any(), variant: kani::any(), file: kani::any(), other: kani::any() }; s }
    fn path(base: u8) -> PathV { PathV { base, extra: [0; NV], n: 0, stdint: kani::any() } }
    /// ik: 0 module, 1 function, 2 var, 3 type of kind tk
    fn case(ik: u8, tk: u8) {
        let nv: usize = kani::any(); kani::assume(nv <= NV);
        let named: bool = kani::any();
        let kind = match tk { 0 => TypeKind::Void, 1 => TypeKind::NullPtr, 2 => TypeKind::Int(()), 3 => TypeKind::Float(()), 4 => TypeKind::Complex(()), 5 => TypeKind::Array(()), 6 => TypeKind::Vector(()), 7 => TypeKind::Pointer(()),
            8 => TypeKind::Reference(()), 9 => TypeKind::Function(()), 10 => TypeKind::ResolvedTypeRef(()), 11 => TypeKind::Opaque, 12 => TypeKind::TypeParam,
            13 => TypeKind::Enum(Enum { v: [Variant { k: 0 }, Variant { k: 1 }, Variant { k: 2 }], n: nv }),
            14 => TypeKind::Comp(()), 15 => TypeKind::Alias(()), 16 => TypeKind::TemplateAlias(()), 17 => TypeKind::TemplateInstantiation(()), 18 => TypeKind::UnresolvedTypeRef(()), 19 => TypeKind::BlockPointer(()),
            20 => TypeKind::ObjCInterface(()), 21 => TypeKind::ObjCId, _ => TypeKind::ObjCSel };
        let builtin_like = tk <= 12;
        let parent_is_module: bool = kani::any();
        let ctx = BindgenContext {
            o: Options { allowlisted_types: any_set(), allowlisted_functions: any_set(), allowlisted_vars: any_set(), allowlisted_files: any_set(), allowlisted_items: any_set(), allowlist_recursively: kani::any() },
            parent: Item { kind: if parent_is_module { ItemKind::Module(()) } else { ItemKind::Type(Type { kind: TypeKind::Comp(()), name: Some(()) }) }, annotations: Annotations { replaces: None }, loc: None, path: path(PARENT_BASE), parent: ItemId(0) },
        };
        let has_loc: bool = kani::any(); let file_named: bool = kani::any(); let replaces: bool = kani::any();
        let item = Item { kind: match ik { 0 => ItemKind::Module(()), 1 => ItemKind::Function(()), 2 => ItemKind::Var(()), _ => ItemKind::Type(Type { kind, name: if named { Some(()) } else { None } }) },
                          annotations: Annotations { replaces: if replaces { Some(()) } else { None } }, loc: if has_loc { Some(Location { named: file_named }) } else { None }, path: path(ITEM_BASE), parent: ItemId(1) };
        let got = ctx.is_root(&item);
        // ---- the documented rules ----
        let o = &ctx.o;
        let m = |s: &RegexSet, a: bool| !s.empty && a;     // an empty pattern set matches nothing
        let nothing_allowlisted = o.allowlisted_types.empty && o.allowlisted_functions.empty && o.allowlisted_vars.empty && o.allowlisted_files.empty && o.allowlisted_items.empty;
        let by_file = has_loc && file_named && m(&o.allowlisted_files, o.allowlisted_files.file);
        let by_item = m(&o.allowlisted_items, o.allowlisted_items.own);
        let by_kind = match ik {
            0 => true,                                                  // modules are always kept: they are containers
            1 => m(&o.allowlisted_functions, o.allowlisted_functions.own),
            2 => m(&o.allowlisted_vars, o.allowlisted_vars.own),
            _ => m(&o.allowlisted_types, o.allowlisted_types.own)
                 || (!o.allowlist_recursively && (builtin_like || item.path.stdint))
                 // an unnamed top-level enum is a bag of constants: selected through --allowlist-var / --allowlist-item by ANY of its variants' whole names
                 || (parent_is_module && tk == 13 && !named && {
                        let mut any = false; let mut k = 0;
                        while k < nv { if m(&o.allowlisted_vars, o.allowlisted_vars.variant[k]) || m(&o.allowlisted_items, o.allowlisted_items.variant[k]) { any = true; } k += 1; }
                        any }),
        };
        let want = nothing_allowlisted || replaces || by_file || by_item || by_kind;
        assert!(!want || got, "an item matched by an allowlist pattern of its kind is not selected as a root");
        assert!(want || got == false, "an item matched by no allowlist pattern of its kind is selected as a root");
        kani::cover!(got && !nothing_allowlisted, "selected by a pattern");
        kani::cover!(!got, "not selected");
    }
    /*GENERATED*/
}
