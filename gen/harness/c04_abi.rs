// C04: calling-convention mapping (get_abi) and override precedence + feature gate (FunctionSig::abi), real text of ir/function.rs.
#![allow(warnings)]
pub mod clang_sys {
    pub type CXCallingConv = u32;
    macro_rules! cc { ($($n:ident = $v:expr),*) => { $(pub const $n: CXCallingConv = $v;)* } }
    cc!(CXCallingConv_Default = 0, CXCallingConv_C = 1, CXCallingConv_X86StdCall = 2, CXCallingConv_X86FastCall = 3, CXCallingConv_X86ThisCall = 4, CXCallingConv_X86Pascal = 5, CXCallingConv_AAPCS = 6,
        CXCallingConv_AAPCS_VFP = 7, CXCallingConv_X86RegCall = 8, CXCallingConv_IntelOclBicc = 9, CXCallingConv_X86_64Win64 = 10, CXCallingConv_X86_64SysV = 11, CXCallingConv_X86VectorCall = 12,
        CXCallingConv_Swift = 13, CXCallingConv_PreserveMost = 14, CXCallingConv_PreserveAll = 15, CXCallingConv_AArch64VectorCall = 16, CXCallingConv_Invalid = 100, CXCallingConv_Unexposed = 200);
}
use clang_sys::CXCallingConv;
/*ABI_ENUM*/
#[derive(Debug, Copy, Clone, PartialEq)] pub enum ClangAbi { Known(Abi), Unknown(CXCallingConv) }
/*GET_ABI*/
pub mod crate_codegen_error { #[derive(Debug, PartialEq)] pub enum Error { UnsupportedAbi(&'static str) } pub type Result<T> = std::result::Result<T, Error>; }
#[derive(Clone, Copy)] pub struct Features { pub thiscall_abi: bool, pub vectorcall_abi: bool, pub c_unwind_abi: bool, pub abi_efiapi: bool }
pub struct RegexSet { pub for_param: bool, pub for_own: bool } impl RegexSet { pub fn matches(&self, n: &str) -> bool { if n == "param" { self.for_param } else { self.for_own } } }
pub struct Overrides { pub a: [(Abi, RegexSet); 2], pub n: usize }
pub struct OIter<'a> { o: &'a Overrides, i: usize }
impl<'a> Iterator for OIter<'a> { type Item = &'a (Abi, RegexSet); fn next(&mut self) -> Option<Self::Item> { if self.i >= 2 { return None; } let k = self.i; self.i += 1; if k < self.o.n { Some(&self.o.a[k]) } else { None } } }
impl Overrides { pub fn iter(&self) -> OIter<'_> { OIter { o: self, i: 0 } } }
pub struct Options { pub abi_overrides: Overrides, pub f: Features } impl Options { pub fn rust_features(&self) -> Features { self.f } }
pub struct BindgenContext { pub o: Options } impl BindgenContext { pub fn options(&self) -> &Options { &self.o } }
pub struct FunctionSig { pub name: String, pub abi: ClangAbi, pub variadic: bool }
impl FunctionSig {
    pub fn is_variadic(&self) -> bool { self.variadic }
    /*ABI_FN*/
}
#[cfg(kani)]
mod proofs {
    use super::*; use clang_sys::*;
    #[kani::proof]
    fn calling_conventions_map_to_the_abi_of_the_same_name() {
        let cc: u32 = kani::any();
        let r = get_abi(cc);
        let want = if cc == CXCallingConv_Default || cc == CXCallingConv_C { Some(Abi::C) } else if cc == CXCallingConv_X86StdCall { Some(Abi::Stdcall) } else if cc == CXCallingConv_X86FastCall { Some(Abi::Fastcall) }
            else if cc == CXCallingConv_X86ThisCall { Some(Abi::ThisCall) } else if cc == CXCallingConv_X86VectorCall || cc == CXCallingConv_AArch64VectorCall { Some(Abi::Vectorcall) }
            else if cc == CXCallingConv_AAPCS { Some(Abi::Aapcs) } else if cc == CXCallingConv_X86_64Win64 { Some(Abi::Win64) } else { None };
        match (r, want) { (ClangAbi::Known(a), Some(w)) => assert!(a == w, "calling convention mapped to a different ABI"), (ClangAbi::Unknown(c), None) => assert!(c == cc), _ => assert!(false, "calling convention known/unknown status differs from the table") }
    }
    fn any_abi() -> Abi { let abis = [Abi::C, Abi::Stdcall, Abi::EfiApi, Abi::Fastcall, Abi::ThisCall, Abi::Vectorcall, Abi::Aapcs, Abi::Win64, Abi::CUnwind, Abi::System]; let i: usize = kani::any(); kani::assume(i < 10); abis[i] }
    #[kani::proof] #[kani::unwind(8)]
    fn override_precedence_and_feature_gate() {
        let own = if kani::any() { ClangAbi::Known(any_abi()) } else { ClangAbi::Unknown(77) };
        let n: usize = kani::any(); kani::assume(n <= 2);
        let ov = Overrides { a: [(any_abi(), RegexSet { for_param: kani::any(), for_own: kani::any() }), (any_abi(), RegexSet { for_param: kani::any(), for_own: kani::any() })], n };
        let f = Features { thiscall_abi: kani::any(), vectorcall_abi: kani::any(), c_unwind_abi: kani::any(), abi_efiapi: kani::any() };
        let ctx = BindgenContext { o: Options { abi_overrides: ov, f } };
        let sig = FunctionSig { name: String::from("own"), abi: own, variadic: kani::any() };
        let by_param: bool = kani::any();
        let r = sig.abi(&ctx, if by_param { Some("param") } else { None });
        // the first override whose pattern matches the looked-up name wins, else the ABI clang reported
        let m = |k: usize| if by_param { ctx.o.abi_overrides.a[k].1.for_param } else { ctx.o.abi_overrides.a[k].1.for_own };
        let chosen = if n >= 1 && m(0) { ClangAbi::Known(ctx.o.abi_overrides.a[0].0) } else if n >= 2 && m(1) { ClangAbi::Known(ctx.o.abi_overrides.a[1].0) } else { own };
        let blocked = match chosen { ClangAbi::Known(Abi::ThisCall) => !f.thiscall_abi, ClangAbi::Known(Abi::Vectorcall) => !f.vectorcall_abi, ClangAbi::Known(Abi::CUnwind) => !f.c_unwind_abi, ClangAbi::Known(Abi::EfiApi) => !f.abi_efiapi,
            ClangAbi::Known(Abi::Win64) => sig.variadic, _ => false };
        match r { Ok(a) => assert!(!blocked && a == chosen, "wrong ABI chosen, or an ABI the Rust target lacks was let through"), Err(_) => assert!(blocked, "ABI rejected although the Rust target has it") }
        core::mem::forget(sig);
    }
}
