// C04: calling-convention mapping (get_abi) and override precedence + feature gate (FunctionSig::abi), real text of ir/function.rs.
#![allow(warnings)]
pub mod clang_sys {
    pub type CXCallingConv = u32;
    macro_rules! cc { ($($n:ident = $v:expr),*) => { $(pub const $n: CXCallingConv = $v;)* } }
    cc!(CXCallingConv_Default = 0, CXCallingConv_C = 1, CXCallingConv_X86StdCall = 2, CXCallingConv_X86FastCall = 3, CXCallingConv_X86ThisCall = 4, CXCallingConv_X86Pascal = 5, CXCallingConv_AAPCS = 6,
        CXCallingConv_AAPCS_VFP = 7, CXCallingConv_X86RegCall = 8, CXCallingConv_IntelOclBicc = 9, CXCallingConv_X86_64Win64 = 10, CXCallingConv_X86_64SysV = 11, CXCallingConv_X86VectorCall = 12,
        CXCallingConv_Swift = 13, CXCallingConv_PreserveMost = 14, CXCallingConv_PreserveAll = 15, CXCallingConv_AArch64VectorCall = 16, CXCallingConv_Invalid = 100, CXCallingConv_Unexposed = 200);
}
use clang_sys::CXCallingConv;
/*ABI_ENUM*/
#[derive(Debug, Copy, Clone, PartialEq)] pub enum ClangAbi { Known(Abi), Unknown(CXCallingConv) }
/*GET_ABI*/
pub mod crate_codegen_error { #[derive(Debug, PartialEq)] pub enum Error { UnsupportedAbi(&'static str) } pub type Result<T> = std::result::Result<T, Error>; }
#[derive(Clone, Copy)] pub struct Features { pub thiscall_abi: bool, pub vectorcall_abi: bool, pub c_unwind_abi: bool, pub abi_efiapi: bool }
pub struct RegexSet { pub for_param: bool, pub for_own: bool } impl RegexSet { pub fn matches(&self, n: &str) -> bool { if n == "param" { self.for_param } else { self.for_own } } }
pub struct Overrides { pub a: [(Abi, RegexSet); 2], pub n: usize }
pub struct OIter<'a> { o: &'a Overrides, i: usize }
impl<'a> Iterator for OIter<'a> { type Item = &'a (Abi, RegexSet); fn next(&mut self) -> Option<Self::Item> { if self.i >= 2 { return None; } let k = self.i; self.i += 1; if k < self.o.n { Some(&self.o.a[k]) } else { None } } }
impl Overrides { pub fn iter(&self) -> OIter<'_> { OIter { o: self, i: 0 } } }
pub struct Options { pub abi_overrides: Overrides, pub f: Features } impl Options { pub fn rust_features(&self) -> Features { self.f } }
pub struct BindgenContext { pub o: Options } impl BindgenContext { pub fn options(&self) -> &Options { &self.o } }
pub struct FunctionSig { pub name: String, pub abi: ClangAbi, pub variadic: bool }
impl FunctionSig {
    pub fn is_variadic(&self) -> bool { self.variadic }
    /*ABI_FN*/
}

// ---- where the ABI is consumed: the `let abi = match signature.abi(..)` statement of Function::codegen, impl TryToRustTy for FunctionSig,
// ---- and the real impl quote::ToTokens for ClangAbi (ir/function.rs) -----------------------------------------------------------
pub mod error { pub use super::crate_codegen_error::*; }
use error::Error;
pub mod proc_macro2 { #[derive(Default)] pub struct TokenStream { pub abi: Option<super::Abi> } }
pub mod quote { pub trait ToTokens { fn to_tokens(&self, tokens: &mut super::proc_macro2::TokenStream); } }
impl quote::ToTokens for Abi { fn to_tokens(&self, tokens: &mut proc_macro2::TokenStream) { tokens.abi = Some(*self); } }
/*CLANG_ABI_TOTOKENS*/
pub mod syn {
    pub struct Type(pub Option<super::Abi>);
    macro_rules! parse_quote_ { (unsafe extern # $abi:ident fn ( # ( # $args:ident ) , * ) # $ret:ident) => {{
        let mut t = crate::proc_macro2::TokenStream::default(); crate::quote::ToTokens::to_tokens(&$abi, &mut t); crate::syn::Type(t.abi) }} }
    pub(crate) use parse_quote_ as parse_quote;
}
pub mod utils { use super::*; pub fn fnsig_return_ty(_: &BindgenContext, _: &FunctionSig) {} pub fn fnsig_arguments(_: &BindgenContext, _: &FunctionSig) {} }
pub struct Item; impl Item { pub fn location(&self) -> Option<()> { None } }
fn unsupported_abi_diagnostic(_: &str, _: bool, _: Option<()>, _: &BindgenContext, _: &Error) {}
impl FunctionSig { pub fn name(&self) -> &str { &self.name } }
pub trait TryToRustTy { type Extra; fn try_to_rust_ty(&self, ctx: &BindgenContext, extra: &Self::Extra) -> error::Result<syn::Type>; }
/*TRY_TO_RUST_TY*/
#[derive(Debug)] pub struct Function;
impl Function {
    /// the statement `let abi = match signature.abi(ctx, Some(name)) { .. };` of Function::codegen; None = the function gets no binding
    pub fn codegen_abi(&self, ctx: &BindgenContext, signature: &FunctionSig, name: &str, canonical_name: &str, item: &Item) -> Option<ClangAbi> {
        /*FN_ABI_STMT*/
        Some(abi)
    }
}
#[cfg(kani)]
mod proofs {
    use super::*; use clang_sys::*;
    #[kani::proof]
    fn calling_conventions_map_to_the_abi_of_the_same_name() {
        let cc: u32 = kani::any();
        let r = get_abi(cc);
        let want = if cc == CXCallingConv_Default || cc == CXCallingConv_C { Some(Abi::C) } else if cc == CXCallingConv_X86StdCall { Some(Abi::Stdcall) } else if cc == CXCallingConv_X86FastCall { Some(Abi::Fastcall) }
            else if cc == CXCallingConv_X86ThisCall { Some(Abi::ThisCall) } else if cc == CXCallingConv_X86VectorCall || cc == CXCallingConv_AArch64VectorCall { Some(Abi::Vectorcall) }
            else if cc == CXCallingConv_AAPCS { Some(Abi::Aapcs) } else if cc == CXCallingConv_X86_64Win64 { Some(Abi::Win64) } else { None };
        match (r, want) { (ClangAbi::Known(a), Some(w)) => assert!(a == w, "calling convention mapped to a different ABI"), (ClangAbi::Unknown(c), None) => assert!(c == cc), _ => assert!(false, "calling convention known/unknown status differs from the table") }
    }
    /// C12: whatever calling convention libclang reports, code generation binds the function / function pointer or skips it - it never panics
    #[kani::proof] #[kani::unwind(8)]
    fn any_calling_convention_is_bound_or_skipped_never_a_panic() {
        let cc: u32 = kani::any();
        let f = Features { thiscall_abi: kani::any(), vectorcall_abi: kani::any(), c_unwind_abi: kani::any(), abi_efiapi: kani::any() };
        let ctx = BindgenContext { o: Options { abi_overrides: Overrides { a: [(Abi::C, RegexSet { for_param: false, for_own: false }), (Abi::C, RegexSet { for_param: false, for_own: false })], n: 0 }, f } };
        let sig = FunctionSig { name: String::from("own"), abi: get_abi(cc), variadic: kani::any() };
        if kani::any() {
            let r = Function.codegen_abi(&ctx, &sig, "param", "param", &Item);
            if let Some(a) = r { assert!(matches!(a, ClangAbi::Known(_)), "a function is bound with a calling convention Rust cannot name"); }
            kani::cover!(r.is_none(), "function skipped");
        } else {
            let r = sig.try_to_rust_ty(&ctx, &Item);
            if let Ok(t) = r { assert!(t.0.is_some(), "function pointer type without an ABI string"); }
        }
        core::mem::forget(sig);
    }
    fn any_abi() -> Abi { let abis = [Abi::C, Abi::Stdcall, Abi::EfiApi, Abi::Fastcall, Abi::ThisCall, Abi::Vectorcall, Abi::Aapcs, Abi::Win64, Abi::CUnwind, Abi::System]; let i: usize = kani::any(); kani::assume(i < 10); abis[i] }
    #[kani::proof] #[kani::unwind(8)]
    fn override_precedence_and_feature_gate() {
        let own = if kani::any() { ClangAbi::Known(any_abi()) } else { ClangAbi::Unknown(77) };
        let n: usize = kani::any(); kani::assume(n <= 2);
        let ov = Overrides { a: [(any_abi(), RegexSet { for_param: kani::any(), for_own: kani::any() }), (any_abi(), RegexSet { for_param: kani::any(), for_own: kani::any() })], n };
        let f = Features { thiscall_abi: kani::any(), vectorcall_abi: kani::any(), c_unwind_abi: kani::any(), abi_efiapi: kani::any() };
        let ctx = BindgenContext { o: Options { abi_overrides: ov, f } };
        let sig = FunctionSig { name: String::from("own"), abi: own, variadic: kani::any() };
        let by_param: bool = kani::any();
        let r = sig.abi(&ctx, if by_param { Some("param") } else { None });
        // the first override whose pattern matches the looked-up name wins, else the ABI clang reported
        let m = |k: usize| if by_param { ctx.o.abi_overrides.a[k].1.for_param } else { ctx.o.abi_overrides.a[k].1.for_own };
        let chosen = if n >= 1 && m(0) { ClangAbi::Known(ctx.o.abi_overrides.a[0].0) } else if n >= 2 && m(1) { ClangAbi::Known(ctx.o.abi_overrides.a[1].0) } else { own };
        let blocked = match chosen { ClangAbi::Known(Abi::ThisCall) => !f.thiscall_abi, ClangAbi::Known(Abi::Vectorcall) => !f.vectorcall_abi, ClangAbi::Known(Abi::CUnwind) => !f.c_unwind_abi, ClangAbi::Known(Abi::EfiApi) => !f.abi_efiapi,
            ClangAbi::Known(Abi::Win64) => sig.variadic,
            ClangAbi::Unknown(_) => true,   // a convention Rust cannot name is never let through (it used to be, and code generation then panicked: finding F12)
            _ => false };
        match r { Ok(a) => assert!(!blocked && a == chosen, "wrong ABI chosen, or an ABI the Rust target lacks was let through"), Err(_) => assert!(blocked, "ABI rejected although the Rust target has it") }
        core::mem::forget(sig);
    }
}
