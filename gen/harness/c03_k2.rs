#[cfg(kani)]
mod proofs {
    use super::*;
    // Reference: clang RecordLayoutBuilder::LayoutBitField (Itanium, non-packed):
    //   if (width == 0 || (offset & (align_bits-1)) + width > size_bits) offset = alignTo(offset, align_bits)
    // TS = sizeof(declared type), TA = its alignment (bytes). `known` = libclang supplied the offsets.
    fn run_case<const TS: usize, const TA: usize>(known: bool) {
        let n: usize = kani::any(); kani::assume(n >= 1 && n <= K);
        let start: usize = if known { let s: usize = kani::any(); kani::assume(s <= 512 && s % 8 == 0); s } else { 0 };
        let ty = TypeId(Some(Layout::new(TS, TA)));
        let mut a = [RawField { width: 1, ty, offset: None, named: true }; K];
        let mut cur = start;
        let mut offs = [0usize; K]; let mut ws = [0usize; K];
        let mut i = 0;
        while i < K {
            if i < n {
                let w: u32 = kani::any(); kani::assume((w as usize) <= TS * 8);
                // a run never starts with a zero-width field at its own start in the unknown-offset case
                let named: bool = kani::any();
                kani::assume(w != 0 || !named);
                let mut off = cur;
                if off != 0 && (w == 0 || (off & (TA * 8 - 1)) + (w as usize) > TS * 8) { off = (off + TA * 8 - 1) / (TA * 8) * (TA * 8); }
                a[i] = RawField { width: w, ty, offset: if known { Some(off) } else { None }, named };
                offs[i] = off; ws[i] = w as usize;
                cur = off + w as usize;
            }
            i += 1;
        }
        kani::assume(cur > offs[0]); // at least one non-zero-width field (otherwise no unit is flushed)
        let ctx = BindgenContext;
        let mut out = Out { units: [None, None], n: 0 };
        let mut count = 0usize;
        let r = bitfields_to_allocation_units(&ctx, &mut count, &mut out, In { a, n, i: 0 }, false);
        assert!(r.is_ok());
        assert!(out.n == 1 && count == 1, "a run of consecutive bit-fields must become exactly one unit");
        let u = out.units[0].as_ref().unwrap();
        assert!(u.nth == 1);
        assert!(u.bitfields.len == n, "every bit-field of the run is kept");
        let mut j = 0;
        while j < K {
            if j < n {
                let b = u.bitfields.buf[j].unwrap();
                assert!(b.offset_into_unit == offs[j] - offs[0], "offset_into_unit differs from the C (Itanium) offset relative to the unit start");
                assert!(b.offset_into_unit + ws[j] <= u.layout.size * 8, "field does not fit its unit");
                if j + 1 < n { let c = u.bitfields.buf[j + 1].unwrap(); assert!(c.offset_into_unit >= b.offset_into_unit + ws[j], "fields overlap"); }
            }
            j += 1;
        }
        assert!(u.layout.size * 8 >= cur - offs[0] && u.layout.size * 8 < (cur - offs[0]) + 8, "unit size is not the byte-rounded extent of the run");
        assert!(u.layout.align == 1);
        kani::cover!(n >= 2 && offs[1] > offs[0] + ws[0], "a field was moved to the next alignment boundary");
        kani::cover!(n >= 2 && ws[1] == 0, "zero-width separator inside the run");
    }

    // packed: offsets come from clang and are taken verbatim
    fn packed_case<const TS: usize>() {
        let n: usize = kani::any(); kani::assume(n >= 1 && n <= K);
        let ty = TypeId(Some(Layout::new(TS, TS)));
        let mut a = [RawField { width: 1, ty, offset: None, named: true }; K];
        let mut cur: usize = kani::any(); kani::assume(cur <= 512);
        let first = cur;
        let mut offs = [0usize; K]; let mut ws = [0usize; K];
        let mut i = 0;
        while i < K {
            if i < n {
                let w: u32 = kani::any(); kani::assume(w >= 1 && (w as usize) <= TS * 8);
                a[i] = RawField { width: w, ty, offset: Some(cur), named: true };
                offs[i] = cur; ws[i] = w as usize; cur += w as usize;
            }
            i += 1;
        }
        let ctx = BindgenContext;
        let mut out = Out { units: [None, None], n: 0 };
        let mut count = 0usize;
        let r = bitfields_to_allocation_units(&ctx, &mut count, &mut out, In { a, n, i: 0 }, true);
        assert!(r.is_ok() && out.n == 1);
        let u = out.units[0].as_ref().unwrap();
        let mut j = 0;
        while j < K { if j < n { let b = u.bitfields.buf[j].unwrap(); assert!(b.offset_into_unit == offs[j] - first, "packed: clang offset not taken verbatim"); } j += 1; }
        assert!(u.layout.size * 8 >= cur - first && u.layout.size * 8 < (cur - first) + 8);
        kani::cover!(n >= 2 && (offs[1] % (TS * 8)) + ws[1] > TS * 8, "packed field straddles its type boundary");
    }
    // union: every bit-field sits at the same offset (bit 0 of the union); each must fit the unit
    // f7: None = whole domain, Some(false) = last field is the widest (outside finding F7), Some(true) = some earlier field is wider than the last
    fn union_case<const TS: usize>(f7: Option<bool>) {
        let n: usize = kani::any(); kani::assume(n >= 1 && n <= K);
        let ty = TypeId(Some(Layout::new(TS, TS)));
        let mut a = [RawField { width: 1, ty, offset: Some(0), named: true }; K];
        let mut ws = [0usize; K];
        let mut widest = 0usize; let mut last = 0usize;
        let mut i = 0;
        while i < K {
            if i < n {
                let w: u32 = kani::any(); kani::assume(w >= 1 && (w as usize) <= TS * 8);
                a[i] = RawField { width: w, ty, offset: Some(0), named: true };
                ws[i] = w as usize; if ws[i] > widest { widest = ws[i]; } last = ws[i];
            }
            i += 1;
        }
        if let Some(r) = f7 { kani::assume((widest > last) == r); }
        let ctx = BindgenContext;
        let mut out = Out { units: [None, None], n: 0 };
        let mut count = 0usize;
        let r = bitfields_to_allocation_units(&ctx, &mut count, &mut out, In { a, n, i: 0 }, false);
        assert!(r.is_ok() && out.n == 1);
        let u = out.units[0].as_ref().unwrap();
        let mut j = 0;
        while j < K {
            if j < n {
                let b = u.bitfields.buf[j].unwrap();
                assert!(b.offset_into_unit == 0, "union bit-field not at offset 0");
                assert!(b.offset_into_unit + ws[j] <= u.layout.size * 8, "union bit-field does not fit its storage unit (accessor would index out of bounds)");
            }
            j += 1;
        }
        assert!(u.layout.size <= TS);
    }
    /*GENERATED*/
}
