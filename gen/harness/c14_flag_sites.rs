// C14: the remaining consuming sites, reduced to the expression that decides: the two `let compile_time = ..;` statements
// (offset_of!, 1.77: CompInfo::codegen layout tests, TemplateInstantiation layout tests) and the conditions of the two `if`s of the
// flexarray-DST impl (layout_for_ptr, ptr_metadata: nightly only), real text, against the real RustFeatures.  What each branch
// then writes is a token template and is not encoded.
pub mod flag_sites {
    use super::*;
    pub struct Options { pub rust_features: RustFeatures, pub layout_tests: bool }
    impl Options { pub fn rust_features(&self) -> RustFeatures { self.rust_features } }
    pub struct BindgenContext { pub o: Options }
    impl BindgenContext { pub fn options(&self) -> &Options { &self.o } }
    pub struct Site { pub fwd: bool }
    impl Site {
        pub fn is_forward_declaration(&self) -> bool { self.fwd }
        pub fn offset_of_a(&self, ctx: &BindgenContext) -> bool { /*CT_A*/ compile_time }
        pub fn offset_of_b(&self, ctx: &BindgenContext) -> bool { /*CT_B*/ compile_time }
        pub fn layout_for_ptr(&self, ctx: &BindgenContext) -> bool { /*COND_LAYOUT*/ }
        pub fn ptr_metadata(&self, ctx: &BindgenContext) -> bool { /*COND_META*/ }
    }
    #[cfg(kani)]
    mod proofs {
        use super::*;
        #[kani::proof] #[kani::unwind(6)]
        fn offset_of_and_pointer_metadata_sites_follow_the_target() {
            let nightly: bool = kani::any(); let minor: u64 = kani::any();
            let target = if nightly { RustTarget::nightly() } else { RustTarget(Version::Stable(minor, kani::any())) };
            let e: u8 = kani::any(); kani::assume((e as usize) < RustEdition::ALL.len()); let edition = RustEdition::ALL[e as usize];
            let ctx = BindgenContext { o: Options { rust_features: RustFeatures::new(target, edition), layout_tests: kani::any() } };
            let s = Site { fwd: kani::any() };
            let has77 = nightly || minor >= 77;
            assert!(s.offset_of_a(&ctx) == has77, "template-instantiation layout test: offset_of! / const assertions not exactly from 1.77");
            assert!(s.offset_of_b(&ctx) == has77, "struct layout test: offset_of! / const assertions not exactly from 1.77");
            assert!(s.layout_for_ptr(&ctx) == nightly, "Layout::for_value_raw (layout_for_ptr) is nightly only");
            assert!(s.ptr_metadata(&ctx) == nightly, "ptr::from_raw_parts / to_raw_parts (ptr_metadata) are nightly only");
            kani::cover!(!nightly && minor == 76 && !s.offset_of_b(&ctx), "1.76: run-time layout test");
            kani::cover!(s.ptr_metadata(&ctx), "nightly DST helpers");
        }
    }
}
