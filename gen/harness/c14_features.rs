// Harness for C14, appended to the real text of bindgen/features.rs as a child
// module (sees private items).  Oracle table below is written from the Rust
// release notes, independently of the table in features.rs.
#[cfg(kani)]
mod proofs {
    use super::*;

    fn any_edition() -> RustEdition {
        let e: u8 = kani::any();
        kani::assume((e as usize) < RustEdition::ALL.len());
        RustEdition::ALL[e as usize]
    }
    fn any_target() -> RustTarget {
        if kani::any() { RustTarget::nightly() } else { RustTarget(Version::Stable(kani::any(), kani::any())) }
    }
    fn edition_min(e: RustEdition) -> u64 {
        match e { RustEdition::Edition2018 => 31, RustEdition::Edition2021 => 56, RustEdition::Edition2024 => 85 }
    }

    // (i) never too early, (ii) monotone in the minor version, patch irrelevant.
    macro_rules! table { ($m:ident) => { $m!(
        unsafe_extern_blocks => 82, offset_of => 77, literal_cstr => 77, thiscall_abi => 73,
        c_unwind_abi => 71, abi_efiapi => 68, core_ffi_c => 64, const_cstr => 59,
        vectorcall_abi => u64::MAX, ptr_metadata => u64::MAX, layout_for_ptr => u64::MAX); } }

    #[kani::proof]
    #[kani::unwind(6)]
    fn features_never_too_early_and_monotone() {
        let m1: u64 = kani::any(); let m2: u64 = kani::any();
        let p1: u64 = kani::any(); let p2: u64 = kani::any();
        kani::assume(m1 <= m2);
        let e = any_edition();
        let f1 = RustFeatures::new(RustTarget(Version::Stable(m1, p1)), e);
        let f2 = RustFeatures::new(RustTarget(Version::Stable(m2, p2)), e);
        let fnight = RustFeatures::new(RustTarget::nightly(), e);
        macro_rules! chk { ($($f:ident => $min:expr),*) => { $(
            assert!(!f1.$f || m1 >= $min, "a feature flag is enabled before its stabilisation release");
            assert!(!f1.$f || f2.$f, "a feature flag is not monotone in the minor version");
            assert!(!f2.$f || fnight.$f, "a feature flag of a stable release is missing on nightly");
        )* } }
        table!(chk);
        assert!(!f1.literal_cstr || e >= RustEdition::Edition2021, "C-string literals need edition 2021");
        assert!(!f2.literal_cstr || e >= RustEdition::Edition2021, "C-string literals need edition 2021");
        assert!(!fnight.literal_cstr || e >= RustEdition::Edition2021, "C-string literals need edition 2021 on nightly too");
        // nightly is the limit of the stable releases: for the same edition it enables exactly what a release newer than every table row enables (plus the nightly-only flags)
        macro_rules! lim { ($($f:ident => $min:expr),*) => { $( if $min != u64::MAX && m2 >= 1000 { assert!(fnight.$f == f2.$f, "nightly enables a stable feature that no stable release enables for this edition (or misses one)"); } )* } }
        table!(lim);
        kani::cover!(f1.offset_of && !f1.unsafe_extern_blocks, "between 1.77 and 1.82");
        kani::cover!(f2.unsafe_extern_blocks && !f1.const_cstr, "spans whole table");
        kani::cover!(f1.literal_cstr, "cstr literal enabled");
    }

    // patch level never matters
    #[kani::proof]
    #[kani::unwind(6)]
    fn features_ignore_patch() {
        let m: u64 = kani::any();
        let e = any_edition();
        let f1 = RustFeatures::new(RustTarget(Version::Stable(m, kani::any())), e);
        let f2 = RustFeatures::new(RustTarget(Version::Stable(m, kani::any())), e);
        assert!(f1 == f2, "patch version changes the feature set");
    }

    // each stabilised feature is on from its release onwards (not withheld) for an edition that has it
    #[kani::proof]
    #[kani::unwind(6)]
    fn features_enabled_from_release() {
        let m: u64 = kani::any();
        let f = RustFeatures::new(RustTarget(Version::Stable(m, kani::any())), RustEdition::Edition2021);
        macro_rules! chk { ($($f:ident => $min:expr),*) => { $(
            if $min != u64::MAX { assert!(m < $min || f.$f, "a stable feature is withheld at or after its release"); }
        )* } }
        table!(chk);
    }

    // (iii) editions
    #[kani::proof]
    #[kani::unwind(6)]
    fn edition_availability() {
        let m: u64 = kani::any();
        let t = RustTarget(Version::Stable(m, kani::any()));
        let e = any_edition();
        assert!(e.is_available(t) == (m >= edition_min(e)), "edition availability differs from the release table");
        assert!(e.is_available(RustTarget::nightly()), "nightly must have every edition");
        if m >= 31 {
            let l = t.latest_edition();
            assert!(l.is_available(t), "latest_edition not available");
            assert!(!(e.is_available(t) && e > l), "latest_edition is not the newest available");
        }
        assert!(RustTarget::nightly().latest_edition() == RustEdition::Edition2024);
        kani::cover!(m >= 56 && m < 85, "2021 but not 2024");
    }

    // (iv) constructors / constants
    #[kani::proof]
    #[kani::unwind(12)]
    fn stable_constructor_and_constants() {
        let rel = RustTarget::stable_releases();
        let mut lo = u64::MAX; let mut hi = 0u64;
        let mut i = 0;
        while i < rel.len() {
            let (t, m) = rel[i];
            assert!(t.minor() == Some(m), "stable_releases entry inconsistent");
            if m < lo { lo = m; } if m > hi { hi = m; }
            i += 1;
        }
        assert!(EARLIEST_STABLE_RUST.minor() == Some(lo), "EARLIEST_STABLE_RUST is not the table minimum");
        assert!(LATEST_STABLE_RUST.minor() == Some(hi), "LATEST_STABLE_RUST is not the table maximum");
        let m: u64 = kani::any(); let p: u64 = kani::any();
        match RustTarget::stable(m, p) {
            Ok(t) => { assert!(m >= lo, "stable() accepted a release older than the earliest supported"); assert!(t.minor() == Some(m)); }
            Err(InvalidRustTarget::TooEarly) => assert!(m < lo, "stable() rejected a supported release"),
        }
        // every accepted target has at least one edition (latest_edition cannot panic)
        if m >= lo { let _ = RustTarget(Version::Stable(m, p)).latest_edition(); }
        kani::cover!(m == lo, "boundary accepted");
        kani::cover!(lo > 0 && m == lo - 1, "boundary rejected");
    }

    // CLI path: no target given = newest known stable, its newest edition
    #[kani::proof]
    #[kani::unwind(6)]
    fn cli_default_is_latest() {
        assert!(RustTarget::default() == LATEST_STABLE_RUST);
        assert!(RustEdition::default() == LATEST_STABLE_RUST.latest_edition());
        assert!(RustFeatures::default() == RustFeatures::new(LATEST_STABLE_RUST, LATEST_STABLE_RUST.latest_edition()));
    }

    // (v) is_compatible
    #[kani::proof]
    fn is_compatible_is_a_preorder_consistent_with_ord() {
        let a = any_target(); let b = any_target(); let c = any_target();
        assert!(a.is_compatible(&a));
        assert!(!(a.is_compatible(&b) && b.is_compatible(&c)) || a.is_compatible(&c));
        match (a.minor(), b.minor()) {
            (Some(x), Some(y)) => assert!(a.is_compatible(&b) == (x >= y)),
            (None, _) => assert!(a.is_compatible(&b)),
            (Some(_), None) => assert!(!a.is_compatible(&b)),
        }
        // Ord agrees: a >= b  ==>  a compatible with b
        assert!(!(a >= b) || a.is_compatible(&b));
    }
}
