// C02 (primitive mapping of <stdint.h> names, packed decision) and C09 (the two name tables agree): real text, concrete names.
#![allow(warnings)]
macro_rules! info { ($($t:tt)*) => { () } }
#[derive(Clone, Copy, Debug, PartialEq, Eq, Default)] pub struct Layout { pub size: usize, pub align: usize }
pub mod syn {
    #[derive(Debug, Clone, Copy, PartialEq)] pub struct Type(pub &'static str);
    macro_rules! parse_quote {
        ([u64; 2]) => { crate::syn::Type("[u64; 2]") };
        (root :: __BindgenFloat16) => { crate::syn::Type("__BindgenFloat16") };
        ($i:ident) => { crate::syn::Type(stringify!($i)) };
    }
    pub(crate) use parse_quote;
    pub fn parse_str(_: &str) -> Result<Type, ()> { Ok(Type("custom")) }
}
macro_rules! debug_assert { ($($t:tt)*) => { () } }
pub mod int { /*INT_RS*/ }
pub use int::IntKind;
/*FLOAT_KIND*/
impl Layout { pub fn known_type_for_size(size: usize) -> Option<syn::Type> { Some(match size { 16 => syn::Type("u128"), 8 => syn::Type("u64"), 4 => syn::Type("u32"), 2 => syn::Type("u16"), 1 => syn::Type("u8"), _ => return None }) } }
pub fn integer_type(layout: Layout) -> Option<syn::Type> { Layout::known_type_for_size(layout.size) }
pub mod ast_ty {
    use super::*;
    pub fn raw_type(_: &BindgenContext, name: &'static str) -> syn::Type { syn::Type(name) }
    /*INT_KIND_RUST_TYPE*/
    /*FLOAT_KIND_RUST_TYPE*/
}
pub struct Options { pub size_t_is_usize: bool, pub convert_floats: bool, pub enable_cxx_namespaces: bool }
pub struct BindgenContext { pub options: Options }
impl BindgenContext {
    pub fn options(&self) -> &Options { &self.options }
    pub fn generated_bindgen_float16(&self) {}
    /*IS_STDINT*/
}
fn primitive_ty(_: &BindgenContext, name: &'static str) -> syn::Type { syn::Type(name) }
/*TYPE_FROM_NAMED*/

// ---- CompInfo::is_packed / already_packed against a stub field list ----
#[derive(Clone, Copy)] pub struct FieldL { pub layout: Option<Layout> }
impl FieldL { pub fn layout(&self, _: &BindgenContext) -> Option<Layout> { self.layout } }
pub struct Fields { pub a: [FieldL; 3], pub n: usize }
pub struct FIter<'a> { f: &'a Fields, i: usize }
impl<'a> Iterator for FIter<'a> { type Item = &'a FieldL; fn next(&mut self) -> Option<&'a FieldL> { if self.i >= 3 { return None; } let k = self.i; self.i += 1; if k < self.f.n { Some(&self.f.a[k]) } else { None } } }
impl<'a> IntoIterator for &'a Fields { type Item = &'a FieldL; type IntoIter = FIter<'a>; fn into_iter(self) -> FIter<'a> { FIter { f: self, i: 0 } } }
pub struct CompInfo { pub packed_attr: bool, pub has_own_virtual_method: bool, pub fields: Fields }
impl CompInfo {
    pub fn fields(&self) -> &Fields { &self.fields }
    fn each_known_field_layout(&self, ctx: &BindgenContext, mut callback: impl FnMut(Layout)) { for f in &self.fields { if let Some(l) = f.layout(ctx) { callback(l); } } }
    /*IS_PACKED*/
    /*ALREADY_PACKED*/
}

#[cfg(kani)]
mod proofs {
    use super::*;
    #[kani::proof] #[kani::unwind(24)]
    fn stdint_names_map_to_the_right_primitive() {
        let ctx = BindgenContext { options: Options { size_t_is_usize: kani::any(), convert_floats: false, enable_cxx_namespaces: false } };
        // (C name, Rust primitive with the same width and signedness, always / only with size_t_is_usize)
        let table: [(&'static str, &'static str, bool); 13] = [("int8_t", "i8", true), ("uint8_t", "u8", true), ("int16_t", "i16", true), ("uint16_t", "u16", true), ("int32_t", "i32", true),
            ("uint32_t", "u32", true), ("int64_t", "i64", true), ("uint64_t", "u64", true), ("uintptr_t", "usize", true), ("intptr_t", "isize", true), ("ptrdiff_t", "isize", true),
            ("size_t", "usize", false), ("ssize_t", "isize", false)];
        let mut i = 0;
        while i < 13 {
            let (c, r, always) = table[i];
            let got = type_from_named(&ctx, c);
            if always || ctx.options.size_t_is_usize { assert!(got == Some(syn::Type(r)), "a <stdint.h> name is mapped to a Rust primitive of different width or signedness"); }
            else { assert!(got.is_none(), "size_t / ssize_t mapped although --no-size_t-is-usize"); }
            // the allowlisting traversal stops at a name exactly when code generation replaces it by a primitive (otherwise the typedef is referenced but never emitted)
            assert!(ctx.is_stdint_type(c) == got.is_some(), "is_stdint_type (stops tracing) and type_from_named (emits a primitive) disagree");
            i += 1;
        }
        assert!(type_from_named(&ctx, "my_t").is_none() && !ctx.is_stdint_type("my_t"));
        // names whose width the C standard does NOT fix (least: at least N bits; fast: whatever is fastest - `long` for 16 and 32 on x86_64 glibc; max: widest)
        // must keep their typedef: replacing them by name with an N-bit primitive changes the width of arguments, return values and globals
        let open: [&'static str; 10] = ["int_fast16_t", "uint_fast16_t", "int_fast32_t", "uint_fast32_t", "int_fast8_t", "int_least16_t", "uint_least32_t", "int_fast64_t", "intmax_t", "uintmax_t"];
        let mut i = 0;
        while i < 10 { assert!(type_from_named(&ctx, open[i]).is_none(), "a <stdint.h> name of implementation-defined width is replaced by a fixed-width Rust primitive"); i += 1; }
    }
    /// (signed, size in bytes on x86_64-unknown-linux-gnu) of the Rust type named
    fn rust_ty(t: syn::Type) -> Option<(bool, usize)> {
        Some(match t.0 { "i8" | "c_schar" => (true, 1), "u8" | "c_uchar" => (false, 1), "i16" | "c_short" => (true, 2), "u16" | "c_ushort" => (false, 2), "i32" | "c_int" => (true, 4), "u32" | "c_uint" => (false, 4),
            "i64" | "c_long" | "c_longlong" => (true, 8), "u64" | "c_ulong" | "c_ulonglong" => (false, 8), "i128" => (true, 16), "u128" => (false, 16), _ => return None })
    }
    #[kani::proof] #[kani::unwind(30)]
    fn integer_kinds_map_to_rust_types_of_the_same_width_and_sign() {
        let ctx = BindgenContext { options: Options { size_t_is_usize: true, convert_floats: false, enable_cxx_namespaces: false } };
        let kinds = [IntKind::SChar, IntKind::UChar, IntKind::Short, IntKind::UShort, IntKind::Int, IntKind::UInt, IntKind::Long, IntKind::ULong, IntKind::LongLong, IntKind::ULongLong,
                     IntKind::I8, IntKind::U8, IntKind::I16, IntKind::U16, IntKind::I32, IntKind::U32, IntKind::I64, IntKind::U64, IntKind::I128, IntKind::U128];
        // C widths on the host target for the kinds IntKind::known_size leaves open
        let c_size = [1usize, 1, 2, 2, 4, 4, 8, 8, 8, 8, 1, 1, 2, 2, 4, 4, 8, 8, 16, 16];
        let mut i = 0;
        while i < kinds.len() {
            let t = ast_ty::int_kind_rust_type(&ctx, kinds[i], None);
            match rust_ty(t) {
                Some((signed, size)) => {
                    assert!(signed == kinds[i].is_signed(), "integer kind mapped to a Rust type of the other signedness");
                    assert!(size == c_size[i], "integer kind mapped to a Rust type of another width");
                    if let Some(k) = kinds[i].known_size() { assert!(k == size, "IntKind::known_size disagrees with the emitted type"); }
                }
                None => assert!(false, "integer kind mapped to an unknown type name"),
            }
            i += 1;
        }
        assert!(ast_ty::int_kind_rust_type(&ctx, IntKind::Bool, None) == syn::Type("bool"));
        assert!(ast_ty::int_kind_rust_type(&ctx, IntKind::Char { is_signed: kani::any() }, None) == syn::Type("c_char"));
        let w: usize = kani::any(); kani::assume(w == 1 || w == 2 || w == 4);
        assert!(rust_ty(ast_ty::int_kind_rust_type(&ctx, IntKind::WChar, Some(Layout { size: w, align: w }))) == Some((false, w)), "wchar_t must become the unsigned integer of its size");
    }
    #[kani::proof]
    fn float_kinds_map_to_rust_types_of_the_same_width() { float_case(false); float_case(true); }
    fn float_case(conv: bool) {
        let ctx = BindgenContext { options: Options { size_t_is_usize: true, convert_floats: conv, enable_cxx_namespaces: false } };
        let f = ast_ty::float_kind_rust_type(&ctx, FloatKind::Float, Some(Layout { size: 4, align: 4 }));
        assert!(f == syn::Type(if conv { "f32" } else { "c_float" }), "float mapped to a type of another width");
        let d = ast_ty::float_kind_rust_type(&ctx, FloatKind::Double, Some(Layout { size: 8, align: 8 }));
        assert!(d == syn::Type(if conv { "f64" } else { "c_double" }), "double mapped to a type of another width");
        assert!(ast_ty::float_kind_rust_type(&ctx, FloatKind::Float128, Some(Layout { size: 16, align: 16 })) == syn::Type("u128"), "__float128 must be a 16-byte, 16-aligned blob");
        assert!(ast_ty::float_kind_rust_type(&ctx, FloatKind::LongDouble, Some(Layout { size: 16, align: 16 })) == syn::Type("u128"), "16-byte long double must be a 16-byte blob");
        assert!(ast_ty::float_kind_rust_type(&ctx, FloatKind::LongDouble, Some(Layout { size: 8, align: 8 })) == syn::Type("f64"));
        assert!(ast_ty::float_kind_rust_type(&ctx, FloatKind::Float16, Some(Layout { size: 2, align: 2 })) == syn::Type("__BindgenFloat16"));
    }
    fn any_layout() -> Option<Layout> { if kani::any() { None } else { let s: usize = kani::any(); let a: u8 = kani::any(); kani::assume(a < 6 && s <= 1 << 16); Some(Layout { size: s, align: 1usize << a }) } }
    #[kani::proof] #[kani::unwind(6)]
    fn packed_attribute_and_pragma_pack_are_detected() {
        let ctx = BindgenContext { options: Options { size_t_is_usize: true, convert_floats: false, enable_cxx_namespaces: false } };
        let n: usize = kani::any(); kani::assume(n <= 3);
        let c = CompInfo { packed_attr: kani::any(), has_own_virtual_method: kani::any(), fields: Fields { a: [FieldL { layout: any_layout() }, FieldL { layout: any_layout() }, FieldL { layout: any_layout() }], n } };
        let parent = any_layout();
        let r = c.is_packed(&ctx, parent.as_ref());
        // __attribute__((packed)) always counts, whether or not the layout is known (class templates have none)
        assert!(!c.packed_attr || r, "the packed attribute is ignored");
        // #pragma pack is only visible through its effect: some field more aligned than the struct
        let mut over = false; let mut i = 0;
        while i < 3 { if i < n { if let (Some(f), Some(p)) = (c.fields.a[i].layout, parent) { if f.align > p.align { over = true; } } } i += 1; }
        assert!(!over || r, "a field more aligned than its struct (pragma pack) is not detected");
        let vt = c.has_own_virtual_method && parent.map_or(false, |p| p.align == 1);
        assert!(r == (c.packed_attr || over || vt), "is_packed differs from: attribute, or pragma-pack effect, or vtable in an align-1 struct");
    }
    #[kani::proof] #[kani::unwind(6)]
    fn already_packed_means_naturally_aligned_offsets() {
        let ctx = BindgenContext { options: Options { size_t_is_usize: true, convert_floats: false, enable_cxx_namespaces: false } };
        let n: usize = kani::any(); kani::assume(n <= 3);
        let ls = [any_layout(), any_layout(), any_layout()];
        let c = CompInfo { packed_attr: true, has_own_virtual_method: false, fields: Fields { a: [FieldL { layout: ls[0] }, FieldL { layout: ls[1] }, FieldL { layout: ls[2] }], n } };
        let r = c.already_packed(&ctx);
        let mut total = 0usize; let mut want = Some(true); let mut i = 0;
        while i < 3 { if i < n && want == Some(true) { match ls[i] { None => want = None, Some(l) => { if l.align != 0 && total % l.align != 0 { want = Some(false); } else { total += l.size; } } } } i += 1; }
        assert!(r == want, "already_packed differs from: every field starts at a multiple of its alignment when laid out without padding");
    }
}
