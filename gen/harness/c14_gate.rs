// C14 (vi): the edition gate at the top of Builder::generate, sliced as one
// statement from bindgen/lib.rs and compiled against a two-field stub Builder.
#[derive(Debug)]
pub enum BindgenError { UnsupportedEdition(RustEdition, RustTarget) }
pub struct Options { pub rust_features: RustFeatures, pub rust_edition: Option<RustEdition>, pub rust_target: RustTarget }
pub struct Builder { pub options: Options }
impl Builder {
    pub fn gate(mut self) -> Result<Options, BindgenError> {
        /*GATE*/
        Ok(self.options)
    }
}
#[cfg(kani)]
mod gate_proofs {
    use super::*;
    #[kani::proof]
    #[kani::unwind(6)]
    fn edition_gate_rejects_exactly_unavailable() {
        let t = if kani::any() { RustTarget::nightly() } else { RustTarget(Version::Stable(kani::any(), kani::any())) };
        if let Some(m) = t.minor() { kani::assume(m >= 51); }
        let ei: u8 = kani::any(); kani::assume(ei < 4);
        let ed = if ei == 3 { None } else { Some(RustEdition::ALL[ei as usize]) };
        let garbage = RustFeatures::new(RustTarget::nightly(), RustEdition::Edition2024);
        let b = Builder { options: Options { rust_features: garbage, rust_edition: ed, rust_target: t } };
        match b.gate() {
            Err(BindgenError::UnsupportedEdition(e, tt)) => {
                assert!(ed == Some(e) && tt == t);
                assert!(!e.is_available(t), "gate rejected an available edition");
            }
            Ok(o) => {
                match ed {
                    Some(e) => { assert!(e.is_available(t), "gate accepted an unavailable edition"); assert!(o.rust_features == RustFeatures::new(t, e), "features not synchronised with target/edition"); }
                    None => assert!(o.rust_features == RustFeatures::new(t, t.latest_edition()), "features not synchronised with target/latest edition"),
                }
                assert!(o.rust_target == t);
            }
        }
        kani::cover!(ed == Some(RustEdition::Edition2024) && t.minor() == Some(84), "2024 on 1.84 (rejected side)");
        kani::cover!(ed == Some(RustEdition::Edition2024) && t.minor() == Some(85), "2024 on 1.85 (accepted side)");
    }
}
