// C16: the C spelling serialize.rs writes for every built-in arithmetic type in a wrapper's declarator - the three `match` tables of
// `impl CSerialize for Type` (integer kinds, floating kinds, complex kinds), verbatim, against the ISO C spelling of each kind.
#![allow(warnings)]
#[derive(Clone, Copy, Debug)] pub struct Lit(pub &'static str);
pub struct Writer { pub out: [Option<Lit>; 2], pub n: usize }
impl Writer { pub fn put(&mut self, l: &'static str) -> Result<(), CodegenError> { self.out[self.n] = Some(Lit(l)); self.n += 1; Ok(()) } }
macro_rules! write { ($w:expr, $l:literal) => { $w.put($l) } }
macro_rules! format { ($($t:tt)*) => { () } }
pub enum CodegenError { Serialize { msg: (), loc: () } }
pub struct Item; pub fn get_loc(_: &Item) -> () { () }
/*ENUMS*/
pub fn int_spelling(int_kind: &IntKind, writer: &mut Writer, item: &Item) -> Result<(), CodegenError> {
/*MATCH_INT*/
    Ok(())
}
pub fn float_spelling(float_kind: &FloatKind, writer: &mut Writer) -> Result<(), CodegenError> {
/*MATCH_FLOAT*/
    Ok(())
}
pub fn complex_spelling(float_kind: &FloatKind, writer: &mut Writer) -> Result<(), CodegenError> {
/*MATCH_COMPLEX*/
    Ok(())
}
#[cfg(kani)]
mod proofs {
    use super::*;
    fn same(a: &str, b: &str) -> bool { let (a, b) = (a.as_bytes(), b.as_bytes()); if a.len() != b.len() { return false; } let mut i = 0; while i < a.len() { if a[i] != b[i] { return false; } i += 1; } true }
    fn one(k: IntKind, want: Option<&'static str>) {
        let mut w = Writer { out: [None; 2], n: 0 };
        let r = int_spelling(&k, &mut w, &Item);
        match want {
            Some(s) => { assert!(r.is_ok() && w.n == 1, "an integer kind C can spell is refused"); assert!(same(w.out[0].unwrap().0, s), "the wrapper spells a built-in integer type as a different C type"); }
            None => assert!(r.is_err() && w.n == 0, "an integer kind without a C spelling is written anyway"),
        }
    }
    #[kani::proof] #[kani::unwind(24)]
    fn integer_kinds_are_spelled_as_the_same_c_type() {
        one(IntKind::Bool, Some("bool")); one(IntKind::SChar, Some("signed char")); one(IntKind::UChar, Some("unsigned char")); one(IntKind::WChar, Some("wchar_t"));
        one(IntKind::Char { is_signed: true }, Some("char")); one(IntKind::Char { is_signed: false }, Some("char"));
        one(IntKind::Short, Some("short")); one(IntKind::UShort, Some("unsigned short")); one(IntKind::Int, Some("int")); one(IntKind::UInt, Some("unsigned int"));
        one(IntKind::Long, Some("long")); one(IntKind::ULong, Some("unsigned long")); one(IntKind::LongLong, Some("long long")); one(IntKind::ULongLong, Some("unsigned long long"));
        // kinds that only arise from typedef resolution / extensions: bindgen refuses to spell them (the function then gets no wrapper)
        one(IntKind::I8, None); one(IntKind::U8, None); one(IntKind::I16, None); one(IntKind::U16, None); one(IntKind::I32, None); one(IntKind::U32, None); one(IntKind::I64, None); one(IntKind::U64, None);
        one(IntKind::I128, None); one(IntKind::U128, None); one(IntKind::Char16, None);
    }
    fn fl(k: FloatKind, want: &'static str, cwant: &'static str) {
        let mut w = Writer { out: [None; 2], n: 0 };
        assert!(float_spelling(&k, &mut w).is_ok() && w.n == 1 && same(w.out[0].unwrap().0, want), "the wrapper spells a floating type as a different C type");
        let mut c = Writer { out: [None; 2], n: 0 };
        assert!(complex_spelling(&k, &mut c).is_ok() && c.n == 1 && same(c.out[0].unwrap().0, cwant), "the wrapper spells a complex type as a different C type");
    }
    #[kani::proof] #[kani::unwind(24)]
    fn floating_kinds_are_spelled_as_the_same_c_type() {
        fl(FloatKind::Float16, "_Float16", "_Float16 complex"); fl(FloatKind::Float, "float", "float complex"); fl(FloatKind::Double, "double", "double complex");
        fl(FloatKind::LongDouble, "long double", "long double complex"); fl(FloatKind::Float128, "__float128", "__complex128");
    }
}
