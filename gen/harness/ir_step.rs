// One application of the real `constrain` to node X from an ARBITRARY pre-state, on two copies of the
// state that differ in exactly one child: (B) local / inflationary / Changed-accurate / monotone,
// (C) non-interference => the dependency map (real generate_dependencies + real Trace impls +
// the analysis' own consider_edge) covers every neighbour the rule reads.
#[cfg(kani)]
pub mod step_proofs {
    use super::*;
    use crate::hctx::*;
    const H: u8 = /*HEIGHT*/;
    /*ACCESSORS*/
    /// is X subscribed to child c?  generate_dependencies (checked separately, kernel `dependencies`) records X under c exactly when
    /// both are allowlisted and the real `impl Trace for Item` emits an edge X -> c whose kind this analysis' consider_edge accepts
    fn subscribed(ctx: &BindgenContext, c: usize) -> bool {
        let mut found = false;
        ctx.items[X].trace(ctx, &mut |sub: ItemId, kind: EdgeKind| { if sub == ItemId(c) && /*CONSIDER*/(kind) { found = true; } }, &());
        found && ctx.allow.present[X] && ctx.allow.present[c]
    }
    /// opaque_mode: 0 = X's opacity unconstrained, 1 = X not opaque, 2 = X opaque
    fn step(opaque_mode: u8, tag: u8, child1: u8) {
        let ctx = mk_ctx(tag, child1);
        if opaque_mode == 1 { kani::assume(!ctx.items[X].fl.opaque); }
        if opaque_mode == 2 { kani::assume(ctx.items[X].fl.opaque); }
        /*EXTRA_ASSUME*/
        let mut a = /*NEW*/;
        let (v1, v2, vx): (u8, u8, u8) = (kani::any(), kani::any(), kani::any());
        kani::assume(v1 <= H && v2 <= H && vx <= H);
        set(&mut a, 1, v1); set(&mut a, 2, v2); set(&mut a, X, vx);
        let c: usize = kani::any(); kani::assume(c == 1 || c == 2);
        let w: u8 = kani::any(); kani::assume(w <= H);
        let vc = if c == 1 { v1 } else { v2 };
        kani::assume(w != vc);
        let ra = a.constrain(/*NODE*/(X));
        let (a1, a2, ax) = (get(&a, 1), get(&a, 2), get(&a, X));
        // second run on the same analysis object: restore the pre-state, change the fact of child c only
        set(&mut a, 1, v1); set(&mut a, 2, v2); set(&mut a, X, vx); set(&mut a, c, w);
        let rb = a.constrain(/*NODE*/(X));
        let bx = get(&a, X);
        // third run: same neighbours as the first, X's own previous fact at bottom
        set(&mut a, 1, v1); set(&mut a, 2, v2); set(&mut a, X, 0);
        let _ = a.constrain(/*NODE*/(X));
        let zx = get(&a, X);
        // (B) local: no other entry is written
        assert!(a1 == v1 && a2 == v2, "constrain(X) wrote the entry of another node");
        // (B) inflationary: the entry of X never decreases
        assert!(ax >= vx && bx >= vx, "constrain(X) lowered X's fact");
        // (B) the Changed/Same answer tells the truth (a lying `Same` loses re-queues)
        assert!((ra == ConstrainResult::Changed) == (ax != vx) && (rb == ConstrainResult::Changed) == (bx != vx), "ConstrainResult does not reflect whether X's fact changed");
        // (B) the new fact is the join of the old fact with a function of the neighbours only (so the order in which facts arrive cannot matter)
        assert!(ax == (if vx > zx { vx } else { zx }), "X's new fact is not old-fact JOIN rule(neighbours): the result depends on when X was last visited");
        // (B) monotone in the neighbour's fact
        if w > vc { assert!(bx >= ax, "rule is not monotone in a neighbour's fact"); }
        else { assert!(ax >= bx, "rule is not monotone in a neighbour's fact"); }
        // (C) non-interference: if the neighbour's fact influences the result, X is subscribed to that neighbour
        if ax != bx {
            assert!(subscribed(&ctx, c), "rule reads a neighbour it is not subscribed to (missing dependency edge): declaration order can change the result");
        }
        /*EXTRA_CHECK*/
        kani::cover!(ax != bx, "the neighbour's fact influences the result");
        kani::cover!(ra == ConstrainResult::Changed, "Changed returned");
        kani::cover!(true, "end of the step harness reached");
        core::mem::forget(a); core::mem::forget(ctx);
    }
    /*GENERATED*/
}
