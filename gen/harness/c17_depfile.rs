// C17: depfile escaping - the body of DepfileSpec::to_string (deps.rs), with the string ENGINE (String::replace, format!) replaced by a
// fixed-capacity model (listed rewrites) and everything the function decides kept verbatim: which characters are escaped, with what,
// in which order, the ':' after the target and the ' ' between prerequisites, the iteration over the dependency set.
#![allow(warnings)]
pub const CAP: usize = 28;
#[derive(Clone, Copy)] pub struct FStr { pub b: [u8; CAP], pub n: usize }
impl FStr {
    pub fn new() -> FStr { FStr { b: [0; CAP], n: 0 } }
    pub fn push(&mut self, c: u8) { self.b[self.n] = c; self.n += 1; }
    pub fn push_str(&mut self, s: &[u8]) { let mut i = 0; while i < s.len() { self.push(s[i]); i += 1; } }
    pub fn bytes(&self) -> &[u8] { &self.b[..self.n] }
    /// model of String::replace(char, &str) for an ASCII char
    pub fn verif_replace(&self, from: char, to: &str) -> FStr { replace(self.bytes(), from, to) }
}
pub fn replace(src: &[u8], from: char, to: &str) -> FStr { let mut o = FStr::new(); let mut i = 0; while i < src.len() { if src[i] == from as u8 { o.push_str(to.as_bytes()); } else { o.push(src[i]); } i += 1; } o }
pub trait VerifStr { fn verif_replace(&self, from: char, to: &str) -> FStr; }
impl VerifStr for str { fn verif_replace(&self, from: char, to: &str) -> FStr { replace(self.as_bytes(), from, to) } }
impl core::ops::Deref for FStr { type Target = str; fn deref(&self) -> &str { unsafe { core::str::from_utf8_unchecked(&self.b[..self.n]) } } }
/// models of the two format! calls: format!("{}:", x) and format!("{buf} {}", x)
pub fn fmt_target(x: FStr) -> FStr { let mut o = x; o.push(b':'); o }
pub fn fmt_append(buf: &FStr, x: FStr) -> FStr { let mut o = *buf; o.push(b' '); o.push_str(x.bytes()); o }
pub type String = FStr;
pub struct PathBuf;
/// Box<str> of the dependency set: a borrowed name
pub struct Box<T: ?Sized>(pub *const T);
impl core::ops::Deref for Box<str> { type Target = str; fn deref(&self) -> &str { unsafe { &*self.0 } } }
pub struct BTreeSet<T> { pub a: [T; 2], pub n: usize }
impl<'a, T> IntoIterator for &'a BTreeSet<T> { type Item = &'a T; type IntoIter = core::slice::Iter<'a, T>; fn into_iter(self) -> Self::IntoIter { self.a[..self.n].iter() } }
pub struct DepfileSpec { pub output_module: String, pub depfile_path: PathBuf }
impl DepfileSpec {
/*TO_STRING*/
}
#[cfg(kani)]
mod proofs {
    use super::*;
    /// reference reader (ninja / cargo style): backslash quotes the next byte, a bare space separates, the first token ends with ':'
    fn read(line: &[u8], out: &mut [[u8; 12]; 4], lens: &mut [usize; 4]) -> usize {
        let mut n = 0usize; let mut cur = 0usize; let mut i = 0usize; let mut in_tok = false;
        while i < line.len() {
            let c = line[i];
            if c == b'\\' && i + 1 < line.len() { out[n][cur] = line[i + 1]; cur += 1; i += 2; in_tok = true; continue; }
            if c == b' ' { if in_tok { lens[n] = cur; n += 1; cur = 0; in_tok = false; } i += 1; continue; }
            out[n][cur] = c; cur += 1; in_tok = true; i += 1;
        }
        if in_tok { lens[n] = cur; n += 1; }
        n
    }
    fn name<const L: usize>() -> [u8; L] { let mut b = [0u8; L]; let mut i = 0; while i < L { let o: u8 = kani::any(); kani::assume(o >= 0x20 && o < 0x7f && o != b':'); b[i] = o; i += 1; } b }
    fn fs(b: &[u8]) -> FStr { let mut f = FStr::new(); f.push_str(b); f }
    /// T = length of the target name, D1 / D2 = lengths of the prerequisites (D2 = 0: one prerequisite); every byte symbolic over printable ASCII except ':'
    fn case<const T: usize, const D1: usize, const D2: usize>() {
        let t = name::<T>(); let d1 = name::<D1>(); let d2 = name::<D2>();
        let spec = DepfileSpec { output_module: fs(&t), depfile_path: PathBuf };
        let s1 = unsafe { core::str::from_utf8_unchecked(&d1) }; let s2 = unsafe { core::str::from_utf8_unchecked(&d2) };
        let deps = BTreeSet { a: [Box(s1 as *const str), Box(s2 as *const str)], n: if D2 == 0 { 1 } else { 2 } };
        let s = spec.to_string(&deps);
        let mut out = [[0u8; 12]; 4]; let mut lens = [0usize; 4];
        let n = read(s.bytes(), &mut out, &mut lens);
        assert!(n == deps.n + 1, "the depfile line does not read back as one target and the reported prerequisites");
        assert!(lens[0] == T + 1 && out[0][T] == b':', "target token does not end with ':'");
        let mut k = 0; while k < T { assert!(out[0][k] == t[k], "target does not read back to the configured name"); k += 1; }
        assert!(lens[1] == D1, "prerequisite length changed");
        let mut k = 0; while k < D1 { assert!(out[1][k] == d1[k], "prerequisite does not read back to the same path"); k += 1; }
        if D2 > 0 { assert!(lens[2] == D2, "second prerequisite length changed"); let mut k = 0; while k < D2 { assert!(out[2][k] == d2[k], "second prerequisite does not read back to the same path"); k += 1; } }
        kani::cover!(s.n > T + D1 + D2 + 2, "something was escaped");
    }
    /*GENERATED*/
}
