// C17: who gets told about which file - four pieces of real text against stubs:
//  (a) impl ParseCallbacks for CargoCallbacks (+ the struct and its constructors): one cargo line per notification;
//  (b) the statement of BindgenContext::new that seeds the dependency set with the input headers;
//  (c) the loop of Builder::generate that announces every input header to every callback;
//  (d) the CXCursor_InclusionDirective arm of Item::parse: every included file goes to every callback AND into the dependency set.
#![allow(warnings)]
macro_rules! warn { ($($t:tt)*) => {} }
macro_rules! debug { ($($t:tt)*) => {} }
#[derive(Clone, Copy, PartialEq, Eq, Debug)] pub enum Out { Changed, EnvChanged }
pub static mut LOG: [Option<Out>; 4] = [None; 4];
pub static mut NLOG: usize = 0;
pub fn emit(o: Out) { unsafe { LOG[NLOG] = Some(o); NLOG += 1; } }
macro_rules! println {
    ("cargo:rerun-if-changed={filename}") => { emit(Out::Changed) };
    ("cargo:rerun-if-env-changed={key}") => { emit(Out::EnvChanged) };
}
pub mod callbacks { pub trait ParseCallbacks { fn header_file(&self, _filename: &str) {} fn include_file(&self, _filename: &str) {} fn read_env_var(&self, _key: &str) {} } }
/*CARGO_STRUCT*/
/*CARGO_IMPL*/
/*CARGO_PARSECALLBACKS*/

// ---- (b) (c) (d): a header / file name is an id; a list behaves as the slice of its first n elements ----
#[derive(Clone, Copy, PartialEq, Eq, Debug)] pub struct Hdr(pub u8);
impl Hdr { pub fn as_ref(&self) -> &Hdr { self } pub fn into_boxed_str(self) -> Hdr { self } }
pub struct List<T> { pub a: [T; 3], pub n: usize }
impl<T> core::ops::Deref for List<T> { type Target = [T]; fn deref(&self) -> &[T] { &self.a[..self.n] } }
impl<'a, T> IntoIterator for &'a List<T> { type Item = &'a T; type IntoIter = core::slice::Iter<'a, T>; fn into_iter(self) -> Self::IntoIter { self.a[..self.n].iter() } }
pub struct DepSet { pub has: [bool; 8] }
impl core::iter::FromIterator<Hdr> for DepSet { fn from_iter<I: IntoIterator<Item = Hdr>>(it: I) -> Self { let mut d = DepSet { has: [false; 8] }; for h in it { d.has[h.0 as usize] = true; } d } }
/// a user callback object: counts what it is told, per file id
pub struct Cb { pub headers: core::cell::Cell<[u8; 8]>, pub includes: core::cell::Cell<[u8; 8]> }
impl Cb {
    pub fn header_file(&self, h: &Hdr) { let mut a = self.headers.get(); a[h.0 as usize] += 1; self.headers.set(a); }
    pub fn include_file(&self, h: &Hdr) { let mut a = self.includes.get(); a[h.0 as usize] += 1; self.includes.set(a); }
}
pub struct Options { pub input_headers: List<Hdr>, pub parse_callbacks: List<Cb> }
impl Options { pub fn for_each_callback(&self, f: impl Fn(&Cb)) { for cb in &self.parse_callbacks { f(cb); } } }
pub fn seed_deps(options: &Options) -> DepSet {
/*SEED_STATEMENT*/
    deps
}
pub struct Builder { pub options: Options }
impl Builder { pub fn announce(&mut self) {
/*HEADER_LOOP*/
} }
pub struct Cursor { pub file: Option<Hdr> } impl Cursor { pub fn get_included_file_name(&self) -> Option<Hdr> { self.file } }
pub struct BindgenContext { pub o: Options, pub deps: core::cell::Cell<[u8; 8]> }
impl BindgenContext { pub fn options(&self) -> &Options { &self.o } pub fn add_dep(&self, h: Hdr) { let mut a = self.deps.get(); a[h.0 as usize] += 1; self.deps.set(a); } }
pub enum ParseError { Continue, Recurse }
pub fn inclusion_directive(cursor: &Cursor, ctx: &BindgenContext) -> Result<(), ParseError> {
/*INCLUSION_ARM*/
}
#[cfg(kani)]
mod proofs {
    use super::*;
    use callbacks::ParseCallbacks;
    fn log() -> ([Option<Out>; 4], usize) { unsafe { (LOG, NLOG) } }
    #[kani::proof] #[kani::unwind(6)]
    fn cargo_callbacks_print_one_line_per_notification() {
        let doit: bool = kani::any();
        let cb = CargoCallbacks::new().rerun_on_header_files(doit);
        cb.include_file("f"); let (l, n) = log();
        assert!(n == 1 && l[0] == Some(Out::Changed), "an included file is not reported to cargo (exactly one rerun-if-changed line)");
        cb.read_env_var("K"); let (l, n) = log();
        assert!(n == 2 && l[1] == Some(Out::EnvChanged), "a consulted environment variable is not reported to cargo");
        cb.header_file("h"); let (l, n) = log();
        assert!(n == if doit { 3 } else { 2 } && (!doit || l[2] == Some(Out::Changed)), "input header reporting does not follow rerun_on_header_files");
        // the documented default reports input headers
        unsafe { NLOG = 0; }
        CargoCallbacks::new().header_file("h"); assert!(log().1 == 1, "CargoCallbacks::new() does not report input headers");
    }
    fn cbs() -> List<Cb> { let z = || Cb { headers: core::cell::Cell::new([0; 8]), includes: core::cell::Cell::new([0; 8]) }; List { a: [z(), z(), z()], n: { let n: usize = kani::any(); kani::assume(n <= 3); n } } }
    fn headers() -> List<Hdr> { let h = || { let x: u8 = kani::any(); kani::assume(x < 8); Hdr(x) }; List { a: [h(), h(), h()], n: { let n: usize = kani::any(); kani::assume(n <= 3); n } } }
    #[kani::proof] #[kani::unwind(10)]
    fn every_input_header_is_a_dependency_and_is_announced() {
        let o = Options { input_headers: headers(), parse_callbacks: cbs() };
        let deps = seed_deps(&o);
        let mut i = 0; while i < o.input_headers.n { assert!(deps.has[o.input_headers.a[i].0 as usize], "an input header is missing from the reported dependencies"); i += 1; }
        let mut k = 0; while k < 8 { if deps.has[k] { let mut f = false; let mut i = 0; while i < o.input_headers.n { if o.input_headers.a[i].0 as usize == k { f = true; } i += 1; } assert!(f, "a file that is not an input header is reported before parsing"); } k += 1; }
        let mut b = Builder { options: o };
        b.announce();
        let o = &b.options;
        let mut c = 0; while c < o.parse_callbacks.n {
            let got = o.parse_callbacks.a[c].headers.get();
            let mut k = 0; while k < 8 { let mut want = 0u8; let mut i = 0; while i < o.input_headers.n { if o.input_headers.a[i].0 as usize == k { want += 1; } i += 1; } assert!(got[k] == want, "a callback is not told about every input header exactly once"); k += 1; }
            c += 1;
        }
    }
    #[kani::proof] #[kani::unwind(10)]
    fn every_included_file_is_reported_and_recorded() {
        let ctx = BindgenContext { o: Options { input_headers: headers(), parse_callbacks: cbs() }, deps: core::cell::Cell::new([0; 8]) };
        let f: u8 = kani::any(); kani::assume(f < 8);
        let cursor = Cursor { file: if kani::any() { Some(Hdr(f)) } else { None } };
        let r = inclusion_directive(&cursor, &ctx);
        assert!(matches!(r, Err(ParseError::Continue)));
        let d = ctx.deps.get();
        let mut k = 0; while k < 8 {
            let want = (cursor.file == Some(Hdr(k as u8))) as u8;
            assert!(d[k] == want, "an included file is not recorded as a dependency (or something else is)");
            let mut c = 0; while c < ctx.o.parse_callbacks.n { assert!(ctx.o.parse_callbacks.a[c].includes.get()[k] == want, "a callback is not told about an included file exactly once"); c += 1; }
            k += 1;
        }
    }
}
