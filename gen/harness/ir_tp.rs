// C07, sixth analysis: UsedTemplateParameters (its state is a SET of template parameters per item; it builds its own dependency map).
// (B) one application of the real constrain() to node X from an arbitrary pre-state: local, inflationary, truthful Changed/Same,
//     new = old UNION rule(neighbours), monotone; (C) a neighbour whose set influences the result is one X traces (any edge kind: `new`
//     subscribes every traced edge) - or the template definition / an argument of an instantiation, which are traced too;
// (D) the real UsedTemplateParameters::new records X under every item X traces, for every X in the allowlisted closure.
#[cfg(kani)]
pub mod tp_proofs {
    use super::*;
    use crate::hctx::*;
    fn any_set() -> ItemSet { ItemSet { present: [kani::any(), kani::any(), kani::any(), kani::any()] } }
    fn subset(a: &ItemSet, b: &ItemSet) -> bool { let mut i = 0; let mut r = true; while i < NI { if a.present[i] && !b.present[i] { r = false; } i += 1; } r }
    fn same(a: &ItemSet, b: &ItemSet) -> bool { subset(a, b) && subset(b, a) }
    fn union(a: &ItemSet, b: &ItemSet) -> ItemSet { let mut u = ItemSet::new(); let mut i = 0; while i < NI { u.present[i] = a.present[i] || b.present[i]; i += 1; } u }
    fn traced(ctx: &BindgenContext, c: usize) -> bool {
        let mut found = false;
        ctx.items[X].trace(ctx, &mut |sub: ItemId, _: EdgeKind| { if sub == ItemId(c) { found = true; } }, &());
        found
    }
    fn ctx_for(tag: u8) -> BindgenContext {
        let mut ctx = mk_ctx(tag, 0);
        // child 1 is what an instantiation's definition / a reference resolves to: let it be a composite that may declare one parameter
        if tag == 13 || tag == 5 { let mut c = empty_comp(CompKind::Struct); c.self_tparams = kani::any::<bool>() as usize; ctx.items[1].kind = ItemKind::Type(Type { kind: TypeKind::Comp(c), layout: None, named: true }); }
        ctx.allow = ItemSet { present: [true, kani::any(), kani::any(), true] };
        ctx
    }
    fn put(a: &mut UsedTemplateParameters, s: [&ItemSet; 4]) { let mut i = 0; while i < NI { a.used.vals[i] = Some(Some(s[i].clone())); i += 1; } }
    fn x_of(a: &UsedTemplateParameters) -> ItemSet { a.used.vals[X].as_ref().unwrap().as_ref().unwrap().clone() }
    fn fresh<'c>(ctx: &'c BindgenContext) -> UsedTemplateParameters<'c> {
        let allow: HashSet<ItemId> = HashSet { present: ctx.allow.present, ..HashSet::default() };
        UsedTemplateParameters { ctx, used: HashMap::default(), dependencies: HashMap::default(), allowlisted_items: allow }
    }
    /// (B1) local, inflationary, truthful Changed/Same, new = old UNION rule(neighbours)   [two applications of constrain]
    fn step(tag: u8) {
        let ctx = ctx_for(tag);
        let mut a = fresh(&ctx);
        let (s0, s1, s2, sx) = (any_set(), any_set(), any_set(), any_set());
        put(&mut a, [&s0, &s1, &s2, &sx]);
        let ra = a.constrain(ItemId(X));
        let ax = x_of(&a);
        let mut i = 0; while i < X { let cur = a.used.vals[i].as_ref().unwrap().as_ref().unwrap(); assert!(same(cur, [&s0, &s1, &s2][i]), "constrain(X) wrote the entry of another node"); i += 1; }
        assert!(subset(&sx, &ax), "constrain(X) removed a used template parameter");
        assert!((ra == ConstrainResult::Changed) == !same(&ax, &sx), "ConstrainResult does not reflect whether X's set changed");
        let empty = ItemSet::new();
        put(&mut a, [&s0, &s1, &s2, &empty]);
        let _ = a.constrain(ItemId(X));
        let zx = x_of(&a);
        assert!(same(&ax, &union(&sx, &zx)), "X's new set is not old set UNION rule(neighbours)");
        kani::cover!(ra == ConstrainResult::Changed, "Changed returned");
        kani::cover!(true, "end of the step harness reached");
        core::mem::forget(a); core::mem::forget(ctx);
    }
    /// (B2) monotone in a neighbour's set; (C) a neighbour whose set influences the result is one X traces   [two applications of constrain]
    fn mono(tag: u8) {
        let ctx = ctx_for(tag);
        let mut a = fresh(&ctx);
        let (s0, s1, s2, sx) = (any_set(), any_set(), any_set(), any_set());
        put(&mut a, [&s0, &s1, &s2, &sx]);
        let _ = a.constrain(ItemId(X));
        let ax = x_of(&a);
        let c: usize = kani::any(); kani::assume(c < X);
        let w = any_set();
        let mut t = [&s0, &s1, &s2, &sx]; t[c] = &w;
        put(&mut a, t);
        let _ = a.constrain(ItemId(X));
        let bx = x_of(&a);
        let vc = [&s0, &s1, &s2][c];
        if subset(vc, &w) { assert!(subset(&ax, &bx), "rule is not monotone in a neighbour's set"); }
        if !same(&ax, &bx) { assert!(traced(&ctx, c), "rule reads the set of an item X is not subscribed to (X does not trace it): declaration order can change the result"); }
        kani::cover!(!same(&ax, &bx), "a neighbour's set influences the result");
        kani::cover!(true, "end of the step harness reached");
        core::mem::forget(a); core::mem::forget(ctx);
    }
    /// the body of the `for item in allowlisted_and_blocklisted_items { .. }` loop of UsedTemplateParameters::new, applied to item = X
    /// (running the whole of `new` makes the iterated item symbolic: out of memory, measured)
    fn new_body<'ctx>(ctx: &'ctx BindgenContext, used: &mut HashMap<ItemId, Option<ItemSet>>, dependencies: &mut HashMap<ItemId, Vec<ItemId>>, allowlisted_items: &HashSet<ItemId>, item: ItemId) {
/*NEW_LOOP_BODY*/
    }
    fn deps(tag: u8) {
        let ctx = ctx_for(tag);
        let allow: HashSet<ItemId> = HashSet { present: ctx.allow.present, ..HashSet::default() };
        let mut used = HashMap::default(); let mut dependencies = HashMap::default();
        new_body(&ctx, &mut used, &mut dependencies, &allow, ItemId(X));
        // X is recorded under every item it traces - allowlisted or not: it must be re-examined when that item's set grows
        let c: usize = kani::any(); kani::assume(c < X);
        if traced(&ctx, c) {
            assert!(dependencies.vals[c].as_ref().map_or(false, |v| v.contains(&ItemId(X))), "an item of the allowlisted closure reads a neighbour's set without a reverse dependency edge");
            assert!(used.vals[c].is_some(), "traced item without a usage set");
        }
        assert!(used.vals[X].is_some() && dependencies.vals[X].is_some(), "visited item without a usage set / dependency entry");
        kani::cover!(traced(&ctx, 1) && !ctx.allow.present[1], "X traces a non-allowlisted item");
        core::mem::forget(used); core::mem::forget(dependencies); core::mem::forget(ctx);
    }
    /*GENERATED*/
}
