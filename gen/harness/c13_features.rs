// C12/C13: RustTarget / RustEdition text codecs (real features.rs); string SHAPES are harness parameters,
// digits are symbolic.  memchr and (where the message is not the subject) fmt::format are stubbed.
#[cfg(kani)]
mod codec_proofs {
    use super::*;
    pub fn naive_memchr(x: u8, text: &[u8]) -> Option<usize> { let mut i = 0; while i < text.len() { if text[i] == x { return Some(i); } i += 1; } None }
    pub fn stub_format(_: core::fmt::Arguments<'_>) -> String { String::new() }
    fn digit() -> u8 { let d: u8 = kani::any(); kani::assume(d <= 9); d }
    fn val(ds: &[u8]) -> u64 { let mut v = 0u64; let mut i = 0; while i < ds.len() { v = v * 10 + ds[i] as u64; i += 1; } v }

    /// parse a string of the given shape; check: never panics; Ok exactly when minor' >= 51 where minor' = minor - 1 for "-nightly";
    /// value = (minor', patch) with patch = MAX for nightly pre-releases; beta suffixes ignored
    fn check(bytes: &[u8], minor: u64, patch: u64, suffix: u8) {
        let s = unsafe { core::str::from_utf8_unchecked(bytes) };
        let r = s.parse::<RustTarget>();
        let lo = EARLIEST_STABLE_RUST.minor().unwrap();
        match suffix {
            0 | 1 | 2 => { // "", "-beta", "-beta.N"
                match &r { Ok(t) => { assert!(minor >= lo, "accepted a target older than the earliest supported"); assert!(*t == RustTarget(Version::Stable(minor, patch)), "parsed value differs from the text"); }
                           Err(_) => assert!(minor < lo, "rejected a supported target") }
            }
            3 => { // "-nightly": previous release, maximal patch
                match &r { Ok(t) => { assert!(minor >= 1 && minor - 1 >= lo); assert!(*t == RustTarget(Version::Stable(minor - 1, u64::MAX)), "nightly pre-release must map to the previous stable release"); }
                           Err(_) => assert!(minor == 0 || minor - 1 < lo, "rejected a supported nightly pre-release") }
            }
            _ => assert!(r.is_err(), "unknown pre-release suffix accepted"),
        }
        core::mem::forget(r);
    }
    /*GENERATED*/

    // Display then FromStr is the identity (C13) for targets whose minor/patch have the stated number of digits
    fn roundtrip<const MD: usize, const PD: usize>() {
        let mut m = [0u8; MD]; let mut p = [0u8; PD];
        let mut i = 0; while i < MD { m[i] = digit(); i += 1; } let mut i = 0; while i < PD { p[i] = digit(); i += 1; }
        kani::assume(MD == 1 || m[0] != 0); kani::assume(PD == 1 || p[0] != 0);
        let (mv, pv) = (val(&m), val(&p));
        kani::assume(mv >= 51);
        let t = RustTarget(Version::Stable(mv, pv));
        let s = t.to_string();
        let r = s.parse::<RustTarget>();
        assert!(matches!(&r, Ok(x) if *x == t), "RustTarget does not round-trip through its text form");
        core::mem::forget(r); core::mem::forget(s);
    }
    #[kani::proof] #[kani::unwind(12)] #[kani::stub(core::slice::memchr::memchr, naive_memchr)]
    fn target_roundtrip_2_1() { roundtrip::<2, 1>() }
    #[kani::proof] #[kani::unwind(12)] #[kani::stub(core::slice::memchr::memchr, naive_memchr)]
    fn target_roundtrip_3_2() { roundtrip::<3, 2>() }
    #[kani::proof] #[kani::unwind(12)] #[kani::stub(core::slice::memchr::memchr, naive_memchr)]
    fn nightly_roundtrip() {
        let s = RustTarget::nightly().to_string();
        let r = s.parse::<RustTarget>();
        assert!(matches!(&r, Ok(x) if *x == RustTarget::nightly()));
        core::mem::forget(r); core::mem::forget(s);
    }
    #[kani::proof] #[kani::unwind(12)] #[kani::stub(core::slice::memchr::memchr, naive_memchr)]
    fn edition_roundtrip() {
        let i: usize = kani::any(); kani::assume(i < RustEdition::ALL.len());
        let e = RustEdition::ALL[i];
        let s = e.to_string();
        let r = s.parse::<RustEdition>();
        assert!(matches!(&r, Ok(x) if *x == e), "RustEdition does not round-trip through its text form");
        core::mem::forget(r); core::mem::forget(s);
    }
}
