// C03 K1: the real codegen/bitfield_unit.rs (module `bitfield_unit`, unchanged
// text) against a bit-level reference model on the little-endian byte array.
#![allow(warnings)]
mod bitfield_unit;
use bitfield_unit::__BindgenBitfieldUnit as Unit;

fn ref_get(st: &[u8], off: usize, width: u8) -> u64 {
    let mut v = 0u64;
    let mut i = 0usize;
    while i < width as usize {
        let bit = off + i;
        if (st[bit / 8] >> (bit % 8)) & 1 == 1 { v |= 1u64 << i; }
        i += 1;
    }
    v
}
fn mask(width: u8) -> u64 { if width >= 64 { !0u64 } else { (1u64 << width) - 1 } }

#[cfg(kani)]
mod proofs {
    use super::*;

    fn field<const N: usize>(f2_region: bool) -> (usize, u8) {
        let off: usize = kani::any();
        let width: u8 = kani::any();
        kani::assume(width >= 1 && width <= 64);
        kani::assume(off < N * 8);
        kani::assume(off + width as usize <= N * 8);
        // F2 region: the shifted extent of the field does not fit 64 bits
        kani::assume(((off % 8) + width as usize > 64) == f2_region);
        (off, width)
    }

    /// get / raw_get == bit model
    fn get_case<const N: usize>(f2_region: bool) {
        let st: [u8; N] = kani::any();
        let (off, width) = field::<N>(f2_region);
        let u = Unit::new(st);
        let g = u.get(off, width);
        assert!(g == ref_get(&st, off, width), "get() differs from the bit model");
        let r = unsafe { Unit::raw_get(&u as *const Unit<[u8; N]>, off, width) };
        assert!(r == g, "raw_get() differs from get()");
        if !f2_region {
            kani::cover!(N < 2 || (off % 8 != 0 && width > 8), "unaligned multi-byte field");
            kani::cover!(N < 8 || width == 64, "full 64-bit field");
        }
    }

    /// set / raw_set: read-back = val mod 2^w, every bit outside the field unchanged, raw form agrees
    fn set_case<const N: usize>(f2_region: bool) {
        let st: [u8; N] = kani::any();
        let (off, width) = field::<N>(f2_region);
        let val: u64 = kani::any();
        let mut u = Unit::new(st);
        u.set(off, width, val);
        let mut u2 = Unit::new(st);
        unsafe { Unit::raw_set(&mut u2 as *mut Unit<[u8; N]>, off, width, val) };
        let orig = Unit::new(st);
        assert!(u.get(off, width) == val & mask(width), "set then get is not val mod 2^width");
        let b: usize = kani::any();
        kani::assume(b < N * 8);
        if b < off || b >= off + width as usize {
            assert!(u.get_bit(b) == orig.get_bit(b), "set() changed a bit outside the field");
        } else {
            assert!(u.get_bit(b) == ((val >> (b - off)) & 1 == 1), "set() stored a wrong bit");
        }
        assert!(u2.get_bit(b) == u.get_bit(b), "raw_set() differs from set()");
        assert!(unsafe { Unit::raw_get_bit(&u as *const Unit<[u8; N]>, b) } == u.get_bit(b), "raw_get_bit differs from get_bit");
        if !f2_region {
            kani::cover!(b + 1 == off, "bit just below the field");
            kani::cover!(b == off + width as usize, "bit just above the field");
        }
    }

    /// single-bit accessors
    fn bit_case<const N: usize>() {
        let st: [u8; N] = kani::any();
        let b: usize = kani::any(); kani::assume(b < N * 8);
        let c: usize = kani::any(); kani::assume(c < N * 8);
        let v: bool = kani::any();
        let mut u = Unit::new(st);
        assert!(u.get_bit(b) == ((st[b / 8] >> (b % 8)) & 1 == 1), "get_bit differs from model");
        u.set_bit(b, v);
        let mut u2 = Unit::new(st);
        unsafe { Unit::raw_set_bit(&mut u2 as *mut Unit<[u8; N]>, b, v) };
        assert!(u.get_bit(b) == v);
        assert!(u2.get_bit(c) == u.get_bit(c), "raw_set_bit differs from set_bit");
        if c != b { assert!(u.get_bit(c) == Unit::new(st).get_bit(c), "set_bit changed another bit"); }
        assert!(u.get(b, 1) == v as u64);
    }

    /*GENERATED*/
}
