// C04 kernels: link-name decision (utils::names_will_be_identical_after_mangling + its two call sites), real text.
#![allow(warnings)]
/*ABI_ENUM*/
#[derive(Debug, Copy, Clone, PartialEq)] pub enum ClangAbi { Known(Abi), Unknown(u32) }
/// the one fact about the target the decision uses (real: BindgenContext::target_decorates_symbols, a test on the target triple): a flag here
pub struct BindgenContext { pub decorates: bool }
impl BindgenContext { pub fn target_decorates_symbols(&self) -> bool { self.decorates } }
pub mod utils { use super::*; /*NAMES_FN*/ }
/*NAMES_ADAPTER*/
pub mod attributes { pub fn link_name<const M: bool>(n: &str) -> usize { n.as_ptr() as usize } }
pub struct Function<'a> { pub link: Option<&'a str> }
impl<'a> Function<'a> {
    pub fn link_name(&self) -> Option<&str> { self.link }
    /// Function::codegen: which #[link_name] (if any) the binding gets
    pub fn decide<'b>(&'b self, ctx: &BindgenContext, canonical_name: String, mangled_name: Option<&'b str>, name: &'b str, abi: ClangAbi) -> (Option<&'b str>, String) {
        /*FN_STMT*/
        (link_name_attr, canonical_name)
    }
}
pub struct Var<'a> { pub link: Option<&'a str>, pub mangled: Option<&'a str>, pub nm: &'a str }
impl<'a> Var<'a> {
    pub fn link_name(&self) -> Option<&str> { self.link }
    pub fn mangled_name(&self) -> Option<&str> { self.mangled }
    pub fn name(&self) -> &str { self.nm }
    /// Var::codegen: the symbol the extern static refers to, and whether a #[link_name] attribute was pushed
    pub fn decide(&self, ctx: &BindgenContext, canonical_name: String) -> (bool, bool) {
        let mut attrs: Vec<usize> = Vec::new();
        /*VAR_STMT*/
        let same = symbol.as_ptr() == canonical_name.as_str().as_ptr() && symbol.len() == canonical_name.len();
        (attrs.len() > 0, same)
    }
}

#[cfg(kani)]
mod proofs {
    use super::*;
    fn s<'a>(b: &'a [u8], n: usize) -> &'a str { unsafe { core::str::from_utf8_unchecked(&b[..n]) } }
    fn sym_bytes<const N: usize>() -> ([u8; N], usize) {
        let b: [u8; N] = kani::any(); let n: usize = kani::any(); kani::assume(n >= 1 && n <= N);
        let mut i = 0; while i < N { kani::assume(b[i] == b'a' || b[i] == b'_' || b[i] == b'@' || b[i] == b'7' || b[i] == b'$'); i += 1; }
        (b, n)
    }
    /// what the platform linker derives from the Rust-side name `c` for calling convention `abi`: c itself, or the x86 decoration
    fn decorated(decorates: bool, abi: Option<ClangAbi>, c: &[u8], m: &[u8]) -> bool {
        if c == m { return true; }
        if !decorates { return false; }     // ELF, wasm, 64-bit Windows: the symbol is the name as written
        let (prefix, suffix) = match abi {
            None | Some(ClangAbi::Known(Abi::C)) | Some(ClangAbi::Known(Abi::CUnwind)) => (b'_', false),
            Some(ClangAbi::Known(Abi::Stdcall)) => (b'_', true),
            Some(ClangAbi::Known(Abi::Fastcall)) => (b'@', true),
            _ => return false,
        };
        if m.len() < c.len() + 1 || m[0] != prefix { return false; }
        let mut i = 0; while i < c.len() { if m[1 + i] != c[i] { return false; } i += 1; }
        let rest = &m[1 + c.len()..];
        if !suffix { return rest.len() == 0; }
        if rest.len() < 2 || rest[0] != b'@' { return false; }
        let mut i = 1; while i < rest.len() { if !(rest[i] >= b'0' && rest[i] <= b'9') { return false; } i += 1; }
        true
    }
    fn any_abi() -> Option<ClangAbi> {
        let k: u8 = kani::any();
        match k { 0 => None, 1 => Some(ClangAbi::Known(Abi::C)), 2 => Some(ClangAbi::Known(Abi::CUnwind)), 3 => Some(ClangAbi::Known(Abi::Stdcall)), 4 => Some(ClangAbi::Known(Abi::Fastcall)),
                  5 => Some(ClangAbi::Known(Abi::ThisCall)), 6 => Some(ClangAbi::Known(Abi::Win64)), 7 => Some(ClangAbi::Known(Abi::System)), _ => { kani::assume(k == 8); Some(ClangAbi::Unknown(99)) } }
    }
    #[kani::proof] #[kani::unwind(10)]
    fn names_identical_iff_platform_decoration() {
        let (cb, cn) = sym_bytes::<3>(); let (mb, mn) = sym_bytes::<7>();
        let abi = any_abi();
        let ctx = BindgenContext { decorates: kani::any() };
        let r = names_identical!(&ctx, s(&cb, cn), s(&mb, mn), abi);
        let want = decorated(ctx.decorates, abi, &cb[..cn], &mb[..mn]);
        assert!(!r || want, "link_name omitted although the platform decoration of the Rust name is not the C symbol");
        assert!(r || !want || cb[..cn] != mb[..mn], "identical names must never need a link_name");
        // not over-conservative for the decorations it is documented to know
        assert!(r == want, "names_will_be_identical_after_mangling differs from the decoration table");
        kani::cover!(r && cn != mn, "a decorated name recognised"); kani::cover!(!r && !ctx.decorates && mn == cn + 1 && mb[0] == b'_', "an undecorated target: _name is another symbol");
    }
    /// C12: the link-name decision never panics (slice indices, subtraction) whatever the two names and the ABI are
    #[kani::proof] #[kani::unwind(10)]
    fn link_name_decision_never_panics() {
        let (cb, cn) = sym_bytes::<3>(); let (mb, mn) = sym_bytes::<7>();
        let ctx = BindgenContext { decorates: kani::any() };
        let r = names_identical!(&ctx, s(&cb, cn), s(&mb, mn), any_abi());
        kani::cover!(r, "identical"); kani::cover!(!r && mn == cn + 1, "prefix only, not identical");
    }
    #[kani::proof] #[kani::unwind(10)]
    fn function_binding_reaches_its_symbol() {
        let (cb, cn) = sym_bytes::<3>(); let (mb, mn) = sym_bytes::<5>(); let (nb, nn) = sym_bytes::<3>(); let (lb, ln) = sym_bytes::<3>();
        let has_link: bool = kani::any(); let has_mangled: bool = kani::any();
        let abi_o = any_abi(); kani::assume(abi_o.is_some()); let abi = abi_o.unwrap();
        let f = Function { link: if has_link { Some(s(&lb, ln)) } else { None } };
        let canonical = String::from(s(&cb, cn));
        let mangled = if has_mangled { Some(s(&mb, mn)) } else { None };
        let ctx = BindgenContext { decorates: kani::any() };
        let (attr, canonical) = f.decide(&ctx, canonical, mangled, s(&nb, nn), abi);
        // the symbol the C compiler emitted
        let truth: &[u8] = if has_link { &lb[..ln] } else if has_mangled { &mb[..mn] } else { &nb[..nn] };
        match attr {
            Some(a) => assert!(a.as_bytes() == truth, "#[link_name] names a different symbol"),
            None => assert!(decorated(ctx.decorates, Some(abi), canonical.as_bytes(), truth), "no #[link_name], yet the Rust name does not decorate to the C symbol"),
        }
        kani::cover!(attr.is_none() && !has_link, "link_name omitted");
        core::mem::forget(canonical);
    }
    #[kani::proof] #[kani::unwind(10)]
    fn variable_binding_reaches_its_symbol() {
        let (cb, cn) = sym_bytes::<3>(); let (mb, mn) = sym_bytes::<5>(); let (nb, nn) = sym_bytes::<3>(); let (lb, ln) = sym_bytes::<3>();
        let has_mangled: bool = kani::any(); let has_link: bool = kani::any();     // link: a name given by a generated_link_name_override callback (e.g. --prefix-link-name)
        let v = Var { link: if has_link { Some(s(&lb, ln)) } else { None }, mangled: if has_mangled { Some(s(&mb, mn)) } else { None }, nm: s(&nb, nn) };
        let canonical = String::from(s(&cb, cn));
        let ctx = BindgenContext { decorates: kani::any() };
        let (has_attr, uses_canonical) = v.decide(&ctx, canonical);
        let truth: &[u8] = if has_link { &lb[..ln] } else if has_mangled { &mb[..mn] } else { &nb[..nn] };
        if !has_attr { assert!(decorated(ctx.decorates, None, &cb[..cn], truth), "extern static without #[link_name] does not reach the C symbol (the platform decoration of its Rust name is another symbol)"); }
        if !has_attr && !has_link { assert!(uses_canonical, "symbol recorded for dynamic loading is not the Rust name although no #[link_name] was needed"); }
        kani::cover!(has_link && has_attr, "override bound through #[link_name]");
    }
}
