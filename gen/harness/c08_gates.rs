// C08: option gating and the derive-set assembly: the real `impl CanDerive* for T` blocks and lookup_* functions of ir/context.rs,
// the real derives_of_item of codegen/mod.rs, the real ir/derive.rs trait definitions; the analysis results are symbolic sets.
#![allow(warnings)]
#[derive(Copy, Clone, Debug, PartialEq, Eq, Default)] pub struct ItemId(pub usize);
pub struct Set { pub has: bool }
impl Set { pub fn contains(&self, _: &ItemId) -> bool { self.has } }
pub struct Map { pub v: Option<CanDerive> }
impl Map { pub fn get(&self, _: &ItemId) -> Option<&CanDerive> { self.v.as_ref() } }
pub struct Options { pub derive_debug: bool, pub derive_default: bool, pub derive_copy: bool, pub derive_hash: bool, pub derive_partialord: bool, pub derive_partialeq: bool, pub derive_eq: bool, pub derive_ord: bool }
pub struct BindgenContext {
    pub options: Options,
    pub cannot_derive_debug: Option<Set>, pub cannot_derive_default: Option<Set>, pub cannot_derive_copy: Option<Set>, pub cannot_derive_hash: Option<Set>,
    pub cannot_derive_partialeq_or_partialord: Option<Map>, pub has_float: Option<Set>, pub has_type_param_in_array: Option<Set>,
}
impl BindgenContext {
    pub fn options(&self) -> &Options { &self.options }
    pub fn in_codegen_phase(&self) -> bool { true }
    pub fn timer(&self, _: &str) {}
    /*LOOKUPS*/
}

// ---- the analyses themselves are not run here: `analyze` hands back an arbitrary result of the right type ----
pub struct CannotDerive; pub struct HasTypeParameterInArray; pub struct HasFloat;
pub trait Ana { type Out; type In<'a>; fn out() -> Self::Out; }
#[derive(Clone, Copy)] pub enum DeriveTrait { Copy, Debug, Default, Hash, PartialEqOrPartialOrd }
fn nd_bool() -> bool { #[cfg(kani)] { kani::any() } #[cfg(not(kani))] { false } }
impl Ana for CannotDerive { type Out = Map; type In<'a> = (&'a mut BindgenContext, DeriveTrait); fn out() -> Map { Map { v: if nd_bool() { Some(CanDerive::No) } else { None } } } }
impl Ana for HasTypeParameterInArray { type Out = Set; type In<'a> = &'a mut BindgenContext; fn out() -> Set { Set { has: nd_bool() } } }
impl Ana for HasFloat { type Out = Set; type In<'a> = &'a mut BindgenContext; fn out() -> Set { Set { has: nd_bool() } } }
pub fn analyze<'a, A: Ana>(_: A::In<'a>) -> A::Out { A::out() }
pub fn as_cannot_derive_set(m: Map) -> Set { Set { has: m.v.is_some() } }
impl BindgenContext {
/*COMPUTES*/
}
pub mod derive_traits { use super::*; /*IR_DERIVE*/ }
pub use derive_traits::*;
/*GATES*/

// ---- derives_of_item ----
#[derive(Copy, Clone, Debug, PartialEq, Eq)] pub struct DerivableTraits(pub u16);
impl DerivableTraits {
    pub const DEBUG: Self = Self(1 << 0); pub const DEFAULT: Self = Self(1 << 1); pub const COPY: Self = Self(1 << 2); pub const CLONE: Self = Self(1 << 3); pub const HASH: Self = Self(1 << 4);
    pub const PARTIAL_ORD: Self = Self(1 << 5); pub const ORD: Self = Self(1 << 6); pub const PARTIAL_EQ: Self = Self(1 << 7); pub const EQ: Self = Self(1 << 8);
    pub fn empty() -> Self { Self(0) }
    pub fn contains(self, o: Self) -> bool { self.0 & o.0 == o.0 }
}
impl core::ops::BitOrAssign for DerivableTraits { fn bitor_assign(&mut self, o: Self) { self.0 |= o.0; } }
pub struct Annotations { pub no_copy: bool, pub no_debug: bool, pub no_default: bool }
impl Annotations { pub fn disallow_copy(&self) -> bool { self.no_copy } pub fn disallow_debug(&self) -> bool { self.no_debug } pub fn disallow_default(&self) -> bool { self.no_default } }
pub struct Item { pub id: ItemId, pub ann: Annotations }
impl Item { pub fn annotations(&self) -> &Annotations { &self.ann } pub fn id(&self) -> ItemId { self.id } }
macro_rules! fwd { ($($tr:ident $f:ident),*) => { $(impl $tr for Item { fn $f(&self, ctx: &BindgenContext) -> bool { self.id.$f(ctx) } })* } }
fwd!(CanDeriveDebug can_derive_debug, CanDeriveDefault can_derive_default, CanDeriveCopy can_derive_copy, CanDeriveHash can_derive_hash, CanDerivePartialOrd can_derive_partialord,
     CanDerivePartialEq can_derive_partialeq, CanDeriveEq can_derive_eq, CanDeriveOrd can_derive_ord);
/*DERIVES_OF_ITEM*/


// ---- the four builder methods that couple the comparison-derive options (methods blocks of the options! entries, options/mod.rs) ----
pub struct Builder { pub options: Options }
impl Builder {
/*DERIVE_OPTION_METHODS*/
}
/// what Rust requires between the four traits: Ord: Eq + PartialOrd, PartialOrd: PartialEq, Eq: PartialEq
pub fn options_closed(o: &Options) -> bool { (!o.derive_ord || (o.derive_partialord && o.derive_eq)) && (!o.derive_partialord || o.derive_partialeq) && (!o.derive_eq || o.derive_partialeq) }
#[cfg(kani)]
mod proofs {
    use super::*;
    fn any_cd() -> Option<CanDerive> { let k: u8 = kani::any(); match k { 0 => None, 1 => Some(CanDerive::Yes), 2 => Some(CanDerive::Manually), _ => { kani::assume(k == 3); Some(CanDerive::No) } } }
    fn any_ctx() -> BindgenContext {
        BindgenContext { options: Options { derive_debug: kani::any(), derive_default: kani::any(), derive_copy: kani::any(), derive_hash: kani::any(), derive_partialord: kani::any(), derive_partialeq: kani::any(), derive_eq: kani::any(), derive_ord: kani::any() },
            cannot_derive_debug: Some(Set { has: kani::any() }), cannot_derive_default: Some(Set { has: kani::any() }), cannot_derive_copy: Some(Set { has: kani::any() }), cannot_derive_hash: Some(Set { has: kani::any() }),
            cannot_derive_partialeq_or_partialord: Some(Map { v: any_cd() }), has_float: Some(Set { has: kani::any() }), has_type_param_in_array: Some(Set { has: kani::any() }) }
    }
    #[kani::proof]
    fn option_gates_and_float_exclusion() {
        let ctx = any_ctx(); let id = ItemId(1);
        let peq_yes = matches!(ctx.cannot_derive_partialeq_or_partialord.as_ref().unwrap().v, None | Some(CanDerive::Yes));
        let float = ctx.has_float.as_ref().unwrap().has;
        // a trait is offered exactly when its option is on and the analysis allows it; Eq / Ord additionally need: no float anywhere inside
        assert!(id.can_derive_debug(&ctx) == (ctx.options.derive_debug && !ctx.cannot_derive_debug.as_ref().unwrap().has));
        assert!(id.can_derive_default(&ctx) == (ctx.options.derive_default && !ctx.cannot_derive_default.as_ref().unwrap().has));
        assert!(id.can_derive_copy(&ctx) == (ctx.options.derive_copy && !ctx.cannot_derive_copy.as_ref().unwrap().has && !ctx.has_type_param_in_array.as_ref().unwrap().has), "Copy offered for a type with a type parameter in an array, or against the option / analysis");
        assert!(id.can_derive_hash(&ctx) == (ctx.options.derive_hash && !ctx.cannot_derive_hash.as_ref().unwrap().has));
        assert!(id.can_derive_partialeq(&ctx) == (ctx.options.derive_partialeq && peq_yes));
        assert!(id.can_derive_partialord(&ctx) == (ctx.options.derive_partialord && peq_yes));
        assert!(id.can_derive_eq(&ctx) == (ctx.options.derive_eq && peq_yes && !float), "Eq offered for a type containing a float, or against the option / analysis");
        assert!(id.can_derive_ord(&ctx) == (ctx.options.derive_ord && peq_yes && !float), "Ord offered for a type containing a float, or against the option / analysis");
    }
    /// inductive step: whatever sequence of builder calls produced the options, the comparison-derive options stay closed under Rust's supertrait requirements
    #[kani::proof]
    fn comparison_derive_options_stay_closed_under_supertraits() {
        let mut ctx = any_ctx();
        kani::assume(options_closed(&ctx.options));            // holds for the defaults (all four off) and, by this very harness, after every call
        let b = Builder { options: ctx.options };
        let on: bool = kani::any(); let which: u8 = kani::any();
        let b = match which { 0 => b.derive_partialord(on), 1 => b.derive_ord(on), 2 => b.derive_partialeq(on), _ => { kani::assume(which == 3); b.derive_eq(on) } };
        assert!(options_closed(&b.options), "a builder call leaves the derive options in a state where Ord is derived without Eq / PartialOrd, or PartialOrd / Eq without PartialEq (E0277 in the bindings)");
        kani::cover!(which == 1 && on, "derive_ord(true)");
    }
    #[kani::proof]
    fn derived_set_is_closed_under_supertraits() {
        let ctx = any_ctx();
        kani::assume(options_closed(&ctx.options));            // established by comparison_derive_options_stay_closed_under_supertraits
        let item = Item { id: ItemId(1), ann: Annotations { no_copy: kani::any(), no_debug: kani::any(), no_default: kani::any() } };
        let d = derives_of_item(&item, &ctx, kani::any());
        assert!(!d.contains(DerivableTraits::ORD) || (d.contains(DerivableTraits::EQ) && d.contains(DerivableTraits::PARTIAL_ORD)), "derive(Ord) without Eq / PartialOrd");
        assert!(!d.contains(DerivableTraits::PARTIAL_ORD) || d.contains(DerivableTraits::PARTIAL_EQ), "derive(PartialOrd) without PartialEq");
        assert!(!d.contains(DerivableTraits::EQ) || d.contains(DerivableTraits::PARTIAL_EQ), "derive(Eq) without PartialEq");
        assert!(!d.contains(DerivableTraits::COPY) || d.contains(DerivableTraits::CLONE), "derive(Copy) without Clone");
        kani::cover!(d.contains(DerivableTraits::ORD), "Ord derived");
    }
    /// whatever the (closed) options are: after the compute phase every lookup a consumer can reach finds its analysis - no `unwrap()` on a skipped one
    #[kani::proof]
    fn every_analysis_a_consumer_can_ask_for_has_been_computed() {
        let o = any_ctx().options; kani::assume(options_closed(&o));
        let mut ctx = BindgenContext { options: o, cannot_derive_debug: None, cannot_derive_default: None, cannot_derive_copy: None, cannot_derive_hash: None, cannot_derive_partialeq_or_partialord: None, has_float: None, has_type_param_in_array: None };
        // BindgenContext::gen runs these before code generation
        ctx.compute_cannot_derive_debug(); ctx.compute_cannot_derive_default(); ctx.compute_cannot_derive_copy(); ctx.compute_has_type_param_in_array(); ctx.compute_has_float(); ctx.compute_cannot_derive_hash(); ctx.compute_cannot_derive_partialord_partialeq_or_eq();
        let id = ItemId(1);
        // consumers: the eight option gates (derives_of_item), the hand-written Debug impl (array members ask has_type_param_in_array whenever a manual impl is written:
        // derive_debug and impl_debug), the hand-written PartialEq decision (derive_partialeq and impl_partialeq)
        let _ = (id.can_derive_debug(&ctx), id.can_derive_default(&ctx), id.can_derive_copy(&ctx), id.can_derive_hash(&ctx), id.can_derive_partialord(&ctx), id.can_derive_partialeq(&ctx), id.can_derive_eq(&ctx), id.can_derive_ord(&ctx));
        let impl_debug: bool = kani::any(); let impl_partialeq: bool = kani::any();
        if ctx.options.derive_debug && impl_debug { let _ = ctx.lookup_has_type_param_in_array(id); }
        if ctx.options.derive_partialeq && impl_partialeq { let _ = ctx.lookup_can_derive_partialeq_or_partialord(id); }
        kani::cover!(!ctx.options.derive_copy && ctx.options.derive_debug && impl_debug, "manual Debug impl without derive(Copy)");
    }
    #[kani::proof]
    fn derive_set_assembly() {
        let ctx = any_ctx();
        let item = Item { id: ItemId(1), ann: Annotations { no_copy: kani::any(), no_debug: kani::any(), no_default: kani::any() } };
        let packed: bool = kani::any();
        let d = derives_of_item(&item, &ctx, packed);
        let copy = item.can_derive_copy(&ctx) && !item.ann.no_copy;
        assert!(d.contains(DerivableTraits::COPY) == copy, "Copy derived against the analysis / annotation");
        assert!(d.contains(DerivableTraits::CLONE) == copy, "Clone must accompany Copy and nothing else");
        if packed && !copy { assert!(d == DerivableTraits::empty(), "a packed type that is not Copy must derive nothing (references to packed fields)"); }
        else {
            assert!(d.contains(DerivableTraits::DEBUG) == (item.can_derive_debug(&ctx) && !item.ann.no_debug));
            assert!(d.contains(DerivableTraits::DEFAULT) == (item.can_derive_default(&ctx) && !item.ann.no_default));
            assert!(d.contains(DerivableTraits::HASH) == item.can_derive_hash(&ctx));
            assert!(d.contains(DerivableTraits::PARTIAL_ORD) == item.can_derive_partialord(&ctx) && d.contains(DerivableTraits::ORD) == item.can_derive_ord(&ctx));
            assert!(d.contains(DerivableTraits::PARTIAL_EQ) == item.can_derive_partialeq(&ctx) && d.contains(DerivableTraits::EQ) == item.can_derive_eq(&ctx));
        }
    }
}
