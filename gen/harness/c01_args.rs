// C01: parameter names of function bindings - real text of utils::fnsig_arguments_iter and utils::fnsig_argument_identifiers (codegen/mod.rs).
// Names are identities; a parameter is unnamed, has an ordinary name, or is itself called `arg<k>` by the user.
// Listed rewrite: the inline format capture `format!("arg{unnamed_arguments}")` becomes positional (macro hygiene).
#![allow(warnings)]
pub const CAP: usize = 4;
#[derive(Clone, Copy, PartialEq, Eq, Debug, Default)] pub enum Tok { #[default] None, Named(u8), ArgN(usize), Dots }
impl Tok { pub fn is_empty(&self) -> bool { false } pub fn into_owned(self) -> Tok { self } pub fn as_str(&self) -> Tok { *self } }   // the text of a name is its identity
pub type String = Tok;
macro_rules! format { ("arg{}", $c:expr) => { Tok::ArgN($c) } }
#[derive(Clone, Copy, PartialEq, Eq, Debug, Default)] pub struct TypeId(pub u8);
pub mod proc_macro2 { #[derive(Clone, Copy, PartialEq, Eq, Debug, Default)] pub enum TokenStream { #[default] Other, Arg(super::Tok), Ident(super::Tok), Dots } }
macro_rules! quote {
    (# $n:ident : # $t:ident) => { proc_macro2::TokenStream::Arg($n) };
    (...) => { proc_macro2::TokenStream::Dots };
    (# $n:ident) => { proc_macro2::TokenStream::Ident($n) };
}
#[derive(Clone, Copy, Debug)] pub struct Vec<T: Copy + Default> { pub a: [T; CAP + 1], pub n: usize }
impl<T: Copy + Default> Vec<T> {
    pub fn new() -> Self { Vec { a: [T::default(); CAP + 1], n: 0 } }
    pub fn push(&mut self, t: T) { assert!(self.n < CAP + 1, "stub Vec capacity"); self.a[self.n] = t; self.n += 1; }
    pub fn contains(&self, x: &T) -> bool where T: PartialEq { let mut i = 0; let mut r = false; while i < CAP + 1 { if i < self.n && self.a[i] == *x { r = true; } i += 1; } r }
}
impl<T: Copy + Default> core::iter::FromIterator<T> for Vec<T> { fn from_iter<I: IntoIterator<Item = T>>(it: I) -> Self { let mut v = Vec::new(); for x in it { v.push(x); } v } }
pub type Arg = (Option<Tok>, TypeId);
pub struct ArgList { pub a: [Arg; CAP], pub n: usize }
#[derive(Clone)] pub struct AIter<'a> { l: &'a ArgList, i: usize }
impl<'a> Iterator for AIter<'a> { type Item = &'a Arg; fn next(&mut self) -> Option<&'a Arg> { if self.i >= CAP { return None; } let k = self.i; self.i += 1; if k < self.l.n { Some(&self.l.a[k]) } else { None } } }
/// inherent and eager (see DESIGN section 8, item 18)
impl<'a> AIter<'a> { pub fn filter_map<B: Copy + Default, F: FnMut(&'a Arg) -> Option<B>>(self, mut f: F) -> VInto<B> { let mut v = Vec::new(); let mut k = 0; while k < CAP { if k < self.l.n { if let Some(b) = f(&self.l.a[k]) { v.push(b); } } k += 1; } VInto { v, i: 0 } } }
pub struct VInto<T: Copy + Default> { v: Vec<T>, i: usize }
impl<T: Copy + Default> Iterator for VInto<T> { type Item = T; fn next(&mut self) -> Option<T> { if self.i >= CAP + 1 { return None; } let k = self.i; self.i += 1; if k < self.v.n { Some(self.v.a[k]) } else { None } } }
impl ArgList { pub fn iter(&self) -> AIter<'_> { AIter { l: self, i: 0 } } }
pub struct FunctionSig { pub args: ArgList, pub variadic: bool }
impl FunctionSig { pub fn argument_types(&self) -> &ArgList { &self.args } pub fn is_variadic(&self) -> bool { self.variadic } }
pub struct BindgenContext;
impl BindgenContext { pub fn rust_mangle(&self, n: &Tok) -> Tok { *n } pub fn rust_ident(&self, n: Tok) -> Tok { n } }
fn fnsig_argument_type(_: &BindgenContext, _: TypeId) -> () {}
/*ARGS_ITER*/
/*ARGS*/
/*IDENTS*/
#[cfg(kani)]
mod proofs {
    use super::*;
    #[kani::proof] #[kani::unwind(8)]
    fn binding_parameters_have_distinct_names_and_calls_use_the_same_ones() {
        let n: usize = kani::any(); kani::assume(n <= 3);
        let mut a = [(None, TypeId(0)); CAP]; let mut i = 0;
        // unnamed, an ordinary name, or a name of the form `arg<k>` written by the user; user names are pairwise distinct (C requires it)
        while i < CAP { if i < n { let k: u8 = kani::any(); kani::assume(k <= 2); a[i] = (match k { 0 => None, 1 => Some(Tok::Named(10 + i as u8)), _ => { let j: usize = kani::any(); kani::assume(j >= 1 && j <= 3); Some(Tok::ArgN(j)) } }, TypeId(i as u8)); } i += 1; }
        let mut x = 0; while x < CAP { let mut y = x + 1; while y < CAP { if y < n { if let (Some(p), Some(q)) = (a[x].0, a[y].0) { kani::assume(p != q); } } y += 1; } x += 1; }
        let sig = FunctionSig { args: ArgList { a, n }, variadic: kani::any() };
        let decl = fnsig_arguments(&BindgenContext, &sig);
        let call = fnsig_argument_identifiers(&BindgenContext, &sig);
        assert!(decl.n == n + sig.variadic as usize && call.n == n, "parameter list has the wrong length");
        let mut names = [Tok::None; CAP]; let mut i = 0;
        while i < CAP { if i < n {
            match decl.a[i] { proc_macro2::TokenStream::Arg(t) => names[i] = t, _ => assert!(false, "not a `name: type` parameter") }
            if let Some(t) = a[i].0 { assert!(names[i] == t, "a named parameter lost its name"); }
            assert!(call.a[i] == proc_macro2::TokenStream::Ident(names[i]), "the forwarding call names another identifier than the declaration (dynamic loading wrappers do not compile)");
        } i += 1; }
        if sig.variadic { assert!(decl.a[n] == proc_macro2::TokenStream::Dots, "variadic tail missing"); }
        let mut x = 0; while x < CAP { let mut y = x + 1; while y < CAP { if y < n { assert!(names[x] != names[y], "two parameters of one binding have the same name (E0415): the name made up for an unnamed parameter collides with one the user wrote"); } y += 1; } x += 1; }
        kani::cover!(n == 3 && a[0].0.is_none() && a[1].0 == Some(Tok::ArgN(1)), "unnamed parameter next to a user parameter called arg1");
    }
}
