#[cfg(kani)]
mod proofs {
    use super::*;
    use std::str::FromStr;
    pub fn naive_memchr(x: u8, text: &[u8]) -> Option<usize> { let mut i = 0; while i < text.len() { if text[i] == x { return Some(i); } i += 1; } None }
    macro_rules! rt { ($name:ident, $ty:ty, [$($v:expr),* $(,)?]) => {
        #[kani::proof] #[kani::unwind(24)] #[kani::stub(core::slice::memchr::memchr, naive_memchr)]
        fn $name() {
            let vals: &[$ty] = &[$($v),*];
            let i: usize = kani::any(); kani::assume(i < vals.len());
            let v = vals[i];
            let s = v.to_string();
            let r = <$ty>::from_str(&s);
            assert!(matches!(&r, Ok(x) if *x == v), "value does not round-trip through its command-line text form");
            core::mem::forget(r); core::mem::forget(s);
        }
    } }
    rt!(enum_variation_roundtrip, EnumVariation, [EnumVariation::Rust { non_exhaustive: false }, EnumVariation::Rust { non_exhaustive: true },
        EnumVariation::NewType { is_bitfield: true, is_global: false }, EnumVariation::NewType { is_bitfield: false, is_global: false },
        EnumVariation::NewType { is_bitfield: false, is_global: true }, EnumVariation::Consts, EnumVariation::ModuleConsts]);
    rt!(macro_type_variation_roundtrip, MacroTypeVariation, [MacroTypeVariation::Signed, MacroTypeVariation::Unsigned]);
    rt!(alias_variation_roundtrip, AliasVariation, [AliasVariation::TypeAlias, AliasVariation::NewType, AliasVariation::NewTypeDeref]);
    rt!(non_copy_union_style_roundtrip, NonCopyUnionStyle, [NonCopyUnionStyle::BindgenWrapper, NonCopyUnionStyle::ManuallyDrop]);
    rt!(formatter_roundtrip, Formatter, [Formatter::None, Formatter::Rustfmt]);
    rt!(field_visibility_roundtrip, FieldVisibilityKind, [FieldVisibilityKind::Private, FieldVisibilityKind::PublicCrate, FieldVisibilityKind::Public]);
    rt!(abi_roundtrip, Abi, [Abi::C, Abi::Stdcall, Abi::EfiApi, Abi::Fastcall, Abi::ThisCall, Abi::Vectorcall, Abi::Aapcs, Abi::Win64, Abi::CUnwind, Abi::System]);
}
