#[cfg(kani)]
mod proofs {
    use super::*;
    use std::str::FromStr;
    pub fn stub_format(_: core::fmt::Arguments<'_>) -> String { String::new() }
    pub fn naive_memchr(x: u8, text: &[u8]) -> Option<usize> { let mut i = 0; while i < text.len() { if text[i] == x { return Some(i); } i += 1; } None }
    // every value is checked in turn (concrete per iteration: a symbolic choice among string literals of different
    // lengths gave a counterexample that does not replay, see DESIGN.md "encoding pitfalls")
    fn rt<T: Copy + PartialEq + ToString + FromStr>(vals: &[T]) {
        let mut i = 0;
        while i < vals.len() {
            let v = vals[i];
            let s = v.to_string();
            let r = T::from_str(&s);
            assert!(matches!(&r, Ok(x) if *x == v), "value does not round-trip through its command-line text form");
            core::mem::forget(r); core::mem::forget(s);
            i += 1;
        }
    }
    #[kani::proof] #[kani::unwind(24)] #[kani::stub(core::slice::memchr::memchr, naive_memchr)] #[kani::stub(alloc::fmt::format, stub_format)]
    fn enum_variation_roundtrip() { rt(&[EnumVariation::Rust { non_exhaustive: false }, EnumVariation::Rust { non_exhaustive: true }, EnumVariation::NewType { is_bitfield: true, is_global: false }, EnumVariation::NewType { is_bitfield: false, is_global: false }, EnumVariation::NewType { is_bitfield: false, is_global: true }, EnumVariation::Consts, EnumVariation::ModuleConsts]) }
    #[kani::proof] #[kani::unwind(24)] #[kani::stub(core::slice::memchr::memchr, naive_memchr)] #[kani::stub(alloc::fmt::format, stub_format)]
    fn macro_type_variation_roundtrip() { rt(&[MacroTypeVariation::Signed, MacroTypeVariation::Unsigned]) }
    #[kani::proof] #[kani::unwind(24)] #[kani::stub(core::slice::memchr::memchr, naive_memchr)] #[kani::stub(alloc::fmt::format, stub_format)]
    fn alias_variation_roundtrip() { rt(&[AliasVariation::TypeAlias, AliasVariation::NewType, AliasVariation::NewTypeDeref]) }
    #[kani::proof] #[kani::unwind(24)] #[kani::stub(core::slice::memchr::memchr, naive_memchr)] #[kani::stub(alloc::fmt::format, stub_format)]
    fn non_copy_union_style_roundtrip() { rt(&[NonCopyUnionStyle::BindgenWrapper, NonCopyUnionStyle::ManuallyDrop]) }
    #[kani::proof] #[kani::unwind(24)] #[kani::stub(core::slice::memchr::memchr, naive_memchr)] #[kani::stub(alloc::fmt::format, stub_format)]
    fn formatter_roundtrip() { rt(&[Formatter::None, Formatter::Rustfmt]) }
    #[kani::proof] #[kani::unwind(24)] #[kani::stub(core::slice::memchr::memchr, naive_memchr)] #[kani::stub(alloc::fmt::format, stub_format)]
    fn field_visibility_roundtrip() { rt(&[FieldVisibilityKind::Private, FieldVisibilityKind::PublicCrate, FieldVisibilityKind::Public]) }
    #[kani::proof] #[kani::unwind(24)] #[kani::stub(core::slice::memchr::memchr, naive_memchr)] #[kani::stub(alloc::fmt::format, stub_format)]
    fn abi_roundtrip() { rt(&[Abi::C, Abi::Stdcall, Abi::EfiApi, Abi::Fastcall, Abi::ThisCall, Abi::Vectorcall, Abi::Aapcs, Abi::Win64, Abi::CUnwind, Abi::System]) }
}
