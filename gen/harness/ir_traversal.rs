// C09 / C10: traversal engine (real ItemTraversal, AllowlistedItemsTraversal, codegen_edges) and edge enumeration (real Trace impls)
// on the stub IR.  One-step obligations from an arbitrary (seen, queue) state.
#[cfg(kani)]
pub mod trav_proofs {
    use super::*;
    use crate::hctx::*;
    pub const NK: usize = 15;
    fn kidx(k: EdgeKind) -> usize { match k { EdgeKind::Generic => 0, EdgeKind::TemplateParameterDefinition => 1, EdgeKind::TemplateDeclaration => 2, EdgeKind::TemplateArgument => 3, EdgeKind::BaseMember => 4,
        EdgeKind::Field => 5, EdgeKind::InnerType => 6, EdgeKind::InnerVar => 7, EdgeKind::Method => 8, EdgeKind::Constructor => 9, EdgeKind::Destructor => 10, EdgeKind::FunctionReturn => 11,
        EdgeKind::FunctionParameter => 12, EdgeKind::VarType => 13, EdgeKind::TypeReference => 14 } }
    /// edges[target][kind] as emitted by the real `impl Trace for Item` for node X
    fn traced(ctx: &BindgenContext) -> [[bool; NK]; NI] {
        let mut e = [[false; NK]; NI];
        ctx.items[X].trace(ctx, &mut |sub: ItemId, kind: EdgeKind| { e[sub.0][kindx(kind)] = true; }, &());
        e
    }
    fn kindx(k: EdgeKind) -> usize { kidx(k) }
    /// what the IR node refers to, written from the IR definitions (ir/ty.rs, ir/comp.rs docs), per TypeKind
    fn spec_edges(ctx: &BindgenContext) -> [[bool; NK]; NI] {
        let mut e = [[false; NK]; NI];
        let it = &ctx.items[X]; let ty = it.as_type().unwrap();
        let unconditional = matches!(ty.kind, TypeKind::Comp(_) | TypeKind::Function(_) | TypeKind::Pointer(_) | TypeKind::Array(..) | TypeKind::Reference(_) | TypeKind::TemplateInstantiation(_) | TypeKind::ResolvedTypeRef(_));
        if it.fl.opaque && !unconditional { return e; }
        if ty.named && ctx.stdint_answer { return e; }
        match &ty.kind {
            TypeKind::Pointer(t) | TypeKind::Reference(t) | TypeKind::Array(t, _) | TypeKind::Vector(t, _) | TypeKind::BlockPointer(t) | TypeKind::Alias(t) | TypeKind::ResolvedTypeRef(t) => { e[(t.0).0][14] = true; }
            TypeKind::TemplateAlias(t, ps) => { e[(t.0).0][14] = true; if ps.n >= 1 { e[(ps.a[0].0).0][1] = true; } }
            TypeKind::TemplateInstantiation(i) => { e[(i.definition.0).0][2] = true; e[(i.args.a[0].0).0][3] = true; }
            TypeKind::Function(s) => { e[(s.return_type.0).0][11] = true; if s.argument_types.n >= 1 { e[(s.argument_types.a[0].1.0).0][12] = true; } }
            TypeKind::Enum(en) => { if let Some(r) = en.repr { e[(r.0).0][0] = true; } }
            TypeKind::Comp(c) => {
                if it.fl.tparams >= 1 { e[0][1] = true; }
                if c.inner_types.n >= 1 { e[(c.inner_types.a[0].0).0][6] = true; }
                if c.inner_vars.n >= 1 { e[(c.inner_vars.a[0].0).0][7] = true; }
                if c.methods.n >= 1 { e[(c.methods.a[0].signature.0).0][8] = true; }
                if let Some(d) = c.dtor { e[(d.0).0][10] = true; }
                if c.ctors.n >= 1 { e[(c.ctors.a[0].0).0][9] = true; }
                // an opaque type exposes no fields and no bases
                if !it.fl.opaque {
                    if c.bases.n >= 1 { e[(c.bases.a[0].ty.0).0][4] = true; }
                    let fl = c.fields();
                    if fl.n >= 1 { e[1][5] = true; } if fl.n >= 2 { e[2][5] = true; }
                }
            }
            _ => {}
        }
        e
    }
    fn comp_with_inner(ctx: &mut BindgenContext) {
        if let ItemKind::Type(Type { kind: TypeKind::Comp(c), .. }) = &mut ctx.items[X].kind {
            c.inner_types.n = kani::any::<bool>() as usize; c.inner_vars.n = kani::any::<bool>() as usize; c.methods.n = kani::any::<bool>() as usize; c.ctors.n = kani::any::<bool>() as usize;
            c.dtor = if kani::any() { Some(FunctionId(ItemId(2))) } else { None };
        }
    }
    fn edges_case(tag: u8) {
        let mut ctx = mk_ctx(tag, 0);
        comp_with_inner(&mut ctx);
        let got = traced(&ctx); let want = spec_edges(&ctx);
        let mut i = 0;
        while i < NI { let mut k = 0; while k < NK {
            assert!(!want[i][k] || got[i][k], "an IR reference is not traced (allowlisting / analyses would not follow it)");
            assert!(!got[i][k] || want[i][k], "an edge is traced that the IR node does not have (or that an opaque type must hide)");
            k += 1; } i += 1; }
        core::mem::forget(ctx);
    }

    /// one `next()` of the real ItemTraversal from an arbitrary state whose queue top is X
    fn step_case(tag: u8, pred_all: bool) {
        let mut ctx = mk_ctx(tag, 0);
        comp_with_inner(&mut ctx);
        ctx.options.codegen_config = CodegenConfig { bits: kani::any() };
        let predicate: TraversalPredicate = if pred_all { all_edges } else { codegen_edges };
        let mut seen = ItemSet::new(); let s1: bool = kani::any(); let s2: bool = kani::any(); let s0: bool = kani::any();
        if s0 { seen.insert(ItemId(0)); } if s1 { seen.insert(ItemId(1)); } if s2 { seen.insert(ItemId(2)); } seen.insert(ItemId(X));
        let mut queue: Vec<ItemId> = Vec::new();
        let q1: bool = kani::any(); if q1 && s1 { queue.push(ItemId(1)); }      // invariant: queue is a subset of seen
        queue.push(ItemId(X));
        let mut t: ItemTraversal<'_, ItemSet, Vec<ItemId>> = ItemTraversal { ctx: &ctx, seen, queue, predicate, currently_traversing: None };
        let got = t.next();
        assert!(got == Some(ItemId(X)), "next() must yield an element of the queue");
        let e = traced(&ctx);
        let mut i = 0;
        while i < NI {
            // admitted successors of X, by the real Trace and the real predicate
            let mut adm = false; let mut k = 0;
            while k < NK { if e[i][k] && predicate(&ctx, Edge::new(ItemId(i), UNKIND[k])) { adm = true; } k += 1; }
            let was = match i { 0 => s0, 1 => s1, 2 => s2, _ => true };
            let now = t.seen.contains(&ItemId(i));
            assert!(!was || now, "traversal forgot a seen item");
            assert!(!adm || now, "closure: an admitted successor of the yielded item was not recorded");
            assert!(now == (was || adm), "minimality: something was added that is not an admitted successor of the yielded item");
            // newly discovered items are queued exactly once; others are not re-queued
            let mut cnt = 0; let mut j = 0; while j < CAP { if j < t.queue.len && t.queue.buf[j] == Some(ItemId(i)) { cnt += 1; } j += 1; }
            let expect = if i == X { 0 } else if !was && adm { 1 } else if i == 1 && q1 && s1 { 1 } else { 0 };
            assert!(cnt == expect, "queue does not hold exactly the unvisited discovered items");
            i += 1;
        }
        core::mem::forget(t); core::mem::forget(ctx);
    }
    pub const UNKIND: [EdgeKind; NK] = [EdgeKind::Generic, EdgeKind::TemplateParameterDefinition, EdgeKind::TemplateDeclaration, EdgeKind::TemplateArgument, EdgeKind::BaseMember, EdgeKind::Field, EdgeKind::InnerType,
        EdgeKind::InnerVar, EdgeKind::Method, EdgeKind::Constructor, EdgeKind::Destructor, EdgeKind::FunctionReturn, EdgeKind::FunctionParameter, EdgeKind::VarType, EdgeKind::TypeReference];

    /// the allowlisting wrapper never yields a blocklisted item but still follows what it refers to
    fn blocklist_case(tag: u8) {
        let mut ctx = mk_ctx(tag, 0);
        ctx.items[X].fl.blocklisted = true; ctx.items[1].fl.blocklisted = false; ctx.items[2].fl.blocklisted = false;
        ctx.options.codegen_config = CodegenConfig { bits: 63 };
        let mut t = AllowlistedItemsTraversal::new(&ctx, [ItemId(X)], all_edges);
        let mut reach = [false; NI];
        ctx.items[X].trace(&ctx, &mut |sub: ItemId, _kind: EdgeKind| { reach[sub.0] = true; }, &());
        // one call of the wrapper: it must skip X itself, but X has been traversed, so everything X refers to is recorded and queued
        let first = t.next();
        assert!(first != Some(ItemId(X)), "a blocklisted item was yielded for code generation");
        let mut any = false;
        let mut i = 1; while i < X { if reach[i] { any = true; assert!(t.traversal.seen.contains(&ItemId(i)), "what a blocklisted item refers to must still be reached"); } else { assert!(!t.traversal.seen.contains(&ItemId(i)), "an unrelated item was reached"); } i += 1; }
        match first { Some(id) => assert!(id.0 < X && reach[id.0], "the wrapper yielded something the blocklisted item does not refer to"), None => assert!(!any && !reach[0], "the references of a blocklisted item were dropped") }
        core::mem::forget(t); core::mem::forget(ctx);
    }
    #[kani::proof] fn codegen_edges_table() {
        let ctx0 = BindgenContext { items: core::array::from_fn(|i| Item { id: ItemId(i), kind: ItemKind::Type(Type { kind: TypeKind::Int(0), layout: None, named: false }), fl: Flags::default() }), allow: ItemSet::all(),
            options: Options { codegen_config: CodegenConfig { bits: kani::any() }, ..Options::default() }, has_dtor: [false; NI], stdint_answer: false };
        let k: usize = kani::any(); kani::assume(k < NK);
        let cc = ctx0.options.codegen_config;
        let want = match k { 7 => cc.vars(), 8 => cc.methods(), 9 => cc.constructors(), 10 => cc.destructors(), 0 => cc.types() /* a Generic edge to a type item */, _ => cc.types() };
        assert!(codegen_edges(&ctx0, Edge::new(ItemId(1), UNKIND[k])) == want, "codegen_edges differs from the documented table");
        core::mem::forget(ctx0);
    }
    /*GENERATED*/
}
