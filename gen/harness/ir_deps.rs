// C07: generate_dependencies (ir/analysis/mod.rs) records i under sub exactly when both are allowlisted and the real
// Trace emits an edge i -> sub of a kind the predicate accepts.  Predicate = symbolic table over the 15 EdgeKinds.
#[cfg(kani)]
pub mod deps_proofs {
    use super::*;
    use crate::hctx::*;
    static mut MASK: [bool; 15] = [false; 15];
    fn kidx(k: EdgeKind) -> usize { match k { EdgeKind::Generic => 0, EdgeKind::TemplateParameterDefinition => 1, EdgeKind::TemplateDeclaration => 2, EdgeKind::TemplateArgument => 3, EdgeKind::BaseMember => 4,
        EdgeKind::Field => 5, EdgeKind::InnerType => 6, EdgeKind::InnerVar => 7, EdgeKind::Method => 8, EdgeKind::Constructor => 9, EdgeKind::Destructor => 10, EdgeKind::FunctionReturn => 11,
        EdgeKind::FunctionParameter => 12, EdgeKind::VarType => 13, EdgeKind::TypeReference => 14 } }
    fn pred(k: EdgeKind) -> bool { unsafe { MASK[kidx(k)] } }
    /// `allow1`: is child 1 allowlisted (CONCRETE: a symbolic allowlist makes the iterated item, hence its enum variant, symbolic)
    fn case(tag: u8, allow1: bool) {
        let mut ctx = mk_ctx(tag, 0);
        // X itself is allowlisted (a non-allowlisted item is never iterated); allowlisting of the children is symbolic
        ctx.allow.present[X] = true; ctx.allow.present[0] = true;
        ctx.allow.present[1] = allow1; ctx.allow.present[2] = true;
        let m: [bool; 15] = kani::any(); unsafe { MASK = m; }
        let deps = generate_dependencies(&ctx, pred);
        let mut c = 1;
        while c < X {
            let mut edge = false;
            ctx.items[X].trace(&ctx, &mut |sub: ItemId, kind: EdgeKind| { if sub == ItemId(c) && pred(kind) { edge = true; } }, &());
            let want = edge && ctx.allow.present[X] && ctx.allow.present[c];
            let mut got = false;
            if let Some(v) = deps.get(&ItemId(c)) { for d in v { if *d == ItemId(X) { got = true; } } }
            assert!(got == want, "generate_dependencies does not record exactly the considered edges between allowlisted items");
            c += 1;
        }
        // every allowlisted item has an entry (possibly empty), so each_depending_on never misses a key
        let mut i = 0; while i < NI { assert!(!ctx.allow.present[i] || deps.contains_key(&ItemId(i)), "allowlisted item without a dependency entry"); i += 1; }
        core::mem::forget(deps); core::mem::forget(ctx);
    }
    #[kani::proof] #[kani::unwind(18)] fn dependencies_Comp() { case(12, true) }
    #[kani::proof] #[kani::unwind(18)] fn dependencies_Alias() { case(4, true) }
    #[kani::proof] #[kani::unwind(18)] fn dependencies_TemplateInstantiation() { case(13, true) }
    #[kani::proof] #[kani::unwind(18)] fn dependencies_Function() { case(10, false) }
}
