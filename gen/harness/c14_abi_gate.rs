// C14 (vii) / C04: the feature gate at the end of FunctionSig::abi (ir/function.rs), sliced as one match expression,
// with the real features.rs and the real `Abi` enum.
pub mod abi_gate {
    use super::*;
    /*ABI_ENUM*/
    #[derive(Debug, Copy, Clone, PartialEq)] pub enum ClangAbi { Known(Abi), Unknown(u32) }
    pub mod crate_codegen_error { #[derive(Debug, PartialEq)] pub enum Error { UnsupportedAbi(&'static str) } pub type Result<T> = std::result::Result<T, Error>; }
    pub struct Options { pub f: RustFeatures }
    impl Options { pub fn rust_features(&self) -> RustFeatures { self.f } }
    pub struct BindgenContext { pub o: Options }
    impl BindgenContext { pub fn options(&self) -> &Options { &self.o } }
    pub struct FunctionSig { pub variadic: bool }
    impl FunctionSig {
        pub fn is_variadic(&self) -> bool { self.variadic }
        pub fn gate(&self, ctx: &BindgenContext, abi: ClangAbi) -> crate_codegen_error::Result<ClangAbi> {
            /*GATE_MATCH*/
        }
    }
    #[cfg(kani)]
    mod proofs {
        use super::*;
        #[kani::proof] #[kani::unwind(6)]
        fn abi_gate_respects_target() {
            let nightly: bool = kani::any();
            let m: u64 = kani::any();
            let t = if nightly { RustTarget::nightly() } else { RustTarget(Version::Stable(m, kani::any())) };
            let ei: usize = kani::any(); kani::assume(ei < 3);
            let f = RustFeatures::new(t, RustEdition::ALL[ei]);
            let abis = [Abi::C, Abi::Stdcall, Abi::EfiApi, Abi::Fastcall, Abi::ThisCall, Abi::Vectorcall, Abi::Aapcs, Abi::Win64, Abi::CUnwind, Abi::System];
            let ai: usize = kani::any(); kani::assume(ai < abis.len());
            let abi = abis[ai];
            let sig = FunctionSig { variadic: kani::any() };
            let ctx = BindgenContext { o: Options { f } };
            match sig.gate(&ctx, ClangAbi::Known(abi)) {
                Ok(a) => {
                    assert!(a == ClangAbi::Known(abi), "gate changed the ABI");
                    let since: u64 = match abi { Abi::ThisCall => 73, Abi::CUnwind => 71, Abi::EfiApi => 68, Abi::Vectorcall => u64::MAX, _ => 0 };
                    assert!(nightly || (since != u64::MAX && m >= since), "ABI string emitted for a Rust target that does not have it");
                    assert!(!(abi == Abi::Win64 && sig.variadic), "variadic win64 function accepted");
                }
                Err(_) => {
                    // never withheld from a target that has it
                    let since: u64 = match abi { Abi::ThisCall => 73, Abi::CUnwind => 71, Abi::EfiApi => 68, Abi::Vectorcall => u64::MAX, _ => 0 };
                    assert!((abi == Abi::Win64 && sig.variadic) || (!nightly && (since == u64::MAX || m < since)), "ABI rejected although the Rust target supports it");
                }
            }
            kani::cover!(abi == Abi::CUnwind && m == 70 && !nightly, "C-unwind on 1.70");
        }
    }
}
