// C12: the two input-facing error paths of generation, real code against a modelled environment:
//  (a) fn parse: clang diagnostics -> Err(ClangDiagnostic) carrying every error message, iff clang reported an error or a fatal error;
//  (b) Bindings::generate: the pre-check of the input path (missing / directory / unreadable -> the specific error), on a file system with symbolic links.
#![allow(warnings)]
macro_rules! eprintln { ($($t:tt)*) => {} }
macro_rules! debug { ($($t:tt)*) => {} }
pub mod clang_sys {
    pub type CXDiagnosticSeverity = u32;
    pub const CXDiagnostic_Ignored: u32 = 0; pub const CXDiagnostic_Note: u32 = 1; pub const CXDiagnostic_Warning: u32 = 2; pub const CXDiagnostic_Error: u32 = 3; pub const CXDiagnostic_Fatal: u32 = 4;
}
pub const ND: usize = 3;
#[derive(Clone, Copy)] pub struct Msg(pub u8);
#[derive(Clone, Copy)] pub struct Diagnostic { pub sev: u32, pub id: u8 }
impl Diagnostic { pub fn format(&self) -> Msg { Msg(self.id) } pub fn severity(&self) -> u32 { self.sev } }
pub struct DiagList { pub a: [Diagnostic; ND], pub n: usize }
impl<'a> IntoIterator for &'a DiagList { type Item = &'a Diagnostic; type IntoIter = core::slice::Iter<'a, Diagnostic>; fn into_iter(self) -> Self::IntoIter { self.a[..self.n].iter() } }
/// error text: the sequence of messages pushed, and the number of separators
#[derive(Clone, Copy)] pub struct String { pub msgs: [u8; ND], pub n: usize, pub newlines: usize }
impl String { pub fn new() -> String { String { msgs: [0; ND], n: 0, newlines: 0 } } pub fn push_str(&mut self, m: &Msg) { self.msgs[self.n] = m.0; self.n += 1; } pub fn push(&mut self, c: char) { if c == '\n' { self.newlines += 1; } } }
pub struct TranslationUnit { pub d: [Diagnostic; ND], pub n: usize }
impl TranslationUnit { pub fn diags(&self) -> DiagList { DiagList { a: self.d, n: self.n } } }
pub struct BindgenContext { pub tu: TranslationUnit }
impl BindgenContext { pub fn translation_unit(&self) -> &TranslationUnit { &self.tu } }
#[derive(Clone, Copy, PartialEq, Eq, Debug)] pub struct PathBuf(pub u8);
pub enum BindgenError { FolderAsHeader(PathBuf), InsufficientPermissions(PathBuf), NotExist(PathBuf), ClangDiagnostic(String) }

// ---- file system: what the path IS (own_*) and, for a symbolic link, what it points to (target_*) ----
#[derive(Clone, Copy)] pub struct Path { pub id: u8, pub exists: bool, pub is_link: bool, pub own_dir: bool, pub own_mode: u32, pub target_exists: bool, pub target_dir: bool, pub target_mode: u32 }
#[derive(Clone, Copy)] pub struct Hdr { pub p: Path }
impl Hdr { pub fn as_ref(&self) -> &Hdr { self } }
impl Path { pub fn new(h: &Hdr) -> &Path { &h.p } }
impl From<&Path> for PathBuf { fn from(p: &Path) -> PathBuf { PathBuf(p.id) } }
pub mod std {
    pub mod fs {
        use crate::Path;
        pub struct Permissions { pub mode: u32 }
        pub struct Metadata { pub dir: bool, pub mode: u32 }
        impl Metadata { pub fn is_dir(&self) -> bool { self.dir } pub fn permissions(&self) -> Permissions { Permissions { mode: self.mode } } }
        /// stat(2): follows symbolic links
        pub fn metadata(p: &Path) -> Result<Metadata, ()> {
            if !p.exists { return Err(()); }
            if p.is_link { if p.target_exists { Ok(Metadata { dir: p.target_dir, mode: p.target_mode }) } else { Err(()) } } else { Ok(Metadata { dir: p.own_dir, mode: p.own_mode }) }
        }
        /// lstat(2): the link itself (never a directory, mode 0777)
        pub fn symlink_metadata(p: &Path) -> Result<Metadata, ()> {
            if !p.exists { return Err(()); }
            if p.is_link { Ok(Metadata { dir: false, mode: 0o777 }) } else { Ok(Metadata { dir: p.own_dir, mode: p.own_mode }) }
        }
    }
    pub mod os { pub mod unix { pub mod fs { pub trait PermissionsExt { fn mode(&self) -> u32; } impl PermissionsExt for crate::std::fs::Permissions { fn mode(&self) -> u32 { self.mode } } } } }
}
pub struct List<T> { pub a: [T; 2], pub n: usize }
impl<T: Copy> List<T> { pub fn last(&self) -> Option<&T> { if self.n == 0 { None } else { Some(&self.a[self.n - 1]) } } pub fn push(&mut self, t: T) { self.a[self.n] = t; self.n += 1; } }
pub struct Options { pub input_headers: List<Hdr>, pub clang_args: List<Hdr> }

fn parse(context: &mut BindgenContext) -> Result<(), BindgenError> {
/*PARSE_HEAD*/
    Ok(())
}
fn precheck(options: &mut Options) -> Result<(), BindgenError> {
/*PRECHECK*/
    Ok(())
}

#[cfg(kani)]
mod proofs {
    use super::*;
    #[kani::proof] #[kani::unwind(5)]
    fn clang_rejection_is_an_error_value() {
        let n: usize = kani::any(); kani::assume(n <= ND);
        let mut d = [Diagnostic { sev: 0, id: 0 }; ND];
        let mut i = 0; while i < ND { d[i] = Diagnostic { sev: kani::any(), id: kani::any() }; kani::assume(d[i].sev <= 4); i += 1; }
        let mut ctx = BindgenContext { tu: TranslationUnit { d, n } };
        let r = parse(&mut ctx);
        // clang rejected the header iff it reported an error or a fatal error (fatal: e.g. a missing #include, after which clang stops)
        let mut rejected = 0; let mut want = [0u8; ND]; let mut i = 0;
        while i < n { if d[i].sev == clang_sys::CXDiagnostic_Error || d[i].sev == clang_sys::CXDiagnostic_Fatal { want[rejected] = d[i].id; rejected += 1; } i += 1; }
        match r {
            Ok(()) => assert!(rejected == 0, "a header clang rejected goes on to produce bindings"),
            Err(BindgenError::ClangDiagnostic(s)) => {
                assert!(rejected > 0, "a header clang accepted (notes / warnings only) is refused");
                assert!(s.n == rejected && s.newlines == rejected, "the error does not carry every diagnostic");
                let mut i = 0; while i < rejected { assert!(s.msgs[i] == want[i], "the error does not carry clang's diagnostics in order"); i += 1; }
            }
            Err(_) => assert!(false, "wrong error kind"),
        }
        kani::cover!(rejected == 2, "two error diagnostics");
        kani::cover!(n == 3 && rejected == 0, "three harmless diagnostics");
    }
    #[kani::proof] #[kani::unwind(4)]
    fn input_path_faults_yield_their_specific_error() {
        let p = Path { id: kani::any(), exists: kani::any(), is_link: kani::any(), own_dir: kani::any(), own_mode: kani::any(), target_exists: kani::any(), target_dir: kani::any(), target_mode: kani::any() };
        kani::assume(p.own_mode <= 0o7777 && p.target_mode <= 0o7777);
        kani::assume(!(p.is_link && p.own_dir));
        let other = Hdr { p: Path { id: 0, exists: kani::any(), is_link: false, own_dir: kani::any(), own_mode: 0, target_exists: false, target_dir: false, target_mode: 0 } };
        let n: usize = kani::any(); kani::assume(n <= 2);
        // the LAST header is the one handed to clang as the input file; earlier ones go through -include
        let mut o = Options { input_headers: List { a: [other, Hdr { p }], n }, clang_args: List { a: [other; 2], n: 0 } };
        if n == 1 { o.input_headers.a[0] = Hdr { p }; }
        let r = precheck(&mut o);
        if n == 0 { assert!(r.is_ok() && o.clang_args.n == 0); return; }
        // what open(2) will find: the file itself, or for a symbolic link what it points to
        let (there, dir, mode) = if !p.exists { (false, false, 0) } else if p.is_link { (p.target_exists, p.target_dir, p.target_mode) } else { (true, p.own_dir, p.own_mode) };
        match r {
            Err(BindgenError::NotExist(b)) => assert!(!there && b == PathBuf(p.id), "NotExist for a path that exists"),
            Err(BindgenError::FolderAsHeader(b)) => assert!(there && dir && b == PathBuf(p.id), "FolderAsHeader for something that is not a directory"),
            Err(BindgenError::InsufficientPermissions(b)) => assert!(there && !dir && mode & 0o444 == 0 && b == PathBuf(p.id), "InsufficientPermissions for a readable file"),
            Err(_) => assert!(false, "wrong error kind"),
            Ok(()) => {
                assert!(there, "a missing input path is not reported");
                assert!(!dir, "a directory as input is not reported");
                assert!(mode & 0o444 != 0, "an unreadable input file is not reported");
                assert!(o.clang_args.n == 1 && o.clang_args.a[0].p.id == p.id, "the input header is not handed to clang");
            }
        }
        kani::cover!(p.is_link && !there, "dangling symbolic link");
        kani::cover!(r.is_ok(), "readable file");
    }
}
