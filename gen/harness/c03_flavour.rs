// C03 / C01: a bit-field of a union is reached through the representation its allocation unit really has.
// Real text: the template switch condition of `impl FieldCodegen for Bitfield`, the `let field_ty = ..` statement of
// `impl FieldCodegen for BitfieldUnit`, `wrap_union_field_if_needed`, `CompInfo::is_rust_union` (ir/comp.rs).
#![allow(warnings)]
#[derive(Clone, Copy, PartialEq, Eq, Debug)] pub struct Layout { pub size: usize, pub align: usize }
#[derive(Clone, Copy, PartialEq, Eq, Debug)] pub enum NonCopyUnionStyle { BindgenWrapper, ManuallyDrop }
pub struct NameSet(pub bool); impl NameSet { pub fn matches(&self, _: &str) -> bool { self.0 } }
pub struct Options { pub untagged_union: bool, pub enable_cxx_namespaces: bool, pub bindgen_wrapper_union: NameSet, pub manually_drop_union: NameSet, pub default_non_copy_union_style: NonCopyUnionStyle }
#[derive(Clone, Copy, PartialEq, Eq, Debug)] pub struct Ident;
pub struct BindgenContext { pub o: Options }
impl BindgenContext { pub fn options(&self) -> &Options { &self.o } pub fn trait_prefix(&self) -> Ident { Ident } }
#[derive(Clone, Copy)] pub struct TypeId(pub bool); impl TypeId { pub fn can_derive_copy(&self, _: &BindgenContext) -> bool { self.0 } }
#[derive(Clone, Copy)] pub struct FieldData(pub TypeId); impl FieldData { pub fn ty(&self) -> TypeId { self.0 } }
#[derive(Clone, Copy)] pub enum Field { DataMember(FieldData), Bitfields(()) }
pub struct FieldList { pub a: [Field; 2], pub n: usize }
pub struct FIter<'a> { l: &'a FieldList, i: usize }
impl<'a> Iterator for FIter<'a> { type Item = &'a Field; fn next(&mut self) -> Option<&'a Field> { if self.i >= 2 { return None; } let k = self.i; self.i += 1; if k < self.l.n { Some(&self.l.a[k]) } else { None } } }
impl FieldList { pub fn iter(&self) -> FIter<'_> { FIter { l: self, i: 0 } } }
pub struct CompInfo { pub union: bool, pub fwd: bool, pub fields: FieldList }
impl CompInfo {
    pub fn is_union(&self) -> bool { self.union } pub fn is_forward_declaration(&self) -> bool { self.fwd } pub fn fields(&self) -> &FieldList { &self.fields }
/*IS_RUST_UNION*/
}
pub struct StructLayoutTracker { pub is_rust_union: bool, pub can_copy_union_fields: bool }
impl StructLayoutTracker { pub fn is_rust_union(&self) -> bool { self.is_rust_union } pub fn can_copy_union_fields(&self) -> bool { self.can_copy_union_fields } }
pub struct CodegenResult { pub saw_union: bool } impl CodegenResult { pub fn saw_bindgen_union(&mut self) { self.saw_union = true; } }
pub mod syn {
    #[derive(Clone, Copy, PartialEq, Eq, Debug)] pub enum Type { Unit, ManuallyDrop, UnionField }
    macro_rules! parse_quote_ {
        (:: # $p:ident :: mem :: ManuallyDrop < # $t:ident >) => { crate::syn::Type::ManuallyDrop };
        (root :: __BindgenUnionField < # $t:ident >) => { crate::syn::Type::UnionField };
        (__BindgenUnionField < # $t:ident >) => { crate::syn::Type::UnionField };
    }
    pub(crate) use parse_quote_ as parse_quote;
}
/*WRAP_FN*/
/// the `let field_ty = { .. };` statement of BitfieldUnit::codegen: the type of the `_bitfield_N` member
pub fn unit_member_type(ctx: &BindgenContext, parent: &CompInfo, struct_layout: &StructLayoutTracker, result: &mut CodegenResult) -> syn::Type {
    let unit_field_ty = syn::Type::Unit;
    /*FIELD_TY_STMT*/
    field_ty
}
/// the condition that selects the `as_ref()` / `as_mut()` accessor templates in Bitfield::codegen
pub fn accessors_go_through_union_field(ctx: &BindgenContext, parent: &CompInfo, struct_layout: &StructLayoutTracker) -> bool {
    /*SWITCH_COND*/
}
#[cfg(kani)]
mod proofs {
    use super::*;
    #[kani::proof] #[kani::unwind(4)]
    fn union_bitfield_accessors_match_the_storage_of_their_unit() {
        let style = |b: bool| if b { NonCopyUnionStyle::BindgenWrapper } else { NonCopyUnionStyle::ManuallyDrop };
        let ctx = BindgenContext { o: Options { untagged_union: kani::any(), enable_cxx_namespaces: kani::any(), bindgen_wrapper_union: NameSet(kani::any()), manually_drop_union: NameSet(kani::any()), default_non_copy_union_style: style(kani::any()) } };
        let f = |_: u8| if kani::any() { Field::DataMember(FieldData(TypeId(kani::any()))) } else { Field::Bitfields(()) };
        let n: usize = kani::any(); kani::assume(n <= 2);
        let parent = CompInfo { union: kani::any(), fwd: kani::any(), fields: FieldList { a: [f(0), f(1)], n } };
        let layout = if kani::any() { let s: usize = kani::any(); Some(Layout { size: s, align: 1 }) } else { None };
        // StructLayoutTracker::new asks the composite itself
        let (ru, cc) = parent.is_rust_union(&ctx, layout.as_ref(), "u");
        let tracker = StructLayoutTracker { is_rust_union: ru, can_copy_union_fields: cc };
        let mut result = CodegenResult { saw_union: false };
        let storage = unit_member_type(&ctx, &parent, &tracker, &mut result);
        let via_union_field = accessors_go_through_union_field(&ctx, &parent, &tracker);
        assert!(via_union_field == (storage == syn::Type::UnionField), "bit-field accessors and the allocation unit member disagree about __BindgenUnionField (the accessors do not compile)");
        assert!(parent.union || storage == syn::Type::Unit, "the allocation unit of a struct is wrapped");
        assert!(storage != syn::Type::UnionField || result.saw_union, "__BindgenUnionField used but its definition is not requested");
        assert!(storage != syn::Type::ManuallyDrop || (ru && !cc), "ManuallyDrop around a unit although every member is Copy");
        kani::cover!(storage == syn::Type::UnionField && ctx.o.untagged_union, "wrapper union although untagged unions are enabled");
        kani::cover!(storage == syn::Type::ManuallyDrop, "ManuallyDrop storage");
        kani::cover!(parent.union && storage == syn::Type::Unit, "plain Rust union");
    }
}
