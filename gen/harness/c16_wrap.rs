// C16: bookkeeping between a binding to a `static` function and its C wrapper - the three statements of Function::codegen that decide it,
// verbatim: the early exit for internal-linkage functions, `should_wrap` with its link_name attribute, the registration for serialisation.
#![allow(warnings)]
macro_rules! debug { ($($t:tt)*) => {} }
#[derive(Clone, Copy, PartialEq, Eq, Debug)] pub struct ItemId(pub usize);
/// a symbol / identifier: a base name and what was appended to it: 0 nothing, 1 the CONFIGURED wrapper suffix (what serialize.rs appends on the C side), 2 any other text
#[derive(Clone, Copy, PartialEq, Eq, Debug)] pub struct Name { pub base: u8, pub suffixed: u8 }
pub struct Suffix(pub u8);
/// crate-level constants a suffix could be taken from instead of the configured one
pub const DEFAULT_NON_EXTERN_FNS_SUFFIX: Suffix = Suffix(2);
impl core::ops::Add<Suffix> for Name { type Output = Name; fn add(self, s: Suffix) -> Name { Name { base: self.base, suffixed: s.0 } } }
impl core::ops::Add<&Suffix> for Name { type Output = Name; fn add(self, s: &Suffix) -> Name { Name { base: self.base, suffixed: s.0 } } }
#[derive(Clone, Copy, PartialEq, Eq, Debug)] pub enum Attr { LinkName { mangled: bool, name: Name }, Other }
pub mod attributes { use super::*; pub fn link_name<const MANGLE: bool>(name: &Name) -> Attr { Attr::LinkName { mangled: MANGLE, name: *name } } }
pub struct Vec<T> { pub a: [Option<T>; 4], pub n: usize }
impl<T: Copy> Vec<T> { pub fn new() -> Self { Vec { a: [None; 4], n: 0 } } pub fn push(&mut self, t: T) { self.a[self.n] = Some(t); self.n += 1; } }
#[derive(Clone, Copy, PartialEq, Eq, Debug)] pub struct WrapAsVariadic { pub idx_of_va_list_arg: usize, pub new_name: Name }
pub struct Options { pub wrap_static_fns: bool }
pub struct BindgenContext { pub o: Options, pub va_list_wrapper: Option<WrapAsVariadic> }
impl BindgenContext { pub fn options(&self) -> &Options { &self.o } pub fn wrap_static_fns_suffix(&self) -> Suffix { Suffix(1) } }
pub struct FunctionSig { pub variadic: bool } impl FunctionSig { pub fn is_variadic(&self) -> bool { self.variadic } }
pub struct Item { pub id: ItemId } impl Item { pub fn id(&self) -> ItemId { self.id } pub fn location(&self) -> Option<()> { None } }
pub struct CodegenResult { pub items_to_serialize: Vec<(ItemId, Option<WrapAsVariadic>)> }
pub fn variadic_fn_diagnostic(_: Name, _: Option<()>, _: &BindgenContext) {}
pub mod utils { use super::*; pub fn wrap_as_variadic_fn(ctx: &BindgenContext, _: &FunctionSig, _: Name) -> Option<WrapAsVariadic> { ctx.va_list_wrapper } }
pub struct Function { pub name: Name }
impl Function {
    pub fn name(&self) -> Name { self.name }
    /// Function::codegen reduced to the statements that decide wrapping; everything between them is passed in (link_name_attr, canonical_name, attributes so far)
    pub fn codegen_wrapping(&self, ctx: &BindgenContext, result: &mut CodegenResult, item: &Item, signature: &FunctionSig, is_internal: bool,
                            link_name_attr: Option<&Name>, canonical_name: Name, attributes: &mut Vec<Attr>) -> Option<u32> {
        let name = self.name();
/*S1_EARLY_EXIT*/
/*S2_SHOULD_WRAP*/
/*S2B_VARIADIC*/
/*S3_REGISTER*/
        Some(0)
    }
}
#[cfg(kani)]
mod proofs {
    use super::*;
    /// `explicit_link_name` (concrete): the binding already carries a #[link_name] - an __asm__ label, a callback override, or (always, in C++) the mangled name
    /// `region`: 0 = unconstrained, 1 = exactly the region of finding F10 (static, wrapping on, not variadic), 2 = its complement
    fn case(explicit_link_name: bool, region: u8) {
        let ctx = BindgenContext { o: Options { wrap_static_fns: kani::any() }, va_list_wrapper: if kani::any() { Some(WrapAsVariadic { idx_of_va_list_arg: kani::any(), new_name: Name { base: 9, suffixed: 0 } }) } else { None } };
        let f = Function { name: Name { base: kani::any(), suffixed: 0 } };
        let canonical = Name { base: kani::any(), suffixed: 0 };
        let mangled = Name { base: kani::any(), suffixed: 0 };
        let sig = FunctionSig { variadic: kani::any() };
        let item = Item { id: ItemId(7) };
        let is_internal: bool = kani::any();
        let f10 = is_internal && ctx.o.wrap_static_fns && !sig.variadic;
        if region == 1 { kani::assume(f10); } else if region == 2 { kani::assume(!f10); }
        let mut result = CodegenResult { items_to_serialize: Vec::new() };
        let mut attrs = Vec::new();
        if explicit_link_name { attrs.push(Attr::LinkName { mangled: false, name: mangled }); }
        let r = f.codegen_wrapping(&ctx, &mut result, &item, &sig, is_internal, if explicit_link_name { Some(&mangled) } else { None }, canonical, &mut attrs);
        let registered = result.items_to_serialize.n;
        let mut suffix_attr = 0; let mut i = 0;
        while i < attrs.n { if let Some(Attr::LinkName { name, .. }) = attrs.a[i] { if name == (Name { base: canonical.base, suffixed: 1 }) { suffix_attr += 1; } } i += 1; }
        if !is_internal {
            assert!(registered == 0 && suffix_attr == 0, "a wrapper is generated for a function with external linkage");
            assert!(r.is_some());
        } else if !ctx.o.wrap_static_fns || sig.variadic {
            // a static function that cannot be wrapped gets NO binding (a binding would name a symbol that no object file defines)
            assert!(r.is_none(), "binding emitted for a static function that is not wrapped");
            assert!(registered == 0);
        } else {
            // binding emitted: it must point at the wrapper, and exactly one wrapper must be generated for it
            assert!(r.is_some());
            assert!(registered == 1 && result.items_to_serialize.a[0].unwrap().0 == item.id, "binding to a static function without exactly one wrapper");
            assert!(suffix_attr == 1, "binding to a static function does not name <name><suffix>");
        }
        kani::cover!(is_internal, "static function");
        kani::cover!(true, "end reached");
    }
    #[kani::proof] #[kani::unwind(6)] fn static_fn_binding_has_exactly_its_wrapper() { case(false, 0) }
    #[kani::proof] #[kani::unwind(6)] fn explicit_link_name_outside_the_f10_region() { case(true, 2) }
    #[kani::proof] #[kani::unwind(6)] fn static_fn_with_explicit_or_mangled_link_name() { case(true, 1) }
}
