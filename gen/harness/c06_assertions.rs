// C06: the layout-assertion blocks - real text of the layout_tests statement of CompInfo::codegen and of the whole
// impl CodeGenerator for TemplateInstantiation, compiled against token stubs that decode what each quote! template asserts.
#![allow(warnings)]
macro_rules! debug_assert { ($($t:tt)*) => {} }
macro_rules! warn { ($($t:tt)*) => {} }
macro_rules! format { ($($t:tt)*) => { Str } }
macro_rules! write { ($($t:tt)*) => { Ok::<(), ()>(()) } }
macro_rules! vec { () => { Vec::new() } }
pub const CAP: usize = 3;
#[derive(Clone, Copy)] pub struct Str;
#[derive(Clone, Copy, PartialEq, Eq, Debug)] pub struct Ident(pub u8);
#[derive(Clone, Copy, PartialEq, Eq, Debug)] pub struct Name(pub u8);
#[derive(Clone, Copy, PartialEq, Eq, Debug)] pub enum Expr { SizeOf, AlignOf }
#[derive(Clone, Copy, PartialEq, Eq, Debug)] pub struct OffsetCheck { pub ct: bool, pub ty: Ident, pub field: Ident, pub offset: usize }
#[derive(Clone, Copy, PartialEq, Eq, Debug)] pub struct AlignCheck { pub ct: bool, pub expr: Expr, pub align: usize }
#[derive(Clone, Copy, Debug)]
pub struct Block { pub ct: bool, pub named_fn: bool, pub uninit: bool, pub size_expr: Expr, pub size: usize, pub has_align: bool, pub align: AlignCheck, pub offs: [Option<OffsetCheck>; CAP], pub n_offs: usize }
#[derive(Clone, Copy, Debug)]
pub enum TokenStream { Expr(Expr, Ident), Align(AlignCheck), Offset(OffsetCheck), Uninit, Block(Block) }
impl TokenStream {
    fn expr(self) -> Expr { match self { TokenStream::Expr(e, _) => e, _ => panic!() } }
    fn align(self) -> AlignCheck { match self { TokenStream::Align(a) => a, _ => panic!() } }
    fn offset(self) -> OffsetCheck { match self { TokenStream::Offset(o) => o, _ => panic!() } }
}
pub struct Vec<T> { pub a: [Option<T>; CAP], pub n: usize }
impl<T: Copy> Vec<T> {
    pub fn new() -> Self { Vec { a: [None; CAP], n: 0 } }
    pub fn push(&mut self, t: T) { self.a[self.n] = Some(t); self.n += 1; }
    pub fn is_empty(&self) -> bool { self.n == 0 }
}
impl<T: Copy> FromIterator<T> for Vec<T> { fn from_iter<I: IntoIterator<Item = T>>(it: I) -> Self { let mut v = Vec::new(); for x in it { v.push(x); } v } }
fn offs(v: &Vec<TokenStream>) -> ([Option<OffsetCheck>; CAP], usize) { let mut o = [None; CAP]; let mut i = 0; while i < v.n { o[i] = Some(v.a[i].unwrap().offset()); i += 1; } (o, v.n) }
macro_rules! quote {
    (:: # $p:ident :: mem :: size_of :: < # $c:ident > ()) => { TokenStream::Expr(Expr::SizeOf, $c) };
    (:: # $p:ident :: mem :: align_of :: < # $c:ident > ()) => { TokenStream::Expr(Expr::AlignOf, $c) };
    ([ # $e:ident ] [ :: # $p:ident :: mem :: offset_of ! ( # $c:ident , # $f:ident ) - # $o:ident ] ;) => { TokenStream::Offset(OffsetCheck { ct: true, ty: $c, field: $f, offset: $o }) };
    ([ # $e:ident ] [ # $x:ident - # $a:ident ] ;) => { TokenStream::Align(AlignCheck { ct: true, expr: $x.expr(), align: $a }) };
    (assert_eq ! ( unsafe { :: # $p:ident :: ptr :: addr_of ! ( ( * ptr ) . # $f:ident ) as usize - ptr as usize } , # $o:ident , # $e:ident ) ;) => { TokenStream::Offset(OffsetCheck { ct: false, ty: Ident(0), field: $f, offset: $o }) };
    (assert_eq ! ( # $x:ident , # $a:ident , # $e:ident ) ;) => { TokenStream::Align(AlignCheck { ct: false, expr: $x.expr(), align: $a }) };
    (const UNINIT : $($t:tt)*) => { TokenStream::Uninit };
    (# [ $($al:tt)* ] const _ : () = { [ # $se:ident ] [ # $sx:ident - # $s:ident ] ; # $a:ident # ( # $v:ident ) * } ;) => {{
        let (o, n) = offs(&$v);
        TokenStream::Block(Block { ct: true, named_fn: false, uninit: false, size_expr: $sx.expr(), size: $s, has_align: true, align: $a.align(), offs: o, n_offs: n }) }};
    (# [ test ] fn # $n:ident () { # $u:ident assert_eq ! ( # $sx:ident , # $s:ident , # $se:ident ) ; # $a:ident # ( # $v:ident ) * }) => {{
        let (o, n) = offs(&$v);
        TokenStream::Block(Block { ct: false, named_fn: $n.is_some(), uninit: $u.is_some(), size_expr: $sx.expr(), size: $s, has_align: true, align: $a.align(), offs: o, n_offs: n }) }};
    // template instantiations: size and alignment only
    (# [ $($al:tt)* ] const _ : () = { [ # $se:ident ] [ # $sx:ident - # $s:ident ] ; [ # $ae:ident ] [ # $ax:ident - # $a:ident ] ; } ;) => {
        TokenStream::Block(Block { ct: true, named_fn: false, uninit: false, size_expr: $sx.expr(), size: $s, has_align: true, align: AlignCheck { ct: true, expr: $ax.expr(), align: $a }, offs: [None; CAP], n_offs: 0 }) };
    (# [ test ] fn # $n:ident () { assert_eq ! ( # $sx:ident , # $s:ident , # $se:ident ) ; assert_eq ! ( # $ax:ident , # $a:ident , # $ae:ident ) ; }) => {
        TokenStream::Block(Block { ct: false, named_fn: $n.is_some(), uninit: false, size_expr: $sx.expr(), size: $s, has_align: true, align: AlignCheck { ct: false, expr: $ax.expr(), align: $a }, offs: [None; CAP], n_offs: 0 }) };
    // tolerant arms (a block that lacks its alignment assertion must be judged, not fail to build): has_align = false
    (# [ $($al:tt)* ] const _ : () = { [ # $se:ident ] [ # $sx:ident - # $s:ident ] ; # ( # $v:ident ) * } ;) => {{
        let (o, n) = offs(&$v);
        TokenStream::Block(Block { ct: true, named_fn: false, uninit: false, size_expr: $sx.expr(), size: $s, has_align: false, align: NOALIGN, offs: o, n_offs: n }) }};
    (# [ test ] fn # $n:ident () { # $u:ident assert_eq ! ( # $sx:ident , # $s:ident , # $se:ident ) ; # ( # $v:ident ) * }) => {{
        let (o, n) = offs(&$v);
        TokenStream::Block(Block { ct: false, named_fn: $n.is_some(), uninit: $u.is_some(), size_expr: $sx.expr(), size: $s, has_align: false, align: NOALIGN, offs: o, n_offs: n }) }};
    (# [ $($al:tt)* ] const _ : () = { [ # $se:ident ] [ # $sx:ident - # $s:ident ] ; } ;) => {
        TokenStream::Block(Block { ct: true, named_fn: false, uninit: false, size_expr: $sx.expr(), size: $s, has_align: false, align: NOALIGN, offs: [None; CAP], n_offs: 0 }) };
    (# [ test ] fn # $n:ident () { assert_eq ! ( # $sx:ident , # $s:ident , # $se:ident ) ; }) => {
        TokenStream::Block(Block { ct: false, named_fn: $n.is_some(), uninit: false, size_expr: $sx.expr(), size: $s, has_align: false, align: NOALIGN, offs: [None; CAP], n_offs: 0 }) };
}
const NOALIGN: AlignCheck = AlignCheck { ct: false, expr: Expr::SizeOf, align: 0 };
#[derive(Clone, Copy)] pub struct Layout { pub size: usize, pub align: usize }
pub struct Features { pub offset_of: bool }
pub struct Options { pub layout_tests: bool, pub f: Features } impl Options { pub fn rust_features(&self) -> &Features { &self.f } }
#[derive(Clone, Copy, PartialEq, Eq)] pub struct ItemId(pub usize);
pub struct BindgenContext { pub o: Options, pub uses_tparams: bool }
impl BindgenContext {
    pub fn options(&self) -> &Options { &self.o }
    pub fn rust_ident_raw(&self, _: Str) -> Ident { Ident(200) }
    pub fn rust_ident(&self, n: Name) -> Ident { Ident(n.0) }
    pub fn trait_prefix(&self) -> Ident { Ident(201) }
    pub fn uses_any_template_parameters(&self, _: ItemId) -> bool { self.uses_tparams }
}
#[derive(Clone, Copy)] pub struct FieldData { pub name: Option<Name>, pub offset: Option<usize> }
impl FieldData { pub fn name(&self) -> Option<Name> { self.name } pub fn offset(&self) -> Option<usize> { self.offset } }
#[derive(Clone, Copy)] pub struct BitfieldUnit;
#[derive(Clone, Copy)] pub enum Field { DataMember(FieldData), Bitfields(BitfieldUnit) }
pub struct CompInfo { pub fields: [Field; CAP], pub n: usize, pub fwd: bool, pub unknown_attr: bool, pub packed_attr: bool, pub has_own_virtual: bool, pub is_union: bool }
impl CompInfo {
    pub fn fields(&self) -> &[Field] { &self.fields[..self.n] } pub fn is_forward_declaration(&self) -> bool { self.fwd }
    // further accessors of the real CompInfo, so that a condition added to the statement is decided rather than failing to compile
    pub fn found_unknown_attr(&self) -> bool { self.unknown_attr } pub fn packed_attr(&self) -> bool { self.packed_attr } pub fn has_own_virtual_method(&self) -> bool { self.has_own_virtual } pub fn is_union(&self) -> bool { self.is_union }
}
impl CompInfo {
    /// the statement `if ctx.options().layout_tests && !self.is_forward_declaration() { .. }` of CompInfo::codegen, with its free variables as parameters
    pub fn layout_block(&self, ctx: &BindgenContext, result: &mut Vec<TokenStream>, layout: Option<Layout>, is_opaque: bool, canonical_ident: Ident) {
/*COMP_STATEMENT*/
    }
}
pub struct Type { pub layout: Option<Layout> } impl Type { pub fn layout(&self, _: &BindgenContext) -> Option<Layout> { self.layout } }
pub struct ItemKind { pub ty: Type } impl ItemKind { pub fn expect_type(&self) -> &Type { &self.ty } }
pub struct Item { pub kind: ItemKind }
impl Item {
    pub fn id(&self) -> ItemId { ItemId(1) }
    pub fn kind(&self) -> &ItemKind { &self.kind }
    pub fn full_disambiguated_name(&self, _: &BindgenContext) -> Str { Str }
    pub fn to_rust_ty_or_opaque(&self, _: &BindgenContext, _: &()) -> Ident { Ident(77) }
}
pub struct CodegenResult<'a> { pub items: Vec<TokenStream>, pub seen: u32, pub p: core::marker::PhantomData<&'a ()> }
impl<'a> CodegenResult<'a> { pub fn push(&mut self, t: TokenStream) { self.items.push(t) } pub fn overload_number(&mut self, _: &Str) -> u32 { self.seen } }
pub struct TemplateInstantiation { pub opaque: bool } impl TemplateInstantiation { pub fn is_opaque(&self, _: &BindgenContext, _: &Item) -> bool { self.opaque } }
pub trait CodeGenerator { type Extra; type Return; fn codegen(&self, ctx: &BindgenContext, result: &mut CodegenResult<'_>, extra: &Self::Extra) -> Self::Return; }
/*INSTANTIATION_IMPL*/
#[cfg(kani)]
mod proofs {
    use super::*;
    fn any_layout() -> Option<Layout> { if kani::any() { Some(Layout { size: kani::any(), align: kani::any() }) } else { None } }
    fn any_field() -> Field {
        if kani::any() { Field::Bitfields(BitfieldUnit) } else {
            let off: usize = kani::any(); kani::assume(off % 8 == 0);     // a non-bit-field member starts on a byte boundary (libclang reports bits)
            Field::DataMember(FieldData { name: if kani::any() { Some(Name(kani::any())) } else { None }, offset: if kani::any() { Some(off) } else { None } }) }
    }
    #[kani::proof] #[kani::unwind(5)]
    fn composite_assertion_block_is_complete_and_right() {
        let ctx = BindgenContext { o: Options { layout_tests: kani::any(), f: Features { offset_of: kani::any() } }, uses_tparams: false };
        let n: usize = kani::any(); kani::assume(n <= CAP);
        let comp = CompInfo { fields: [any_field(), any_field(), any_field()], n, fwd: kani::any(), unknown_attr: kani::any(), packed_attr: kani::any(), has_own_virtual: kani::any(), is_union: kani::any() };
        let layout = any_layout(); let is_opaque: bool = kani::any();
        let me = Ident(kani::any()); kani::assume(me.0 < 200);
        let mut result = Vec::new();
        comp.layout_block(&ctx, &mut result, layout, is_opaque, me);
        let ct = ctx.o.f.offset_of;
        if !ctx.o.layout_tests { assert!(result.n == 0, "layout tests disabled but an assertion is emitted"); return; }
        if comp.fwd || layout.is_none() { assert!(result.n == 0, "assertion for a type without a known layout"); return; }
        let l = layout.unwrap();
        assert!(result.n == 1, "a concrete composite with a known layout has no (or more than one) assertion block");
        let b = match result.a[0].unwrap() { TokenStream::Block(b) => b, _ => { assert!(false, "not an assertion block"); return; } };
        assert!(b.ct == ct && b.named_fn == !ct, "const block vs #[test] fn does not follow the offset_of feature");
        assert!(b.size_expr == Expr::SizeOf && b.size == l.size, "asserted size is not the layout's size");
        assert!(b.has_align, "a concrete record has no alignment assertion");
        assert!(b.align.expr == Expr::AlignOf && b.align.align == l.align && b.align.ct == ct, "asserted alignment is not the layout's alignment");
        // every named non-bit-field member with a known offset, in order; none for opaque blobs
        let mut k = 0; let mut i = 0;
        while i < n {
            if let Field::DataMember(f) = comp.fields[i] { if let (Some(nm), Some(off)) = (f.name, f.offset) { if !is_opaque {
                assert!(k < b.n_offs, "a named member has no offset assertion");
                let o = b.offs[k].unwrap();
                assert!(o.field == Ident(nm.0) && o.offset * 8 == off && o.ct == ct && (!ct || o.ty == me), "offset assertion names the wrong member or the wrong offset");
                k += 1;
            } } }
            i += 1;
        }
        assert!(b.n_offs == k, "an offset assertion for something that is not a named data member");
        assert!(b.uninit == (!ct && k > 0), "the run-time test dereferences `ptr` without declaring it (or declares it unused)");
        kani::cover!(k == 3, "three member offsets asserted");
        kani::cover!(k == 0 && n == 3, "three members, none asserted");
    }
    #[kani::proof] #[kani::unwind(3)]
    fn instantiation_assertion_block_is_complete_and_right() {
        let ctx = BindgenContext { o: Options { layout_tests: kani::any(), f: Features { offset_of: kani::any() } }, uses_tparams: kani::any() };
        let inst = TemplateInstantiation { opaque: kani::any() };
        let item = Item { kind: ItemKind { ty: Type { layout: any_layout() } } };
        let mut result = CodegenResult { items: Vec::new(), seen: kani::any(), p: core::marker::PhantomData };
        inst.codegen(&ctx, &mut result, &item);
        let concrete = ctx.o.layout_tests && !inst.opaque && !ctx.uses_tparams && item.kind.ty.layout.is_some();
        if !concrete { assert!(result.items.n == 0, "assertion for an instantiation that is opaque / generic / of unknown layout, or with layout tests disabled"); return; }
        let l = item.kind.ty.layout.unwrap();
        assert!(result.items.n == 1, "a concrete template instantiation has no size / alignment assertion");
        let b = match result.items.a[0].unwrap() { TokenStream::Block(b) => b, _ => { assert!(false); return; } };
        let ct = ctx.o.f.offset_of;
        assert!(b.ct == ct && b.named_fn == !ct);
        assert!(b.size_expr == Expr::SizeOf && b.size == l.size, "asserted size is not the layout's size");
        assert!(b.has_align, "a concrete template instantiation has no alignment assertion");
        assert!(b.align.expr == Expr::AlignOf && b.align.align == l.align, "asserted alignment is not the layout's alignment");
        kani::cover!(ct, "const block"); kani::cover!(!ct, "test fn");
    }
}
