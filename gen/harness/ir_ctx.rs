// Shared harness context for the one-step obligations: item 0 = root module, items 1 and 2 = children,
// item X = 3 = the node under test (symbolic kind over every TypeKind variant, symbolic flags).
#[cfg(kani)]
pub mod hctx {
    use super::*;
    pub const X: usize = 3;
    pub fn r(k: usize) -> TypeId { TypeId(ItemId(k)) }
    pub fn any_flags() -> Flags {
        Flags { opaque: kani::any(), no_copy: kani::any(), no_debug: kani::any(), no_default: kani::any(), no_hash: kani::any(), no_partialeq: kani::any(),
                vtable: kani::any(), vtable_ptr: kani::any(), tparams: kani::any::<bool>() as usize, blocklisted: false, stdint_name: false, named: kani::any() }
    }
    pub fn any_sig() -> FunctionSig {
        let abis = [ClangAbi::Known(Abi::C), ClangAbi::Known(Abi::Stdcall), ClangAbi::Known(Abi::System), ClangAbi::Unknown(7)];
        let i: usize = kani::any(); kani::assume(i < 4);
        let n: usize = kani::any::<bool>() as usize;
        let extra: usize = kani::any(); kani::assume(extra <= 14);
        FunctionSig { return_type: r(1), argument_types: ArgList { a: [(None, r(2))], n, declared_len: n + extra }, abi: abis[i] }
    }
    pub fn empty_comp(kind: CompKind) -> CompInfo {
        CompInfo { fields: CompFields::After { fields: List { a: [Field::DataMember(FieldData { ty: r(1) }), Field::DataMember(FieldData { ty: r(1) })], n: 0 }, has_bitfield_units: false },
                   bases: List { a: [Base { ty: r(2), virt: false }], n: 0 }, kind, own_dtor: false, own_virtual: false, fwd: false, non_type_tparams: false, big_bitfield_unit: false, self_tparams: 0,
                   inner_types: List { a: [r(1); IC], n: 0 }, inner_vars: List { a: [VarId(ItemId(1)); IC], n: 0 }, methods: List { a: core::array::from_fn(|_| Method { signature: FunctionId(ItemId(1)) }), n: 0 },
                   ctors: List { a: [FunctionId(ItemId(1)); IC], n: 0 }, dtor: None,
                   e_fields: List { a: [Field::DataMember(FieldData { ty: r(1) }), Field::DataMember(FieldData { ty: r(1) })], n: 0 } }
    }
    /// every TypeKind variant; references go to children 1 and 2
    /// `tag` is a harness parameter (CONCRETE: one harness per TypeKind variant; a symbolic variant makes CBMC's byte-level
    /// enum encoding explode, measured 19 GB); the payload is symbolic
    pub fn any_kind(tag: u8) -> TypeKind {
        match tag {
            0 => TypeKind::Int(0),
            1 => TypeKind::Float(0),
            2 => TypeKind::Pointer(r(1)),
            3 => TypeKind::Array(r(1), kani::any()),
            4 => TypeKind::Alias(r(1)),
            5 => TypeKind::ResolvedTypeRef(r(1)),
            6 => { let n: usize = kani::any(); kani::assume(n >= 1); TypeKind::Vector(r(1), n) }
            7 => TypeKind::Reference(r(1)),
            8 => TypeKind::BlockPointer(r(1)),
            9 => TypeKind::TemplateAlias(r(1), List { a: [r(2)], n: kani::any::<bool>() as usize }),
            10 => TypeKind::Function(any_sig()),
            11 => TypeKind::Enum(Enum { repr: if kani::any() { Some(r(1)) } else { None } }),
            12 => comp_kind(),
            13 => TypeKind::TemplateInstantiation(TemplateInstantiation { definition: r(1), args: List { a: [r(2)], n: 1 } }),
            14 => TypeKind::Void, 15 => TypeKind::NullPtr, 16 => TypeKind::TypeParam,
            17 => TypeKind::Complex(0), 18 => TypeKind::ObjCId, 19 => TypeKind::ObjCSel, 20 => TypeKind::ObjCInterface(ObjCInterface),
            _ => TypeKind::Opaque,
        }
    }
    pub fn comp_kind() -> TypeKind {
        {
            {
                let nf: usize = kani::any(); kani::assume(nf <= 2);
                let nb: usize = kani::any(); kani::assume(nb <= 1);
                let mut c = empty_comp(if kani::any() { CompKind::Struct } else { CompKind::Union });
                c.fields = CompFields::After { fields: List { a: [Field::DataMember(FieldData { ty: r(1) }), Field::Bitfields(BitfieldUnit { bitfields: List { a: [Bitfield { ty: r(2) }], n: 1 } })], n: nf }, has_bitfield_units: false };
                c.bases = List { a: [Base { ty: r(2), virt: kani::any() }], n: nb };
                c.own_dtor = kani::any(); c.own_virtual = kani::any(); c.fwd = kani::any(); c.big_bitfield_unit = kani::any(); c.self_tparams = kani::any::<bool>() as usize;
                // IR invariants at analysis time: unions have no base classes; forward declarations have no members
                kani::assume(!(c.kind == CompKind::Union && nb != 0));
                kani::assume(!(c.fwd && (nf != 0 || nb != 0)));
                TypeKind::Comp(c)
            }
        }
    }
    /// what a child can be, as far as any rule looks INTO a neighbour (function pointers, type parameters, unions)
    /// concrete per harness: 0 Int, 1 Float, 2 TypeParam, 3 Function
    pub fn child_kind(tag: u8) -> TypeKind {
        match tag { 0 => TypeKind::Int(0), 1 => TypeKind::Float(0), 2 => TypeKind::TypeParam, _ => TypeKind::Function(any_sig()) }
    }
    pub fn any_layout() -> Option<Layout> {
        if kani::any() { None } else { let s: usize = kani::any(); let al: u8 = kani::any(); kani::assume(al < 8); kani::assume(s <= 1 << 20); Some(Layout { size: s, align: 1usize << al }) }
    }
    pub fn mk_ctx(tag: u8, child1: u8) -> BindgenContext {
        let mut root_children = ItemSet::new(); root_children.insert(ItemId(1)); root_children.insert(ItemId(2)); root_children.insert(ItemId(X));
        let child = |i: usize, k: TypeKind| Item { id: ItemId(i), kind: ItemKind::Type(Type { kind: k, layout: any_layout(), named: kani::any() }), fl: any_flags() };
        let xk = any_kind(tag);
        // IR invariant: TypeKind::Opaque items are opaque by definition (Type::is_opaque)
        let mut xf = any_flags();
        if let TypeKind::Opaque = xk { xf.opaque = true; }
        let xnamed: bool = kani::any(); let stdint: bool = kani::any();
        // <stdint.h> names denote typedefs of plain integers; `impl Trace for Type` deliberately stops at them
        kani::assume(!(xnamed && stdint));
        let mut allow = ItemSet::all();
        if kani::any() { allow.present[X] = false; xf.blocklisted = true; }
        BindgenContext {
            items: [ Item { id: ItemId(0), kind: ItemKind::Module(Module { children: root_children }), fl: Flags::default() },
                     child(1, child_kind(child1)), child(2, child_kind(0)),
                     Item { id: ItemId(X), kind: ItemKind::Type(Type { kind: xk, layout: any_layout(), named: xnamed }), fl: xf } ],
            allow,
            options: Options { untagged_union: kani::any(), parse_callbacks: Callbacks { n: kani::any::<bool>() as usize },
                               last: Callback { answer: { let a: u8 = kani::any(); match a { 0 => None, 1 => Some(CanDerive::Yes), 2 => Some(CanDerive::Manually), _ => { kani::assume(a == 3); Some(CanDerive::No) } } } },
                               codegen_config: CodegenConfig { bits: 63 } },
            has_dtor: [false, kani::any(), kani::any(), kani::any()],
            stdint_answer: stdint,
        }
    }
    pub fn kind_tag(ctx: &BindgenContext) -> u8 {
        match &ctx.items[X].as_type().unwrap().kind {
            TypeKind::Int(_) => 0, TypeKind::Float(_) => 1, TypeKind::Pointer(_) => 2, TypeKind::Array(..) => 3, TypeKind::Alias(_) => 4, TypeKind::ResolvedTypeRef(_) => 5, TypeKind::Vector(..) => 6,
            TypeKind::Reference(_) => 7, TypeKind::BlockPointer(_) => 8, TypeKind::TemplateAlias(..) => 9, TypeKind::Function(_) => 10, TypeKind::Enum(_) => 11, TypeKind::Comp(_) => 12,
            TypeKind::TemplateInstantiation(_) => 13, TypeKind::Void => 14, TypeKind::NullPtr => 15, TypeKind::TypeParam => 16, TypeKind::Complex(_) => 17, TypeKind::ObjCId => 18, TypeKind::ObjCSel => 19,
            TypeKind::ObjCInterface(_) => 20, TypeKind::Opaque => 21, TypeKind::UnresolvedTypeRef(..) => 22,
        }
    }
}
