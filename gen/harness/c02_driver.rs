// C02 / C10: the REAL text of the layout-relevant region of `impl CodeGenerator for CompInfo` (codegen/mod.rs: from
// `let mut explicit_align = None;` up to the derive computation), compiled against the layout stub environment, together
// with the real struct_layout.rs, helpers::blob and CompInfo::already_packed.  The emitted fields and repr attributes are
// decoded and laid out by the Rust rules, and compared with the C layout the numbers were derived from.
pub mod attributes {
    use super::*;
    pub fn doc(_: &str) -> proc_macro2::TokenStream { proc_macro2::TokenStream::Other }
    pub fn repr(_which: &str) -> proc_macro2::TokenStream { proc_macro2::TokenStream::Repr(0) }
    /// `repr_list(&["C", "packed"])` / `repr_list(&["C", "packed(N)"])`
    pub fn repr_list(which: &[&str]) -> proc_macro2::TokenStream {
        assert!(which.len() == 2);
        let p = which[1];
        let n = if p == "packed" { 1 } else if p == "packed(2)" { 2 } else if p == "packed(4)" { 4 } else if p == "packed(8)" { 8 } else if p == "packed(16)" { 16 } else if p == "packed(32)" { 32 } else { 64 };
        proc_macro2::TokenStream::Repr(n)
    }
}
/// stands for `format!("packed({n})")` (mechanical rewrite, see evidence)
pub fn packed_n_string(n: usize) -> String {
    String::from(match n { 2 => "packed(2)", 4 => "packed(4)", 8 => "packed(8)", 16 => "packed(16)", 32 => "packed(32)", _ => "packed(64)" })
}
pub struct FlexTy; impl FlexTy { pub fn to_rust_ty_or_opaque(&self, _: &BindgenContext, _: &()) -> syn::Type { syn::prim(1) } }
pub struct Item; impl Item { pub fn comment(&self, _: &BindgenContext) -> Option<String> { None } }
#[derive(Clone, Copy)] pub struct FieldL { pub layout: Option<Layout> }
impl FieldL { pub fn layout(&self, _: &BindgenContext) -> Option<Layout> { self.layout } }
pub struct FieldLs { pub a: [FieldL; 3], pub n: usize }
pub struct FIter<'a> { f: &'a FieldLs, i: usize }
impl<'a> Iterator for FIter<'a> { type Item = &'a FieldL; fn next(&mut self) -> Option<&'a FieldL> { if self.i >= 3 { return None; } let k = self.i; self.i += 1; if k < self.f.n { Some(&self.f.a[k]) } else { None } } }
impl<'a> IntoIterator for &'a FieldLs { type Item = &'a FieldL; type IntoIter = FIter<'a>; fn into_iter(self) -> FIter<'a> { FIter { f: self, i: 0 } } }
/// fixed-capacity Vec for the field / attribute token lists (push, insert(0, ..), extend)
pub const VC: usize = 12;
#[derive(Clone, Copy)] pub struct TVec { pub buf: [proc_macro2::TokenStream; VC], pub len: usize }
impl TVec {
    pub fn new() -> Self { TVec { buf: [proc_macro2::TokenStream::Other; VC], len: 0 } }
    pub fn push(&mut self, t: proc_macro2::TokenStream) { assert!(self.len < VC); self.buf[self.len] = t; self.len += 1; }
    pub fn insert(&mut self, at: usize, t: proc_macro2::TokenStream) { assert!(at == 0 && self.len < VC); let mut i = VC - 1; while i > 0 { self.buf[i] = self.buf[i - 1]; i -= 1; } self.buf[0] = t; self.len += 1; }
    pub fn is_empty(&self) -> bool { self.len == 0 }
}
pub struct Names; impl Names { pub fn is_empty(&self) -> bool { true } }
pub struct CompInfoD { pub bitfields: bool, pub fields: FieldLs }
impl CompInfoD {
    pub fn has_bitfields(&self) -> bool { self.bitfields }
    pub fn fields(&self) -> &FieldLs { &self.fields }
    pub fn flex_array_member(&self, _: &BindgenContext) -> Option<FlexTy> { None }
    /*ALREADY_PACKED*/
    /// the sliced region; everything it reads is a parameter, everything it produces is returned
    pub fn driver<'a>(&self, ctx: &'a BindgenContext, item: &Item, struct_layout: &mut StructLayoutTracker<'a>, mut fields: TVec, layout: Option<Layout>,
                      is_opaque: bool, is_union: bool, zero_sized: bool, forward_decl: bool, mut packed: bool, generic_param_names: Names) -> (TVec, TVec) {
        macro_rules! vec { () => { TVec::new() } }
        /*REGION*/
        (fields, attributes)
    }
}

#[cfg(kani)]
mod driver_proofs {
    use super::*;
    use super::struct_layout::*;
    use proc_macro2::TokenStream as T;
    fn up(x: usize, a: usize) -> usize { if a == 0 { x } else { (x + a - 1) / a * a } }
    fn mn(a: usize, b: usize) -> usize { if a < b { a } else { b } }
    fn mx(a: usize, b: usize) -> usize { if a > b { a } else { b } }
    /// Rust layout of the emitted item: fields in order under repr(C[, packed(n)])[, align(m)]; members carry their C type's (size, align)
    fn rust_layout<const K: usize>(fields: &TVec, attrs: &TVec, sz: &[usize; K], al: &[usize; K], roff: &mut [usize; K]) -> (usize, usize, usize, usize) {
        let mut n = 0usize; let mut explicit = 0usize; let mut i = 0;
        while i < VC { if i < attrs.len { match attrs.buf[i] { T::Repr(p) => n = p, T::ReprAlign(m) => explicit = m, _ => {} } } i += 1; }
        let mut cur = 0usize; let mut maxa = 1usize; let mut i = 0;
        while i < VC {
            if i < fields.len {
                let (s, a) = match fields.buf[i] { T::Field(t) => (t.size, t.align), T::Member(m) => (sz[m], al[m]), T::AlignField(a) => (0, a), _ => (0, 1) };
                let a = if n == 0 { a } else { mn(a, n) };
                let off = up(cur, a); cur = off + s; if a > maxa { maxa = a; }
                if let T::Member(m) = fields.buf[i] { roff[m] = off; }
            }
            i += 1;
        }
        if explicit > maxa { maxa = explicit; }
        (up(cur, maxa), maxa, n, explicit)
    }

    /// a struct of K members: C numbers as in the tracker harness, then the REAL driver region decides padding / repr attributes
    /// SA = alignment given to the whole struct by __attribute__((aligned(SA))) (0: none)
    fn struct_case<const K: usize, const P: usize, const EA: usize, const SA: usize>(al: [usize; K]) {
        let mut sz = [0usize; K]; let mut coff = [0usize; K];
        let mut cur = 0usize; let mut sa = 1usize; let mut i = 0;
        while i < K {
            let m: usize = kani::any(); kani::assume(m >= 1 && m <= 6);
            sz[i] = m * al[i];
            let mut ea = al[i]; if EA != 0 && i == K - 1 { ea = mx(ea, EA); } if P != 0 { ea = mn(ea, P); }
            coff[i] = up(cur, ea); cur = coff[i] + sz[i]; sa = mx(sa, ea); i += 1;
        }
        if SA != 0 { sa = mx(sa, SA); }
        let csize = up(cur, sa);
        let packed_attr: bool = if P == 1 { if SA != 0 { true } else { kani::any() } } else { false };   // with aligned(SA) only the attribute form keeps the members packed
        let ctx = BindgenContext { opts: Options { force_explicit_padding: kani::any(), enable_cxx_namespaces: kani::any(), flexarray_dst: false }, ptr_size: 8 };
        let comp = CompInfo { union_: false, rust_union: (false, false) };
        let layout = Layout::new(csize, sa);
        let ty = Type { layout: Some(layout), kind: TypeKind::Comp };
        // CompInfo::is_packed (checked on its own in kernel `tables`)
        let mut packed = packed_attr; let mut j = 0; while j < K { if al[j] > sa { packed = true; } j += 1; }
        let mut t = StructLayoutTracker::new(&ctx, &comp, &ty, "s", FieldVisibilityKind::Public, packed);
        let mut fields = TVec::new();
        let mut fl = FieldLs { a: [FieldL { layout: None }; 3], n: K };
        let mut j = 0;
        while j < K {
            if let Some(p) = t.saw_field_with_layout("m", Layout::new(sz[j], al[j]), Some(coff[j] * 8)) { fields.push(p); }
            fields.push(T::Member(j)); fl.a[j] = FieldL { layout: Some(Layout::new(sz[j], al[j])) };
            j += 1;
        }
        if let Some(p) = t.add_tail_padding("s", layout) { fields.push(p); }
        let d = CompInfoD { bitfields: false, fields: fl };
        let (fields, attrs) = d.driver(&ctx, &Item, &mut t, fields, Some(layout), false, false, false, false, packed, Names);
        let mut roff = [0usize; K];
        let (rsize, ralign, n, explicit) = rust_layout(&fields, &attrs, &sz, &al, &mut roff);
        let mut j = 0; while j < K { assert!(roff[j] == coff[j], "member offset differs between C and the emitted Rust struct"); j += 1; }
        assert!(rsize == csize, "struct size differs between C and the emitted Rust struct");
        assert!(ralign == sa, "struct alignment differs between C and the emitted Rust struct");
        assert!(!(n != 0 && explicit != 0), "repr(packed) and repr(align) emitted together (rustc E0587)");
        kani::cover!(rsize == csize, "end reached");
    }
    /// an opaque type: one blob of the C size and alignment, no packed attribute next to the alignment attribute
    fn opaque_case<const A: usize>() {
        let k: usize = kani::any(); kani::assume(k >= 1 && k <= 64);
        let layout = Layout::new(k * A, A);
        let ctx = BindgenContext { opts: Options { force_explicit_padding: kani::any(), enable_cxx_namespaces: kani::any(), flexarray_dst: false }, ptr_size: 8 };
        let comp = CompInfo { union_: kani::any(), rust_union: (false, false) };
        let ty = Type { layout: Some(layout), kind: TypeKind::Comp };
        let packed: bool = kani::any();          // the C definition may well be packed
        let mut t = StructLayoutTracker::new(&ctx, &comp, &ty, "s", FieldVisibilityKind::Public, packed);
        let natural: bool = kani::any();
        let d = CompInfoD { bitfields: kani::any(), fields: FieldLs { a: [FieldL { layout: Some(Layout::new(1, 1)) }, FieldL { layout: Some(Layout::new(4, if natural { 1 } else { 4 })) }, FieldL { layout: None }], n: 2 } };
        let (fields, attrs) = d.driver(&ctx, &Item, &mut t, TVec::new(), Some(layout), true, comp.union_, false, false, packed, Names);
        let (sz, al) = ([0usize; 1], [1usize; 1]); let mut roff = [0usize; 1];
        let (rsize, ralign, n, explicit) = rust_layout(&fields, &attrs, &sz, &al, &mut roff);
        assert!(rsize == layout.size, "opaque blob has another size than the C type");
        assert!(ralign == layout.align, "opaque blob has another alignment than the C type");
        assert!(!(n != 0 && explicit != 0), "repr(packed) and repr(align) emitted together (rustc E0587)");
        // exactly one blob; the only other thing allowed is the zero-sized `_bindgen_align` marker
        let mut blobs = 0; let mut i = 0; while i < VC { if i < fields.len { match fields.buf[i] { T::Field(_) => blobs += 1, T::AlignField(_) => {}, _ => assert!(false, "an opaque type exposes something besides its blob") } } i += 1; }
        assert!(blobs == 1, "an opaque type must consist of exactly one blob field");
    }
    /*GENERATED*/
}
