// C02: a pointer-typed member always occupies a pointer - real text of the Pointer / Reference arm of `impl TryToRustTy for Type`
// together with the real fallible / infallible conversion traits (TryToOpaque, ToOpaque, TryToRustTy, ToRustTyOrOpaque) of codegen/mod.rs.
#![allow(warnings)]
#[derive(Clone, Copy, PartialEq, Eq, Debug)] pub struct Layout { pub size: usize, pub align: usize }
impl Layout { pub fn for_size(_: &BindgenContext, size: usize) -> Layout { Layout { size, align: 1 } } }
pub mod error {
    #[derive(Debug)] pub enum Error { NoLayoutForOpaqueBlob, InstantiationOfOpaqueType, UnsupportedAbi(&'static str), InvalidPointerSize { ty_name: super::Str, ty_size: usize, ptr_size: usize } }
    pub type Result<T> = core::result::Result<T, Error>;
}
use error::Error;
#[derive(Debug, Clone, Copy)] pub struct Str; impl From<&str> for Str { fn from(_: &str) -> Str { Str } }
#[derive(Clone, Copy, PartialEq, Eq, Debug)] pub struct Ident;
pub mod syn {
    /// what a Rust type expression stands for, as far as its size goes
    #[derive(Clone, Copy, PartialEq, Eq, Debug)]
    pub enum Type { Opaque(super::Layout), FnPtr, ObjCObject, Named(super::Layout), RawPtr, NonNull }
    macro_rules! parse_quote_ { (:: # $p:ident :: ptr :: NonNull < # $t:ident >) => { crate::syn::Type::NonNull } }
    pub(crate) use parse_quote_ as parse_quote;
}
impl syn::Type {
    pub fn to_ptr(self, _is_const: bool) -> syn::Type { syn::Type::RawPtr }
    pub fn with_implicit_template_params(self, _: &BindgenContext, _: &Item) -> syn::Type { self }
    /// size of a value of this type on a target with `p`-byte pointers
    pub fn size(self, p: usize) -> usize { match self { syn::Type::Opaque(l) | syn::Type::Named(l) => l.size, _ => p } }
}
pub mod helpers { use super::*; pub fn blob(_: &BindgenContext, layout: Layout, _ffi_safe: bool) -> syn::Type { syn::Type::Opaque(layout) } }
pub struct Options { pub generate_cxx_nonnull_references: bool }
#[derive(Clone, Copy, PartialEq, Eq, Debug)] pub struct TypeId(pub usize);
#[derive(Clone, Copy)] pub enum TypeKind { Pointer(TypeId), Reference(TypeId), Function(()), ObjCInterface(()), Other }
#[derive(Clone, Copy)] pub struct Type { pub kind: TypeKind, pub layout: Option<Layout>, pub is_const: bool }
impl Type {
    pub fn kind(&self) -> &TypeKind { &self.kind } pub fn name(&self) -> Option<&str> { None } pub fn is_const(&self) -> bool { self.is_const }
    pub fn canonical_type<'a>(&'a self, _: &'a BindgenContext) -> &'a Type { self } pub fn is_function(&self) -> bool { matches!(self.kind, TypeKind::Function(..)) }
}
/// the pointee: its conversion to a Rust type succeeds or not (`convertible`), and its layout is known or not
pub struct Item { pub ty: Type, pub convertible: bool }
impl Item { pub fn expect_type(&self) -> &Type { &self.ty } }
pub struct Resolver<'a>(&'a Item);
impl<'a> Resolver<'a> { pub fn through_type_refs(self) -> Self { self } pub fn resolve(self, _: &BindgenContext) -> &'a Item { self.0 } }
pub struct BindgenContext { pub o: Options, pub ptr_size: usize, pub pointee: Item }
impl BindgenContext {
    pub fn options(&self) -> &Options { &self.o } pub fn target_pointer_size(&self) -> usize { self.ptr_size } pub fn trait_prefix(&self) -> Ident { Ident }
    pub fn resolve_type(&self, _: TypeId) -> &Type { &self.pointee.ty }
}
// inside the sliced arm `inner` is first a TypeId, then (shadowed) the resolved &Item
pub struct IdRes(pub TypeId);
impl TypeId { pub fn into_resolver(self) -> IdRes { IdRes(self) } }
impl IdRes { pub fn through_type_refs(self) -> Self { self } pub fn resolve(self, ctx: &BindgenContext) -> &Item { &ctx.pointee } }

/*TRAITS*/

// the pointee's own conversions (environment): a function type converts to `Option<unsafe extern fn ..>` unless its ABI is unsupported,
// an Objective-C interface to its wrapper struct, anything else to a named type of its layout; the opaque fallback uses the pointee's layout
impl TryToOpaque for Item { type Extra = (); fn try_get_layout(&self, _: &BindgenContext, _: &()) -> error::Result<Layout> { self.ty.layout.ok_or(Error::NoLayoutForOpaqueBlob) } }
impl TryToRustTy for Item { type Extra = (); fn try_to_rust_ty(&self, _: &BindgenContext, _: &()) -> error::Result<syn::Type> {
    if !self.convertible { return Err(Error::UnsupportedAbi("x")); }
    Ok(match self.ty.kind { TypeKind::Function(..) => syn::Type::FnPtr, TypeKind::ObjCInterface(..) => syn::Type::ObjCObject, _ => syn::Type::Named(self.ty.layout.unwrap_or(Layout { size: 1, align: 1 })) }) } }
// the pointer type itself
impl TryToOpaque for Type { type Extra = Item; fn try_get_layout(&self, _: &BindgenContext, _: &Item) -> error::Result<Layout> { self.layout.ok_or(Error::NoLayoutForOpaqueBlob) } }
impl Type {
    /// the `TypeKind::Pointer(inner) | TypeKind::Reference(inner)` arm of `impl TryToRustTy for Type`
    pub fn pointer_arm(&self, ctx: &BindgenContext, item: &Item, inner: TypeId) -> error::Result<syn::Type> {
/*POINTER_ARM*/
    }
}

#[cfg(kani)]
mod proofs {
    use super::*;
    fn any_layout() -> Option<Layout> { if kani::any() { let s: usize = kani::any(); let a: usize = kani::any(); kani::assume(s <= 64 && a <= 16); Some(Layout { size: s, align: a }) } else { None } }
    #[kani::proof]
    fn a_pointer_typed_value_always_occupies_a_pointer() {
        let p: usize = if kani::any() { 4 } else { 8 };
        let pk: u8 = kani::any(); kani::assume(pk < 3);
        let pointee_kind = match pk { 0 => TypeKind::Function(()), 1 => TypeKind::ObjCInterface(()), _ => TypeKind::Other };
        let convertible: bool = kani::any();
        kani::assume(convertible || pk != 1);   // an Objective-C interface always converts (it is named by its identifier)
        let pointee = Item { ty: Type { kind: pointee_kind, layout: any_layout(), is_const: kani::any() }, convertible };
        let ctx = BindgenContext { o: Options { generate_cxx_nonnull_references: kani::any() }, ptr_size: p, pointee };
        let this = Type { kind: if kani::any() { TypeKind::Pointer(TypeId(1)) } else { TypeKind::Reference(TypeId(1)) }, layout: any_layout(), is_const: false };
        let this_item = Item { ty: this, convertible: true };
        let r = this.pointer_arm(&ctx, &this_item, TypeId(1));
        match r {
            Ok(t) => assert!(t.size(p) == p, "a pointer / reference is emitted as a type that is not pointer sized (the member and everything after it are misplaced)"),
            Err(_) => {}   // the caller falls back to an opaque blob of the pointer type's own layout
        }
        kani::cover!(matches!(r, Ok(syn::Type::FnPtr)), "function pointer emitted");
        kani::cover!(matches!(r, Err(Error::InvalidPointerSize { .. })), "pointer of another size rejected");
        kani::cover!(matches!(r, Ok(syn::Type::RawPtr)) && !convertible, "raw pointer to an opaque stand-in");
    }
}
