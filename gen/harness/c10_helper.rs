// C10: a helper type the user blocklisted (by --blocklist-type OR --blocklist-item) is never defined: real utils::prepend_bitfield_unit_type.
#![allow(warnings)]
use std::borrow::Cow;
use std::mem;
pub const BITFIELD_UNIT: &str = "__BindgenBitfieldUnit";
macro_rules! quote { (# $x:ident) => { $x } }
pub mod proc_macro2 { #[derive(Clone, Copy, Debug, PartialEq)] pub enum TokenStream { Helper, Item(u8) } impl TokenStream { pub fn from_str(_: &str) -> Result<TokenStream, ()> { Ok(TokenStream::Helper) } } }
pub struct RegexSet { pub m: bool } impl RegexSet { pub fn matches(&self, _: &str) -> bool { self.m } }
pub struct Options { pub blocklisted_items: RegexSet, pub blocklisted_types: RegexSet }
pub struct BindgenContext { pub o: Options } impl BindgenContext { pub fn options(&self) -> &Options { &self.o } }
/*PREPEND*/
#[cfg(kani)]
mod proofs {
    use super::*;
    use proc_macro2::TokenStream as T;
    #[kani::proof] #[kani::unwind(6)]
    fn blocklisted_helper_type_is_not_defined() {
        let ctx = BindgenContext { o: Options { blocklisted_items: RegexSet { m: kani::any() }, blocklisted_types: RegexSet { m: kani::any() } } };
        let mut result: Vec<T> = Vec::new(); result.push(T::Item(1)); result.push(T::Item(2));
        prepend_bitfield_unit_type(&ctx, &mut result);
        if ctx.o.blocklisted_items.m || ctx.o.blocklisted_types.m {
            assert!(result.len() == 2 && result[0] == T::Item(1) && result[1] == T::Item(2), "a blocklisted helper type is still defined");
        } else {
            assert!(result.len() == 3 && result[0] == T::Helper && result[1] == T::Item(1) && result[2] == T::Item(2), "helper type not prepended exactly once");
        }
        core::mem::forget(result);
    }
}
