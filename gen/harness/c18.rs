#[cfg(kani)]
mod proofs {
    use super::*;
    pub const N: usize = /*N*/;          // max sequence length explored
    // item ids: non-foreign item at input position p has id p+1; a foreign item j of the block at position p has id 16*(p+1)+j
    fn any_item(p: u8) -> Item {
        let t: u8 = kani::any();
        let id = p + 1;
        match t {
            0 => Item::Type(id), 1 => Item::Struct(id), 2 => Item::Const(id), 3 => Item::Fn(id), 4 => Item::Static(id),
            5 => Item::Impl(id), 6 => Item::Use(id), 7 => Item::Mod(id), 8 => Item::Enum(id), 9 => Item::Union(id), 10 => Item::Macro(id), 11 => Item::Verbatim(id),
            _ => {
                kani::assume(t == 12);
                let mut fi = Vec::new();
                fi.push(ForeignItem(16 * id));
                if p == 0 && kani::any() { fi.push(ForeignItem(16 * id + 1)); }
                // all extern blocks of one bindgen run carry the same `unsafety` (both emitters read one option flag)
                Item::ForeignMod(ItemForeignMod { attrs: kani::any::<u8>() & 1, abi: kani::any::<u8>() & 1, brace_token: Tok, unsafety: false, items: fi })
            }
        }
    }
    fn input() -> (Vec<Item>, usize) {
        let n: usize = kani::any(); kani::assume(n <= N);
        let mut v: Vec<Item> = Vec::new();
        let mut i = 0u8; while (i as usize) < N { if (i as usize) < n { v.push(any_item(i)); } i += 1; }
        (v, n)
    }
    fn is_foreign(i: &Item) -> bool { matches!(i, Item::ForeignMod(_)) }
    fn kind(i: &Item) -> u8 { match i { Item::Type(_) => 0, Item::Struct(_) => 1, Item::Const(_) => 2, Item::Fn(_) => 3, Item::Enum(_) => 4, Item::Union(_) => 5, Item::Static(_) => 6,
        Item::Trait(_) => 7, Item::TraitAlias(_) => 8, Item::Impl(_) => 9, Item::Mod(_) => 10, Item::Use(_) => 11, Item::Verbatim(_) => 12, Item::ExternCrate(_) => 13, Item::ForeignMod(_) => 14, Item::Macro(_) => 15, Item::Other(_) => 16 } }

    /// every non-foreign item of `orig` occurs in `out` exactly once and unchanged; every foreign item occurs exactly once,
    /// inside a block with its original (attrs, abi, unsafety); nothing else is in `out`
    fn multiset_preserved(orig: &Vec<Item>, out: &Vec<Item>) {
        let mut p = 0usize;
        while p < N {
            if p < orig.len {
                match orig.buf[p] {
                    Item::ForeignMod(o) => {
                        let mut j = 0usize;
                        while j < 2 { if j < o.items.len {
                            let fid = o.items.buf[j].0; let mut cnt = 0u8;
                            let mut k = 0usize; while k < CAP { if k < out.len { if let Item::ForeignMod(m) = out.buf[k] {
                                let mut q = 0usize; while q < CAP { if q < m.items.len && m.items.buf[q].0 == fid {
                                    cnt += 1;
                                    assert!(m.attrs == o.attrs && m.abi == o.abi && m.unsafety == o.unsafety, "foreign item moved into a block with different attributes, ABI or unsafety");
                                } q += 1; }
                            } } k += 1; }
                            assert!(cnt == 1, "foreign item lost or duplicated");
                        } j += 1; }
                    }
                    it => {
                        let mut cnt = 0u8; let mut k = 0usize;
                        while k < CAP { if k < out.len && out.buf[k] == it { cnt += 1; } k += 1; }
                        assert!(cnt == 1, "non-foreign item lost, duplicated or altered");
                    }
                }
            }
            p += 1;
        }
        // nothing invented: total number of non-foreign items and of foreign items is unchanged
        let (mut a, mut b, mut fa, mut fb) = (0usize, 0usize, 0usize, 0usize);
        let mut k = 0usize;
        while k < CAP {
            if k < orig.len { match orig.buf[k] { Item::ForeignMod(m) => fa += m.items.len, _ => a += 1 } }
            if k < out.len { match out.buf[k] { Item::ForeignMod(m) => { fb += m.items.len; assert!(m.items.len > 0, "empty extern block invented"); } _ => b += 1 } }
            k += 1;
        }
        assert!(a == b && fa == fb, "item count changed");
    }
    /// items of the same kind keep their relative order (ids grow with input position); foreign items keep theirs inside each block
    fn same_kind_order_preserved(out: &Vec<Item>) {
        let mut x = 0usize;
        while x < CAP { let mut y = x + 1; while y < CAP { if y < out.len {
            let (a, b) = (out.buf[x], out.buf[y]);
            if kind(&a) == kind(&b) && !is_foreign(&a) { assert!(idof(&a) < idof(&b), "relative order of two items of the same kind changed"); }
            // extern blocks are items of one kind too: they stay in the order in which their first foreign item appeared
            if let (Item::ForeignMod(ma), Item::ForeignMod(mb)) = (a, b) { if ma.items.len > 0 && mb.items.len > 0 { assert!(ma.items.buf[0].0 < mb.items.buf[0].0, "relative order of two extern blocks changed"); } }
        } y += 1; } x += 1; }
        let mut k = 0usize;
        while k < CAP { if k < out.len { if let Item::ForeignMod(m) = out.buf[k] {
            let mut q = 0usize; while q + 1 < CAP { if q + 1 < m.items.len { assert!(m.items.buf[q].0 < m.items.buf[q + 1].0, "order of foreign items inside a block changed"); } q += 1; }
        } } k += 1; }
    }
    fn idof(i: &Item) -> u8 { match i { Item::Type(x) | Item::Struct(x) | Item::Const(x) | Item::Fn(x) | Item::Enum(x) | Item::Union(x) | Item::Static(x) | Item::Trait(x) | Item::TraitAlias(x)
        | Item::Impl(x) | Item::Mod(x) | Item::Use(x) | Item::Verbatim(x) | Item::ExternCrate(x) | Item::Macro(x) | Item::Other(x) => *x, Item::ForeignMod(_) => 0 } }
    // the whole fixed-size buffer is sorted (a slice of symbolic length makes the real driftsort intractable); the padding
    // beyond `len` is Item::Other(0), which every rank table in sight sends to the end; checked right after
    fn sort_vec(v: &mut Vec<Item>) {
        sort::run(&mut v.buf);
        let mut k = 0usize; while k < CAP { if k >= v.len { kani::assume(v.buf[k] == Item::Other(0)); } k += 1; }
    }

    #[kani::proof] #[kani::unwind(/*UNW*/)]
    fn merge_only_regroups() {
        let (mut v, n) = input(); let orig = v;
        merge::run(&mut v);
        multiset_preserved(&orig, &v);
        same_kind_order_preserved(&v);
        // the non-foreign subsequence is untouched
        let mut a = 0usize; let mut k = 0usize;
        while k < CAP { if k < orig.len && !is_foreign(&orig.buf[k]) { assert!(a < v.len && v.buf[a] == orig.buf[k], "merge reordered non-foreign items"); a += 1; } k += 1; }
        let once = v; merge::run(&mut v); assert!(v == once, "merge is not idempotent");
        kani::cover!(n >= 3 && once.len < n, "at least one merge happened among >=3 items");
        kani::cover!(n >= 3 && once.len == n && is_foreign(&orig.buf[0]) && is_foreign(&orig.buf[1]) && is_foreign(&orig.buf[2]), "three blocks, none mergeable");
    }
    #[kani::proof] #[kani::unwind(/*UNW*/)]
    fn sort_only_reorders_kinds() {
        let (mut v, n) = input(); let orig = v;
        sort_vec(&mut v);
        assert!(v.len == orig.len);
        multiset_preserved(&orig, &v);
        // stable: same-kind items (including extern blocks, compared by their first foreign item) keep their order
        let mut x = 0usize;
        while x < CAP { let mut y = x + 1; while y < CAP { if y < v.len {
            let (a, b) = (v.buf[x], v.buf[y]);
            if kind(&a) == kind(&b) { let (ia, ib) = (first_id(&a), first_id(&b)); assert!(ia < ib, "relative order of two items of the same kind changed"); }
        } y += 1; } x += 1; }
        let once = v; sort_vec(&mut v); assert!(v == once, "sort is not idempotent");
        kani::cover!(n >= 3 && once != orig, "sort moved something");
    }
    fn first_id(i: &Item) -> u8 { match i { Item::ForeignMod(m) => m.items.buf[0].0, o => idof(o) * 16 } }
    #[kani::proof] #[kani::unwind(/*UNW*/)]
    fn merge_then_sort_only_regroups() {
        let (mut v, n) = input(); let orig = v;
        merge::run(&mut v); sort_vec(&mut v);
        multiset_preserved(&orig, &v);
        same_kind_order_preserved(&v);
        let once = v; merge::run(&mut v); sort_vec(&mut v); assert!(v == once, "merge+sort is not idempotent");
    }
}
