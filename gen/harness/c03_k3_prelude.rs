pub fn ref_get(st: &[u8], off: usize, width: u8) -> u64 {
    let mut v = 0u64;
    let mut i = 0usize;
    while i < width as usize {
        let b = off + i;
        if (st[b / 8] >> (b % 8)) & 1 == 1 { v |= 1u64 << i; }
        i += 1;
    }
    v
}
pub fn bit(st: &[u8], k: usize) -> bool { (st[k / 8] >> (k % 8)) & 1 == 1 }
pub fn mask(width: u8) -> u64 { if width >= 64 { !0u64 } else { (1u64 << width) - 1 } }
