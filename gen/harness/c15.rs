#[cfg(kani)]
mod proofs {
    use super::*;
    // an `expect`/`unwrap` on Err would format the error with {:?}; that formatting, not the panic, is what CBMC cannot digest (24 GB, no result)
    pub fn unwrap_failed_stub(_msg: &str, _e: &dyn core::fmt::Debug) -> ! { panic!("called `Result::unwrap()`/`expect()` on an `Err` value") }
    /// `simple`: no header, no raw lines, writer never fails (the child-process faults are the subject);
    /// otherwise header flag, 0..2 raw lines and the writer's failure point are symbolic (the framing is the subject)
    fn run(formatter: Formatter, simple: bool) {
        let out: [u8; 4] = kani::any();
        let out_len: usize = kani::any(); kani::assume(out_len <= 2);
        // output bytes: ASCII, or 0xFF (never valid in UTF-8) for the "invalid UTF-8 with exit 0" fault
        kani::assume((out[0] < 0x80 || out[0] == 0xFF) && (out[1] < 0x80 || out[1] == 0xFF));
        let sc = Script { streams: kani::any(), big: kani::any(), stdin_ok: kani::any(), spawn_ok: kani::any(), out, out_len, read_err_at: kani::any(), wait_ok: kani::any(), raw_status: kani::any() };
        set_script(sc);
        let nlines: usize = if simple { 0 } else { let n: usize = kani::any(); kani::assume(n <= 2); n };
        let header_off: bool = if simple { true } else { kani::any() };
        let b = Bindings { options: BindgenOptions { disable_header_comment: header_off, raw_lines: Lines { a: ["r", "s"], n: nlines }, formatter, time_phases: false, rustfmt_path: None,
                                                     rustfmt_configuration_file: None, rust_edition: None, rust_target: RustTarget }, module: proc_macro2::TokenStream };
        let fail_at: usize = if simple { 16 } else { kani::any() };
        let mut sink = io::Sink { buf: [0; 16], len: 0, fail_at };
        let r = b.write(&mut sink);
        // ---- expected bytes: header (iff enabled) | raw lines once, in order | blank line iff any | body ----
        let mut exp = [0u8; 16]; let mut n = 0usize;
        if !header_off { exp[n] = b'H'; n += 1; }
        if nlines >= 1 { exp[n] = b'r'; exp[n + 1] = b'\n'; n += 2; }
        if nlines >= 2 { exp[n] = b's'; exp[n + 1] = b'\n'; n += 2; }
        if nlines >= 1 { exp[n] = b'\n'; n += 1; }
        // body: the formatter's output iff it was started, its output was read completely, it was waited for, the output is UTF-8 and it exited 0 or 3
        let exited = sc.raw_status & 0x7f == 0;
        let code = (sc.raw_status >> 8) & 0xff;
        let utf8 = (out_len < 1 || out[0] < 0x80) && (out_len < 2 || out[1] < 0x80);
        let read_ok = sc.read_err_at > out_len;
        let formatted = sc.spawn_ok && read_ok && sc.wait_ok && utf8 && exited && (code == 0 || code == 3);
        match formatter {
            Formatter::None => { exp[n] = b'M'; n += 1; }
            Formatter::Prettyplease => { exp[n] = b'P'; n += 1; }
            Formatter::Rustfmt => {
                if formatted { let mut i = 0; while i < 2 { if i < out_len { exp[n] = out[i]; n += 1; } i += 1; } }
                else { exp[n] = b'M'; n += 1; }
            }
        }
        // ---- the only fatal condition is a failing WRITER ----
        if fail_at >= n {
            assert!(r.is_ok(), "write() failed although the writer accepted everything: formatter failure must not be fatal");
            assert!(sink.len == n, "bindings text has the wrong length (header / raw lines / body)");
            let mut i = 0; while i < 16 { if i < n { assert!(sink.buf[i] == exp[i], "bindings text differs from header | raw lines | blank | body"); } i += 1; }
        } else {
            assert!(r.is_err(), "a failing writer must be reported");
        }
        kani::cover!(formatted && fail_at >= n, "formatter output used");
        kani::cover!(sc.spawn_ok && read_ok && sc.wait_ok && !utf8 && fail_at >= n, "formatter wrote invalid UTF-8");
        kani::cover!(sc.spawn_ok && sc.wait_ok && !exited && fail_at >= n, "formatter killed by a signal");
        kani::cover!(!sc.spawn_ok && fail_at >= n, "formatter could not be started");
        kani::cover!(!sc.stdin_ok && fail_at >= n, "formatter closed its stdin early");
    }
    /// the child-process protocol (shape of the measured design probe: Vec sink, no header, no raw lines)
    fn faults(stdin_ok: bool) {
        let out: [u8; 4] = kani::any();
        let out_len: usize = kani::any(); kani::assume(out_len <= 2);
        let sc = Script { streams: kani::any(), big: kani::any(), stdin_ok, spawn_ok: kani::any(), out, out_len, read_err_at: kani::any(), wait_ok: kani::any(), raw_status: kani::any() };
        set_script(sc);
        let b = Bindings { options: BindgenOptions { disable_header_comment: true, raw_lines: Lines { a: ["r", "s"], n: 0 }, formatter: Formatter::Rustfmt, time_phases: false, rustfmt_path: None,
                                                     rustfmt_configuration_file: None, rust_edition: None, rust_target: RustTarget }, module: proc_macro2::TokenStream };
        let mut sink: std::vec::Vec<u8> = std::vec::Vec::new();
        let r = b.write(&mut sink);
        assert!(r.is_ok(), "write() failed although the writer accepted everything: formatter failure must not be fatal");
        let exited = sc.raw_status & 0x7f == 0;
        let code = (sc.raw_status >> 8) & 0xff;
        let ascii = (out_len < 1 || out[0] < 0x80) && (out_len < 2 || out[1] < 0x80);
        let read_ok = sc.read_err_at > out_len || sc.read_err_at >= 5;
        let formatted = sc.spawn_ok && read_ok && sc.wait_ok && ascii && exited && (code == 0 || code == 3);
        if formatted { assert!(sink.len() == out_len, "formatter output not used as the body"); if out_len > 0 { assert!(sink[0] == out[0]); } if out_len > 1 { assert!(sink[1] == out[1]); } }
        // every signalled failure yields exactly the unformatted tokens
        if !sc.spawn_ok || !sc.wait_ok || !read_ok || (ascii && !(exited && (code == 0 || code == 3))) { assert!(sink.len() == 1 && sink[0] == b'M', "formatter failure did not fall back to the unformatted tokens"); }
        kani::cover!(formatted, "formatter output used");
        kani::cover!(sc.spawn_ok && sc.wait_ok && read_ok && !exited, "formatter killed by a signal");
        kani::cover!(!sc.spawn_ok, "formatter could not be started");
        core::mem::forget(sink);
    }
    #[kani::proof] #[kani::unwind(8)] #[kani::stub(core::result::unwrap_failed, unwrap_failed_stub)] fn rustfmt_faults_are_not_fatal() { faults(true) }
    #[kani::proof] #[kani::unwind(8)] #[kani::stub(core::result::unwrap_failed, unwrap_failed_stub)] fn rustfmt_closing_stdin_early_is_not_fatal() { faults(false) }
    #[kani::proof] #[kani::unwind(20)] fn formatter_none_writes_tokens() { run(Formatter::None, false) }
    #[kani::proof] #[kani::unwind(20)] fn formatter_prettyplease_writes_unparsed() { run(Formatter::Prettyplease, false) }
}
