// C05 kernels: integer-kind selection for macro constants, literal choice in Var::codegen,
// char-literal conversion in Var::parse, enum repr translation — real text, stub options.
#![allow(warnings)]
macro_rules! warn { ($($t:tt)*) => {} }
pub mod int { /*INT_RS*/ }
use int::IntKind;
/*MACRO_TYPE_VARIATION*/
pub struct Options { pub default_macro_constant_type: MacroTypeVariation, pub fit_macro_constants: bool }
pub struct BindgenContext { pub o: Options }
impl BindgenContext { pub fn options(&self) -> &Options { &self.o } }
/*DEFAULT_MACRO_CONSTANT_TYPE*/

#[derive(Debug, Clone, Copy, PartialEq, Eq)] pub enum Lit { I(i64), U(u64) }
pub mod helpers { pub mod ast_ty { use crate::Lit; pub fn int_expr(v: i64) -> Lit { Lit::I(v) } pub fn uint_expr(v: u64) -> Lit { Lit::U(v) } } }
/// `Var::codegen`, VarType::Int arm: the literal chosen for value `val` of integer kind `int_kind`
pub fn literal_for(int_kind: IntKind, val: i64) -> Lit {
    /*LITERAL_STMT*/
    val
}
pub enum CChar { Char(char), Raw(u64) }
/// `Var::parse`, EvalResult::Char arm
#[derive(Debug, PartialEq)] pub enum ParseError { Recurse, Continue }
pub fn char_value(c: CChar) -> Result<u8, ParseError> {
    /*CHAR_STMT*/
    Ok(c)
}
/// `Enum::codegen`: repr translation
pub fn translate(signed: bool, size: usize) -> IntKind {
    /*TRANSLATE_STMT*/
    translated
}

// libclang's CXEvalResult as a nondeterministic environment stub obeying its documented contract:
// getAsInt truncates to int, getAsLongLong / getAsUnsigned return the full 64-bit value.
pub mod clang_eval {
    #![allow(non_upper_case_globals, non_camel_case_types)]
    pub type c_int = i32; pub type c_longlong = i64; pub type c_ulonglong = u64; pub type c_uint = u32;
    #[derive(Clone, Copy)] pub struct Handle { pub bits: u64, pub unsigned: bool, pub kind: u32 }
    pub const CXEval_Int: u32 = 1;
    pub unsafe fn clang_EvalResult_isUnsignedInt(x: Handle) -> c_uint { x.unsigned as c_uint }
    pub unsafe fn clang_EvalResult_getAsUnsigned(x: Handle) -> c_ulonglong { x.bits }
    pub unsafe fn clang_EvalResult_getAsLongLong(x: Handle) -> c_longlong { x.bits as i64 }
    pub unsafe fn clang_EvalResult_getAsInt(x: Handle) -> c_int { x.bits as i64 as c_int }
    pub struct EvalResult { pub x: Handle }
    impl EvalResult {
        pub fn kind(&self) -> u32 { self.x.kind }
        /*AS_INT*/
    }
}


// ---- where the value of a const integer variable comes from: the `let mut val = ..` statement of Var::parse (VarDecl branch) and the real
// ---- get_integer_literal_from_cursor. Environment contract: clang's evaluation of the initializer (cursor.evaluate()) IS the C value when
// ---- available; the value read from the initializer's TOKENS (cexpr: untyped wrapping i64) is some i64 with no such guarantee. ---------------
pub mod var_value {
    #![allow(non_upper_case_globals)]
    use super::clang_eval::{EvalResult, Handle};
    pub mod clang_sys { pub const CXCursor_IntegerLiteral: u32 = 106; pub const CXCursor_UnaryOperator: u32 = 112; pub const CXCursor_UnexposedExpr: u32 = 100; pub const CXChildVisit_Break: u32 = 0; pub const CXChildVisit_Continue: u32 = 1; }
    /// an expression node with at most one child (initializer, then what an implicit cast wraps)
    #[derive(Clone, Copy)] pub struct Node { pub kind: u32, pub tok: Option<i64> }
    #[derive(Clone, Copy)] pub struct Cursor { pub nodes: [Node; 2], pub n: usize, pub level: usize, pub eval: Option<Handle> }
    pub mod clang { pub use super::Cursor; }
    impl Cursor {
        pub fn kind(&self) -> u32 { self.nodes[self.level - 1].kind }
        pub fn visit<F: FnMut(Cursor) -> u32>(&self, mut f: F) { if self.level < self.n { let _ = f(Cursor { level: self.level + 1, ..*self }); } }
        pub fn evaluate(&self) -> Option<EvalResult> { self.eval.map(|x| EvalResult { x }) }
    }
    fn parse_int_literal_tokens(c: &Cursor) -> Option<i64> { c.nodes[c.level - 1].tok }
/*GET_LITERAL_FN*/
    /// the `let mut val = ..` statement (up to `val.map(..)`) of the integer arm of Var::parse
    pub fn const_int_value(cursor: Cursor) -> Option<i64> {
/*VALUE_STMT*/
        val
    }
}
#[cfg(kani)]
mod proofs {
    #[kani::proof]
    fn const_variable_value_from_libclang_not_truncated() {
        use clang_eval::*;
        let h = Handle { bits: kani::any(), unsigned: kani::any(), kind: kani::any() };
        let r = EvalResult { x: h }.as_int();
        if h.kind != CXEval_Int { assert!(r.is_none()); }
        else { assert!(r == Some(h.bits as i64), "64-bit constant from libclang truncated or altered"); }
    }
    #[kani::proof] #[kani::unwind(4)]
    fn const_variable_takes_the_value_clang_computed() {
        use clang_eval::*; use var_value::*;
        let node = |_: u8| Node { kind: kani::any(), tok: if kani::any() { Some(kani::any()) } else { None } };
        let n: usize = kani::any(); kani::assume(n <= 2);
        let eval = if kani::any() { Some(Handle { bits: kani::any(), unsigned: kani::any(), kind: kani::any() }) } else { None };
        let cursor = Cursor { nodes: [node(0), node(1)], n, level: 0, eval };
        let got = const_int_value(cursor);
        // what the C compiler computed for the initializer, when libclang can evaluate it
        let c_value = match eval { Some(h) if h.kind == CXEval_Int => Some(h.bits as i64), _ => None };
        if let Some(v) = c_value { assert!(got == Some(v), "a const variable whose initializer clang evaluated is given another value (read from the tokens)"); }
        kani::cover!(c_value.is_none() && got.is_some(), "value taken from the tokens when clang cannot evaluate");
        kani::cover!(c_value.is_some() && n == 2 && cursor.nodes[0].tok.is_some(), "clang value and a token value both available");
    }
    use super::*;
    fn bits(k: IntKind) -> u32 { (k.known_size().unwrap() * 8) as u32 }
    fn holds(k: IntKind, v: i64) -> bool {
        let b = bits(k);
        if k.is_signed() { b == 64 || (v >= -(1i64 << (b - 1)) && v < (1i64 << (b - 1))) }
        else { v >= 0 && (b == 64 || v < (1i64 << b)) }
    }
    fn any_opts() -> BindgenContext {
        BindgenContext { o: Options { default_macro_constant_type: if kani::any() { MacroTypeVariation::Signed } else { MacroTypeVariation::Unsigned }, fit_macro_constants: kani::any() } }
    }
    #[kani::proof]
    fn macro_constant_kind_holds_value_and_is_narrowest() {
        let v: i64 = kani::any();
        let ctx = any_opts();
        let k = default_macro_constant_type(&ctx, v);
        assert!(matches!(k, IntKind::I8 | IntKind::I16 | IntKind::I32 | IntKind::I64 | IntKind::U8 | IntKind::U16 | IntKind::U32 | IntKind::U64));
        assert!(holds(k, v), "chosen integer kind cannot hold the macro value");
        let want_signed = v < 0 || ctx.o.default_macro_constant_type == MacroTypeVariation::Signed;
        assert!(k.is_signed() == want_signed, "signedness differs from: negative value or signed requested");
        // narrowest kind the options allow: 32 bits unless fit_macro_constants, 64 only when 32 cannot hold it
        let b = bits(k);
        let min_bits = if ctx.o.fit_macro_constants { 8 } else { 32 };
        assert!(b >= min_bits);
        if b > min_bits {
            let narrower = match (k.is_signed(), b / 2) { (true, 8) => IntKind::I8, (true, 16) => IntKind::I16, (true, 32) => IntKind::I32, (false, 8) => IntKind::U8, (false, 16) => IntKind::U16, _ => IntKind::U32 };
            assert!(!holds(narrower, v), "a narrower kind allowed by the options would have held the value");
        }
        kani::cover!(b == 8 && k.is_signed() && v > 100, "i8 upper range");
        kani::cover!(b == 64 && !k.is_signed(), "u64");
    }
    #[kani::proof]
    fn macro_constant_literal_denotes_the_value() {
        let v: i64 = kani::any();
        let ctx = any_opts();
        let k = default_macro_constant_type(&ctx, v);
        match literal_for(k, v) {
            Lit::I(x) => { assert!(k.is_signed() && x == v, "signed literal differs from the value"); }
            Lit::U(x) => { assert!(!k.is_signed() && v >= 0 && x == v as u64, "unsigned literal differs from the value"); }
        }
    }
    #[kani::proof]
    fn literal_for_every_kind() {
        // any integer kind with a known size (const variables, enumerators), any value it can hold
        let v: i64 = kani::any();
        let ks = [IntKind::Bool, IntKind::SChar, IntKind::UChar, IntKind::Char { is_signed: true }, IntKind::Char { is_signed: false }, IntKind::I8, IntKind::U8,
                  IntKind::I16, IntKind::U16, IntKind::Char16, IntKind::I32, IntKind::U32, IntKind::I64, IntKind::U64];
        let i: usize = kani::any(); kani::assume(i < ks.len());
        let k = ks[i];
        // unsigned 64-bit values arrive as the i64 with the same bits
        let fits = if !k.is_signed() && bits(k) == 64 { true } else { holds(k, v) };
        kani::assume(fits);
        match literal_for(k, v) {
            Lit::I(x) => assert!(k.is_signed() && x == v),
            Lit::U(x) => assert!(!k.is_signed() && x == v as u64, "unsigned literal must carry the same bits"),
        }
    }
    #[kani::proof]
    fn char_macro_value_preserved() {
        // cexpr hands back ANY character constant: wide, UTF-16/32 and multi-character ones included (L'\x1234' is Raw(0x1234), U'\U0001F600' a 4-byte char)
        let (r, value) = if kani::any() { let raw: u64 = kani::any(); (char_value(CChar::Raw(raw)), raw) } else { let c: char = kani::any(); (char_value(CChar::Char(c)), c as u64) };
        match r {
            Ok(v) => assert!(v as u64 == value, "value of a character-literal macro altered"),
            Err(_) => assert!(value > 127, "a character-literal macro that fits the emitted u8 is withheld"),   // omitted rather than emitted with a different value
        }
        kani::cover!(r.is_err(), "character constant that does not fit is skipped");
    }
    #[kani::proof]
    fn enum_repr_translation_keeps_width_and_sign() {
        let signed: bool = kani::any(); let size: usize = kani::any();
        let k = translate(signed, size);
        if size == 1 || size == 2 || size == 4 || size == 8 {
            assert!(k.is_signed() == signed, "enum repr signedness changed");
            assert!(k.known_size() == Some(size), "enum repr width changed");
        } else {
            assert!(k == IntKind::I32, "documented default for unknown sizes");
        }
    }
}
