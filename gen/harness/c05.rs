// C05 kernels: integer-kind selection for macro constants, literal choice in Var::codegen,
// char-literal conversion in Var::parse, enum repr translation — real text, stub options.
#![allow(warnings)]
macro_rules! warn { ($($t:tt)*) => {} }
pub mod int { /*INT_RS*/ }
use int::IntKind;
/*MACRO_TYPE_VARIATION*/
pub struct Options { pub default_macro_constant_type: MacroTypeVariation, pub fit_macro_constants: bool }
pub struct BindgenContext { pub o: Options }
impl BindgenContext { pub fn options(&self) -> &Options { &self.o } }
/*DEFAULT_MACRO_CONSTANT_TYPE*/

#[derive(Debug, Clone, Copy, PartialEq, Eq)] pub enum Lit { I(i64), U(u64) }
pub mod helpers { pub mod ast_ty { use crate::Lit; pub fn int_expr(v: i64) -> Lit { Lit::I(v) } pub fn uint_expr(v: u64) -> Lit { Lit::U(v) } } }
/// `Var::codegen`, VarType::Int arm: the literal chosen for value `val` of integer kind `int_kind`
pub fn literal_for(int_kind: IntKind, val: i64) -> Lit {
    /*LITERAL_STMT*/
    val
}
pub enum CChar { Char(char), Raw(u64) }
/// `Var::parse`, EvalResult::Char arm
pub fn char_value(c: CChar) -> u8 {
    /*CHAR_STMT*/
    c
}
/// `Enum::codegen`: repr translation
pub fn translate(signed: bool, size: usize) -> IntKind {
    /*TRANSLATE_STMT*/
    translated
}

// libclang's CXEvalResult as a nondeterministic environment stub obeying its documented contract:
// getAsInt truncates to int, getAsLongLong / getAsUnsigned return the full 64-bit value.
pub mod clang_eval {
    #![allow(non_upper_case_globals, non_camel_case_types)]
    pub type c_int = i32; pub type c_longlong = i64; pub type c_ulonglong = u64; pub type c_uint = u32;
    #[derive(Clone, Copy)] pub struct Handle { pub bits: u64, pub unsigned: bool, pub kind: u32 }
    pub const CXEval_Int: u32 = 1;
    pub unsafe fn clang_EvalResult_isUnsignedInt(x: Handle) -> c_uint { x.unsigned as c_uint }
    pub unsafe fn clang_EvalResult_getAsUnsigned(x: Handle) -> c_ulonglong { x.bits }
    pub unsafe fn clang_EvalResult_getAsLongLong(x: Handle) -> c_longlong { x.bits as i64 }
    pub unsafe fn clang_EvalResult_getAsInt(x: Handle) -> c_int { x.bits as i64 as c_int }
    pub struct EvalResult { pub x: Handle }
    impl EvalResult {
        pub fn kind(&self) -> u32 { self.x.kind }
        /*AS_INT*/
    }
}

#[cfg(kani)]
mod proofs {
    #[kani::proof]
    fn const_variable_value_from_libclang_not_truncated() {
        use clang_eval::*;
        let h = Handle { bits: kani::any(), unsigned: kani::any(), kind: kani::any() };
        let r = EvalResult { x: h }.as_int();
        if h.kind != CXEval_Int { assert!(r.is_none()); }
        else { assert!(r == Some(h.bits as i64), "64-bit constant from libclang truncated or altered"); }
    }
    use super::*;
    fn bits(k: IntKind) -> u32 { (k.known_size().unwrap() * 8) as u32 }
    fn holds(k: IntKind, v: i64) -> bool {
        let b = bits(k);
        if k.is_signed() { b == 64 || (v >= -(1i64 << (b - 1)) && v < (1i64 << (b - 1))) }
        else { v >= 0 && (b == 64 || v < (1i64 << b)) }
    }
    fn any_opts() -> BindgenContext {
        BindgenContext { o: Options { default_macro_constant_type: if kani::any() { MacroTypeVariation::Signed } else { MacroTypeVariation::Unsigned }, fit_macro_constants: kani::any() } }
    }
    #[kani::proof]
    fn macro_constant_kind_holds_value_and_is_narrowest() {
        let v: i64 = kani::any();
        let ctx = any_opts();
        let k = default_macro_constant_type(&ctx, v);
        assert!(matches!(k, IntKind::I8 | IntKind::I16 | IntKind::I32 | IntKind::I64 | IntKind::U8 | IntKind::U16 | IntKind::U32 | IntKind::U64));
        assert!(holds(k, v), "chosen integer kind cannot hold the macro value");
        let want_signed = v < 0 || ctx.o.default_macro_constant_type == MacroTypeVariation::Signed;
        assert!(k.is_signed() == want_signed, "signedness differs from: negative value or signed requested");
        // narrowest kind the options allow: 32 bits unless fit_macro_constants, 64 only when 32 cannot hold it
        let b = bits(k);
        let min_bits = if ctx.o.fit_macro_constants { 8 } else { 32 };
        assert!(b >= min_bits);
        if b > min_bits {
            let narrower = match (k.is_signed(), b / 2) { (true, 8) => IntKind::I8, (true, 16) => IntKind::I16, (true, 32) => IntKind::I32, (false, 8) => IntKind::U8, (false, 16) => IntKind::U16, _ => IntKind::U32 };
            assert!(!holds(narrower, v), "a narrower kind allowed by the options would have held the value");
        }
        kani::cover!(b == 8 && k.is_signed() && v > 100, "i8 upper range");
        kani::cover!(b == 64 && !k.is_signed(), "u64");
    }
    #[kani::proof]
    fn macro_constant_literal_denotes_the_value() {
        let v: i64 = kani::any();
        let ctx = any_opts();
        let k = default_macro_constant_type(&ctx, v);
        match literal_for(k, v) {
            Lit::I(x) => { assert!(k.is_signed() && x == v, "signed literal differs from the value"); }
            Lit::U(x) => { assert!(!k.is_signed() && v >= 0 && x == v as u64, "unsigned literal differs from the value"); }
        }
    }
    #[kani::proof]
    fn literal_for_every_kind() {
        // any integer kind with a known size (const variables, enumerators), any value it can hold
        let v: i64 = kani::any();
        let ks = [IntKind::Bool, IntKind::SChar, IntKind::UChar, IntKind::Char { is_signed: true }, IntKind::Char { is_signed: false }, IntKind::I8, IntKind::U8,
                  IntKind::I16, IntKind::U16, IntKind::Char16, IntKind::I32, IntKind::U32, IntKind::I64, IntKind::U64];
        let i: usize = kani::any(); kani::assume(i < ks.len());
        let k = ks[i];
        // unsigned 64-bit values arrive as the i64 with the same bits
        let fits = if !k.is_signed() && bits(k) == 64 { true } else { holds(k, v) };
        kani::assume(fits);
        match literal_for(k, v) {
            Lit::I(x) => assert!(k.is_signed() && x == v),
            Lit::U(x) => assert!(!k.is_signed() && x == v as u64, "unsigned literal must carry the same bits"),
        }
    }
    #[kani::proof]
    fn char_macro_value_preserved() {
        let raw: u64 = kani::any(); kani::assume(raw <= 255);      // cexpr yields Raw only for one byte
        assert!(char_value(CChar::Raw(raw)) as u64 == raw, "byte value of a character-literal macro altered");
        let a: u8 = kani::any(); kani::assume(a < 128);
        assert!(char_value(CChar::Char(a as char)) == a, "ASCII character-literal macro altered");
    }
    #[kani::proof]
    fn enum_repr_translation_keeps_width_and_sign() {
        let signed: bool = kani::any(); let size: usize = kani::any();
        let k = translate(signed, size);
        if size == 1 || size == 2 || size == 4 || size == 8 {
            assert!(k.is_signed() == signed, "enum repr signedness changed");
            assert!(k.known_size() == Some(size), "enum repr width changed");
        } else {
            assert!(k == IntKind::I32, "documented default for unknown sizes");
        }
    }
}
