// C08: the real CannotDerive::constrain (constrain_type + constrain_join + insert) equals an independent
// specification of the documented derive rules, one step from an arbitrary pre-state.
#[cfg(kani)]
pub mod spec_proofs {
    use super::*;
    use crate::hctx::*;
    const YES: u8 = 0; const MANUALLY: u8 = 1; const NO: u8 = 2;
    fn mx(a: u8, b: u8) -> u8 { if a > b { a } else { b } }
    fn get(a: &CannotDerive, i: usize) -> u8 { match a.can_derive.vals[i] { None | Some(CanDerive::Yes) => 0, Some(CanDerive::Manually) => 1, Some(CanDerive::No) => 2 } }
    fn set(a: &mut CannotDerive, i: usize, v: u8) { a.can_derive.vals[i] = match v { 0 => None, 1 => Some(CanDerive::Manually), _ => Some(CanDerive::No) }; }
    fn cd(c: CanDerive) -> u8 { match c { CanDerive::Yes => 0, CanDerive::Manually => 1, CanDerive::No => 2 } }

    /// function pointers: more than 12 parameters or a non-C ABI cannot use the std impls
    fn fnptr(t: DeriveTrait, sig: &FunctionSig) -> u8 {
        let std_impls = sig.argument_types.declared_len <= 12 && matches!(sig.abi, ClangAbi::Known(Abi::C) | ClangAbi::Unknown(_));
        match t { DeriveTrait::Copy | DeriveTrait::Default => YES, _ if std_impls => YES, DeriveTrait::Debug => MANUALLY, _ => NO }
    }
    /// the documented rules, written from the property statement and the doc comment of CannotDerive (not from the code)
    fn spec(t: DeriveTrait, ctx: &BindgenContext, v1: u8, v2: u8) -> u8 {
        let r = spec_rules(t, ctx, v1, v2);
        let ty = ctx.items[X].as_type().unwrap();
        // over-aligned types may need a padding array longer than 32, which only has a hand-written Default
        if r == YES && t == DeriveTrait::Default && ty.layout.map_or(false, |l| l.align > 32) { MANUALLY } else { r }
    }
    fn spec_rules(t: DeriveTrait, ctx: &BindgenContext, v1: u8, v2: u8) -> u8 {
        let item = &ctx.items[X]; let ty = item.as_type().unwrap();
        // a type the user blocklisted: never derived through unless the user vouches for it
        if !ctx.allow.present[X] {
            if !ty.named { return NO; }
            if ctx.options.parse_callbacks.n == 0 { return if ctx.stdint_answer { YES } else { NO }; }
            return match ctx.options.last.answer { Some(c) => cd(c), None => NO };
        }
        let excluded = match t { DeriveTrait::Copy => item.fl.no_copy, DeriveTrait::Debug => item.fl.no_debug, DeriveTrait::Default => item.fl.no_default, DeriveTrait::Hash => item.fl.no_hash, DeriveTrait::PartialEqOrPartialOrd => item.fl.no_partialeq };
        if excluded { return NO; }
        let is_union = matches!(&ty.kind, TypeKind::Comp(c) if c.kind == CompKind::Union);
        if item.fl.opaque {
            // an opaque blob derives everything, except that a Rust union only derives Copy
            if t != DeriveTrait::Copy && is_union && ctx.options.untagged_union { NO } else { YES }
        } else { match &ty.kind {
            TypeKind::Int(_) => YES,
            TypeKind::Float(_) | TypeKind::Complex(_) => if t == DeriveTrait::Hash { NO } else { YES },
            TypeKind::Void | TypeKind::NullPtr | TypeKind::Enum(_) | TypeKind::Reference(_) | TypeKind::TypeParam | TypeKind::ObjCInterface(_) | TypeKind::ObjCId | TypeKind::ObjCSel =>
                if t == DeriveTrait::Default { NO } else { YES },
            TypeKind::Pointer(inner) => match &ctx.items[(inner.0).0].as_type().unwrap().kind { TypeKind::Function(sig) => fnptr(t, sig), _ => if t == DeriveTrait::Default { NO } else { YES } },
            TypeKind::Function(sig) => fnptr(t, sig),
            TypeKind::Array(_, len) => {
                if v1 != YES { NO }
                else if *len == 0 && matches!(t, DeriveTrait::Copy | DeriveTrait::Hash | DeriveTrait::PartialEqOrPartialOrd) { NO }
                else if t != DeriveTrait::Default { YES }
                else if *len > 32 { MANUALLY } else { YES }
            }
            TypeKind::Vector(..) => if v1 != YES { NO } else if t == DeriveTrait::PartialEqOrPartialOrd { NO } else { YES },
            TypeKind::Comp(c) => {
                let (nf, nb) = (c.fields().n, c.bases.n);
                let members = mx(if nf >= 1 { v1 } else { YES }, mx(if nf >= 2 { v2 } else { YES }, if nb >= 1 { v2 } else { YES }));
                if c.fwd && t != DeriveTrait::Debug { NO }
                else if t == DeriveTrait::Copy && ctx.has_dtor[X] { NO }
                else if is_union && t != DeriveTrait::Copy { if ctx.options.untagged_union { NO } else { YES } }
                else if is_union && ctx.options.untagged_union && (c.self_tparams > 0 || item.fl.tparams > 0) { NO }
                else if t == DeriveTrait::Default && item.fl.vtable { NO }
                else if t == DeriveTrait::Default && c.big_bitfield_unit { NO }
                else { members }
            }
            TypeKind::Alias(_) | TypeKind::ResolvedTypeRef(_) | TypeKind::BlockPointer(_) => v1,
            TypeKind::TemplateAlias(_, params) => if t == DeriveTrait::PartialEqOrPartialOrd && params.n >= 1 { mx(v1, v2) } else { v1 },
            TypeKind::TemplateInstantiation(_) => mx(v1, v2),
            TypeKind::Opaque | TypeKind::UnresolvedTypeRef(..) => YES,   // not reachable: Opaque items are opaque
        } }
    }
    fn spec_step(t: DeriveTrait, tag: u8, child1: u8) {
        let ctx = mk_ctx(tag, child1);
        let mut a = CannotDerive { ctx: &ctx, derive_trait: t, can_derive: HashMap::default(), dependencies: HashMap::default() };
        let (v1, v2, vx): (u8, u8, u8) = (kani::any(), kani::any(), kani::any());
        kani::assume(v1 <= 2 && v2 <= 2 && vx <= 2);
        set(&mut a, 1, v1); set(&mut a, 2, v2); set(&mut a, X, vx);
        let want = mx(vx, spec(t, &ctx, v1, v2));
        let _ = a.constrain(ItemId(X));
        let got = get(&a, X);
        assert!(got >= want, "trait derived (or left derivable) although the documented rules forbid it");
        assert!(got <= want, "trait withheld although the documented rules allow it");
        kani::cover!(got == NO, "cannot derive");
        kani::cover!(got == YES, "can derive");
        core::mem::forget(a); core::mem::forget(ctx);
    }
    /*GENERATED*/
}
