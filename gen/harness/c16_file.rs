// C16: assembly of the wrapper source file - the statements of utils::serialize_items between `let mut code = Vec::new();` and the final write,
// verbatim: one #include per input header (all of them, before anything else), inline contents, then exactly one wrapper per registered item.
#![allow(warnings)]
#[derive(Clone, Copy, PartialEq, Eq, Debug)] pub enum Line { Include, Blank, Contents, Banner, Wrapper(usize) }
pub struct Code { pub l: [Option<Line>; 12], pub n: usize }
impl Code { pub fn put(&mut self, x: Line) -> Result<(), CodegenError> { self.l[self.n] = Some(x); self.n += 1; Ok(()) } }
pub struct Vec; impl Vec { pub fn new() -> Code { Code { l: [None; 12], n: 0 } } }
macro_rules! vec { () => { () } }
macro_rules! writeln {
    ($w:ident, "#include \"{header}\"") => { $w.put(Line::Include) };
    ($w:ident, "// {name}\n{contents}") => { $w.put(Line::Contents) };
    ($w:ident, "// Static wrappers\n") => { $w.put(Line::Banner) };
    ($w:ident) => { $w.put(Line::Blank) };
}
pub struct CodegenError;
#[derive(Clone, Copy, PartialEq, Eq)] pub struct ItemId(pub usize);
pub struct List<T> { pub a: [T; 3], pub n: usize }
/// behaves as the slice of its first n elements (so that any slice accessor the code may use - iter, last, first, len, is_empty - is available)
impl<T> core::ops::Deref for List<T> { type Target = [T]; fn deref(&self) -> &[T] { &self.a[..self.n] } }
impl<'a, T> IntoIterator for &'a List<T> { type Item = &'a T; type IntoIter = core::slice::Iter<'a, T>; fn into_iter(self) -> Self::IntoIter { self.a[..self.n].iter() } }
pub struct Options { pub input_headers: List<u8>, pub input_header_contents: List<(u8, u8)> }
pub struct Item { pub id: usize }
impl Item { pub fn serialize(&self, _: &BindgenContext, _: &Option<u8>, _: &mut (), code: &mut Code) -> Result<(), CodegenError> { code.put(Line::Wrapper(self.id)) } }
pub struct BindgenContext { pub o: Options, pub items: [Item; 4] }
impl BindgenContext { pub fn options(&self) -> &Options { &self.o } pub fn resolve_item(&self, id: ItemId) -> &Item { &self.items[id.0] } }
pub struct CodegenResult { pub items_to_serialize: List<(ItemId, Option<u8>)> }
pub fn assemble(result: &CodegenResult, context: &BindgenContext) -> Result<Code, CodegenError> {
/*ASSEMBLY*/
    Ok(code)
}
#[cfg(kani)]
mod proofs {
    use super::*;
    #[kani::proof] #[kani::unwind(14)]
    fn wrapper_file_includes_every_header_then_one_wrapper_per_item() {
        let nh: usize = kani::any(); let nc: usize = kani::any(); let ni: usize = kani::any();
        kani::assume(nh <= 3 && nc <= 1 && ni <= 3 && ni >= 1);
        let ctx = BindgenContext { o: Options { input_headers: List { a: [1, 2, 3], n: nh }, input_header_contents: List { a: [(1, 1), (2, 2), (3, 3)], n: nc } }, items: [Item { id: 0 }, Item { id: 1 }, Item { id: 2 }, Item { id: 3 }] };
        let ids: [usize; 3] = [kani::any(), kani::any(), kani::any()]; kani::assume(ids[0] < 4 && ids[1] < 4 && ids[2] < 4);
        let result = CodegenResult { items_to_serialize: List { a: [(ItemId(ids[0]), None), (ItemId(ids[1]), None), (ItemId(ids[2]), None)], n: ni } };
        let code = match assemble(&result, &ctx) { Ok(c) => c, Err(_) => { assert!(false, "assembly failed"); return; } };
        // count the lines by kind, and check the order: includes first, wrappers last
        let (mut inc, mut wr, mut seen_wrapper, mut i) = (0, 0, false, 0);
        while i < code.n {
            match code.l[i].unwrap() {
                Line::Include => { assert!(!seen_wrapper, "#include after a wrapper"); inc += 1; }
                Line::Wrapper(id) => { assert!(wr < ni && id == ids[wr], "wrappers are not the registered items in order"); wr += 1; seen_wrapper = true; }
                _ => {}
            }
            i += 1;
        }
        assert!(inc == nh, "the wrapper source does not include every input header (a wrapper may call a function it has no declaration for)");
        assert!(wr == ni, "not exactly one wrapper per registered static function");
        kani::cover!(nh == 3 && ni == 3, "three headers, three wrappers");
    }
}
