// C14: consuming sites of `unsafe_extern_blocks` - the two `let safety = ..;` statements of codegen/mod.rs (Var::codegen for
// extern statics, Function::codegen for functions), real text, against the real RustFeatures: `unsafe extern` (1.82) is written
// exactly on targets that have it, for mutable and const statics and for functions alike (the two sites agree).
pub mod extern_site {
    use super::*;
    pub struct Options { pub rust_features: RustFeatures }
    impl Options { pub fn rust_features(&self) -> RustFeatures { self.rust_features } }
    pub struct BindgenContext { pub o: Options }
    impl BindgenContext { pub fn options(&self) -> &Options { &self.o } }
    macro_rules! quote { (unsafe) => { () }; () => { () }; }
    pub struct Var { pub c: bool }
    impl Var {
        pub fn is_const(&self) -> bool { self.c }
        pub fn site(&self, ctx: &BindgenContext) -> bool {
            /*VAR_SAFETY*/
            safety.is_some()
        }
    }
    pub struct Function { pub variadic: bool }
    impl Function {
        pub fn site(&self, ctx: &BindgenContext) -> bool {
            /*FN_SAFETY*/
            safety.is_some()
        }
    }
    #[cfg(kani)]
    mod proofs {
        use super::*;
        #[kani::proof] #[kani::unwind(6)]
        fn unsafe_extern_exactly_on_targets_that_have_it() {
            let nightly: bool = kani::any(); let minor: u64 = kani::any();
            let target = if nightly { RustTarget::nightly() } else { RustTarget(Version::Stable(minor, kani::any())) };
            let e: u8 = kani::any(); kani::assume((e as usize) < RustEdition::ALL.len()); let edition = RustEdition::ALL[e as usize];
            let ctx = BindgenContext { o: Options { rust_features: RustFeatures::new(target, edition) } };
            let has = nightly || minor >= 82;
            let v = Var { c: kani::any() }.site(&ctx);
            let f = Function { variadic: kani::any() }.site(&ctx);
            assert!(!v || has, "`unsafe extern` block around a static on a Rust target older than 1.82");
            assert!(!f || has, "`unsafe extern` block around a function on a Rust target older than 1.82");
            // enabled from its release on (monotone; edition 2024 - 1.85 - accepts no plain `extern` block)
            assert!(v || !has, "plain `extern` block around a static on a target with unsafe extern blocks");
            assert!(f || !has, "plain `extern` block around a function on a target with unsafe extern blocks");
            kani::cover!(v && f, "unsafe extern written"); kani::cover!(!v && !f && minor == 81, "1.81: plain extern");
        }
    }
}
