// ---- the tail of BitfieldUnit::codegen (from `let access_spec = ..` to the end of the function): where the `_bitfield_N` member is pushed and
// ---- the layout tracker is told about the unit; real text, its free variables as parameters -----------------------------------------------
pub mod unit_codegen {
    use super::*; use super::struct_layout::*;
    pub struct Bitfield { pub off: Option<usize>, pub into_unit: usize }
    impl Bitfield { pub fn offset(&self) -> Option<usize> { self.off } pub fn offset_into_unit(&self) -> usize { self.into_unit } }
    pub struct BfList { pub a: [Bitfield; 3], pub n: usize }
    pub struct BfIter<'a> { l: &'a BfList, i: usize }
    impl<'a> Iterator for BfIter<'a> { type Item = &'a Bitfield; fn next(&mut self) -> Option<&'a Bitfield> { if self.i >= 3 { return None; } let k = self.i; self.i += 1; if k < self.l.n { Some(&self.l.a[k]) } else { None } } }
    impl BfList { pub fn first(&self) -> Option<&Bitfield> { if self.n > 0 { Some(&self.a[0]) } else { None } } pub fn last(&self) -> Option<&Bitfield> { if self.n > 0 { Some(&self.a[self.n - 1]) } else { None } }
                  pub fn len(&self) -> usize { self.n } pub fn iter(&self) -> BfIter<'_> { BfIter { l: self, i: 0 } } }
    pub struct Toks { pub a: [Option<proc_macro2::TokenStream>; 4], pub n: usize }
    impl Toks { pub fn new() -> Self { Toks { a: [None; 4], n: 0 } } pub fn extend<I: IntoIterator<Item = proc_macro2::TokenStream>>(&mut self, it: I) { for t in it { self.a[self.n] = Some(t); self.n += 1; } } }
    pub fn unit_tail(ctx: &BindgenContext, struct_layout: &mut StructLayoutTracker, fields: &mut Toks, methods: &mut Toks, bfields: &BfList, layout: Layout,
                     field_ty: syn::Type, unit_field_ty: syn::Type, unit_visibility: FieldVisibilityKind, generate_ctor: bool) {
        let unit_field_ident = proc_macro2::Ident(0); let ctor_name = proc_macro2::Ident(0); let ctor_params: [u8; 0] = []; let ctor_impl = proc_macro2::TokenStream::Other;
        let access_spec = access_specifier(unit_visibility);
/*UNIT_TAIL*/
    }
}
/*SAW_UNIT_MACRO*/
#[cfg(kani)]
mod proofs {
    use super::*;
    use super::struct_layout::*;
    fn up(x: usize, a: usize) -> usize { if a == 0 { x } else { (x + a - 1) / a * a } }
    fn mn(a: usize, b: usize) -> usize { if a < b { a } else { b } }
    fn mx(a: usize, b: usize) -> usize { if a > b { a } else { b } }
    fn field(ts: Option<proc_macro2::TokenStream>) -> Option<syn::Type> { match ts { Some(proc_macro2::TokenStream::Field(t)) => Some(t), _ => None } }

    /// Rust repr(C) / repr(C, packed(n)) placement of one field (n == 0: not packed)
    fn place(cur: &mut usize, maxa: &mut usize, size: usize, align: usize, n: usize) -> usize {
        let a = if n == 0 { align } else { mn(align, n) };
        let off = up(*cur, a); *cur = off + size; if a > *maxa { *maxa = a; } off
    }

    /// One struct of K members.  AL[i] = natural alignment of member i's type (its size is a symbolic multiple),
    /// P = 0: no packing, 1: __attribute__((packed)) or #pragma pack(1), 2/4: #pragma pack(P),
    /// EA = alignment given to the LAST member by __attribute__((aligned(EA))) (0: none).
    fn struct_case<const K: usize, const P: usize, const EA: usize>(al: [usize; K]) {
        let mut sz = [0usize; K]; let mut coff = [0usize; K];
        // ---- C side (Itanium/SysV record layout) ----
        let mut cur = 0usize; let mut sa = 1usize;
        let mut i = 0;
        while i < K {
            let m: usize = kani::any(); kani::assume(m >= 1 && m <= 6);
            sz[i] = m * al[i];
            let mut ea = al[i];
            if EA != 0 && i == K - 1 { ea = mx(ea, EA); }
            if P != 0 { ea = mn(ea, P); }
            coff[i] = up(cur, ea); cur = coff[i] + sz[i]; sa = mx(sa, ea);
            i += 1;
        }
        let csize = up(cur, sa);
        let packed_attr: bool = if P == 1 { kani::any() } else { false };
        let ctx = BindgenContext { opts: Options { force_explicit_padding: kani::any(), enable_cxx_namespaces: kani::any(), flexarray_dst: false }, ptr_size: 8 };
        let comp = CompInfo { union_: false, rust_union: (false, false) };
        let layout = Layout::new(csize, sa);
        let ty = Type { layout: Some(layout), kind: TypeKind::Comp };
        // ---- driver, parallel to CompInfo::codegen (pinned by sha256, see evidence) ----
        // CompInfo::is_packed: packed attribute, or some member more aligned than the struct (pragma pack detected by its effect)
        let mut packed = packed_attr;
        let mut j = 0; while j < K { if al[j] > sa { packed = true; } j += 1; }
        let mut t = StructLayoutTracker::new(&ctx, &comp, &ty, "s", FieldVisibilityKind::Public, packed);
        let mut pads: [Option<syn::Type>; K] = [None; K];
        let mut j = 0; while j < K { pads[j] = field(t.saw_field_with_layout("m", Layout::new(sz[j], al[j]), Some(coff[j] * 8))); j += 1; }
        let tail = field(t.add_tail_padding("s", layout));
        let pad = field(t.pad_struct(layout));
        let mut explicit_align = 0usize;
        if t.requires_explicit_align(layout) { if layout.align == 1 { packed = true; } else { explicit_align = layout.align; } }
        // CompInfo::already_packed
        let mut already_packed = true; let mut total = 0usize;
        let mut j = 0; while j < K { if already_packed && al[j] != 0 && total % al[j] != 0 { already_packed = false; } total += sz[j]; j += 1; }
        let n = if packed && !(explicit_align != 0 && already_packed) { layout.align } else { 0 };
        // ---- Rust side: repr(C[, packed(n)])[, align(explicit)] over padding blobs + members ----
        let mut rcur = 0usize; let mut maxa = 1usize;
        let mut j = 0;
        while j < K {
            if let Some(p) = pads[j] { place(&mut rcur, &mut maxa, p.size, p.align, n); }
            let r = place(&mut rcur, &mut maxa, sz[j], al[j], n);
            assert!(r == coff[j], "member offset differs between C and the emitted Rust struct");
            j += 1;
        }
        if let Some(p) = tail { place(&mut rcur, &mut maxa, p.size, p.align, n); }
        if let Some(p) = pad { place(&mut rcur, &mut maxa, p.size, p.align, n); }
        if explicit_align > maxa { maxa = explicit_align; }
        let rsize = up(rcur, maxa);
        assert!(rsize == csize, "struct size differs between C and the emitted Rust struct");
        assert!(maxa == sa, "struct alignment differs between C and the emitted Rust struct");
        // a packed(n) + align(m) combination is rejected by rustc (E0587)
        assert!(!(n != 0 && explicit_align != 0), "repr(packed) and repr(align) emitted together");
        kani::cover!(rsize == csize, "end of harness reached");
    }
    /// helpers::blob as an opaque-type body: exact size and alignment whenever size is a multiple of the alignment
    fn blob_exact<const A: usize>() {
        let size: usize = kani::any(); kani::assume(size <= 65536);
        let ffi_safe: bool = kani::any();
        let ctx = BindgenContext { opts: Options { force_explicit_padding: kani::any(), enable_cxx_namespaces: kani::any(), flexarray_dst: false }, ptr_size: 8 };
        let t = helpers::blob(&ctx, Layout::new(size, A), ffi_safe);
        let a = if A == 0 { 1 } else { A };
        assert!(t.align <= a, "blob is more aligned than requested");
        if size % a == 0 {
            assert!(t.size == size, "blob size differs from the requested size");
            assert!(t.align == a, "blob alignment differs from the requested alignment");
        }
        assert!(t.size <= size || size % a != 0, "blob larger than requested");
        // a plain array [T; n] is only emitted when it is not an FFI-visible type and n <= 32 (derive limit); otherwise a wrapper
        if t.elems != 0 && !t.wrapped { assert!(!ffi_safe && t.elems <= 32, "plain array emitted where the opaque-array wrapper is required"); }
        kani::cover!(t.elems != 0 && !t.wrapped, "plain array");
        kani::cover!(t.wrapped, "wrapper");
    }
    /// helpers::blob as padding: placed by Rust after offset `o`, it must end exactly where C says the next member starts
    fn blob_padding<const A: usize>() {
        let o: usize = kani::any(); let size: usize = kani::any();
        kani::assume(o <= 4096 && size >= 1 && size <= 4096);
        kani::assume((o + size) % A == 0);           // the next member is at least A-aligned in C
        let ctx = BindgenContext { opts: Options { force_explicit_padding: false, enable_cxx_namespaces: kani::any(), flexarray_dst: false }, ptr_size: 8 };
        let t = helpers::blob(&ctx, Layout::new(size, A), false);
        let start = up(o, t.align);
        assert!(start + t.size == o + size, "padding blob does not end where the next member starts");
        kani::cover!(o % A != 0, "padding starts unaligned");
    }
    #[kani::proof] fn layout_for_size_is_largest_pow2_divisor() {
        let p: usize = kani::any(); let s: usize = kani::any();
        kani::assume(p == 4 || p == 8); kani::assume(s >= 1 && s <= 1 << 20);
        let ctx = BindgenContext { opts: Options { force_explicit_padding: false, enable_cxx_namespaces: false, flexarray_dst: false }, ptr_size: p };
        let l = Layout::for_size(&ctx, s);
        assert!(l.size == s);
        assert!(l.align >= 1 && l.align <= p && l.align.is_power_of_two() && s % l.align == 0, "for_size alignment must be a power of two <= pointer size dividing the size");
        assert!(l.align == p || s % (l.align * 2) != 0, "for_size alignment is not the largest such power of two");
    }
    fn align_to_case<const A: usize>() {
        let s: usize = kani::any();
        kani::assume(s <= 1 << 40);
        let r = struct_layout::align_to(s, A);
        if A == 0 { assert!(r == s); } else { assert!(r >= s && r % A == 0 && r - s < A, "align_to is not the least multiple >= size"); }
    }
    #[kani::proof] fn align_to_is_least_multiple() {
        align_to_case::<0>(); align_to_case::<1>(); align_to_case::<2>(); align_to_case::<3>(); align_to_case::<8>(); align_to_case::<24>(); align_to_case::<64>();
    }
    /// C12: libclang can hand bindgen ANY numbers (bogus layouts on error recovery, templates, vendor extensions): the tracker must not panic
    /// (overflow, division by zero, unwrap) whatever the sizes, alignments, offsets and flags are.  Nothing is asserted about the result.
    #[kani::proof] #[kani::unwind(6)]
    fn tracker_never_panics_on_arbitrary_layouts() {
        // alignments: 0 (unknown) or a power of two, as every C/C++ compiler reports them; sizes and offsets are unconstrained
        let any_layout = || { let s: usize = kani::any(); let e: u8 = kani::any(); kani::assume(s <= 1 << 32 && e <= 13); Layout::new(s, if e == 13 { 0 } else { 1usize << e }) };
        let ctx = BindgenContext { opts: Options { force_explicit_padding: kani::any(), enable_cxx_namespaces: kani::any(), flexarray_dst: false }, ptr_size: if kani::any() { 4 } else { 8 } };
        let comp = CompInfo { union_: kani::any(), rust_union: (kani::any(), kani::any()) };
        let layout = any_layout();
        let ty = Type { layout: if kani::any() { Some(layout) } else { None }, kind: TypeKind::Comp };
        let mut t = StructLayoutTracker::new(&ctx, &comp, &ty, "s", FieldVisibilityKind::Public, kani::any());
        let off = |x: bool| if x { let o: usize = kani::any(); kani::assume(o <= 1 << 35); Some(o) } else { None };
        if kani::any() { t.saw_vtable(); }
        if kani::any() { saw_unit!(t, any_layout(), off(kani::any())); }
        let _ = t.saw_field_with_layout("a", any_layout(), off(kani::any()));
        if kani::any() { saw_unit!(t, any_layout(), off(kani::any())); }
        let _ = t.saw_field_with_layout("b", any_layout(), off(kani::any()));
        if kani::any() { t.saw_flexible_array(); }
        let _ = t.add_tail_padding("s", layout);
        let _ = t.pad_struct(layout);
        let _ = t.requires_explicit_align(layout);
    }
    /// `struct { M m0; T f : w; }` - T of size = alignment TA, m0 of alignment A0 and symbolic size: the allocation unit member must start at the byte
    /// where C starts the bit-field run.  C side: Itanium rule (a bit-field that would straddle a T-aligned boundary starts at the next one).
    /// PK: the struct is __attribute__((packed)) - members are not aligned, but a zero-width bit-field in front of the run still pushes it to a boundary
    /// (g bytes further).  Unit as bitfields_to_allocation_units builds it (kernel k2_alloc of C03): a byte array of ceil(bits / 8) bytes that starts at the
    /// FIRST bit-field's libclang offset; `into_unit` is bindgen's own idea of where that first field sits inside the unit (0 when it agrees with clang,
    /// more when its straddle prediction differs, e.g. for a packed bit-field) and must not make anything panic.
    fn unit_case<const A0: usize, const TA: usize, const PK: bool>() {
        let m: usize = kani::any(); kani::assume(m >= 1 && m <= 6); let s0 = m * A0;
        let w: usize = kani::any(); kani::assume(w >= 1 && w <= 8 * TA);
        let b0 = s0 * 8;
        let g: usize = kani::any(); kani::assume(g <= 7);
        let c_first = if PK { b0 + 8 * g } else if (b0 % (TA * 8)) + w > TA * 8 { up(b0, TA * 8) } else { b0 };
        let sa = if PK { 1 } else { mx(A0, TA) };
        let csize = up((c_first + w + 7) / 8, sa);
        let into_unit: usize = kani::any(); kani::assume(into_unit <= 64);
        let unit_size = (into_unit + w + 7) / 8;      // (a second field only appears in the bit-field list below; sizes are checked for the one-field unit)
        kani::assume(into_unit == 0 || !PK);     // the size model below (unit ends with the field) is for into_unit = 0; other values only exercise panic freedom
        let ctx = BindgenContext { opts: Options { force_explicit_padding: kani::any(), enable_cxx_namespaces: kani::any(), flexarray_dst: false }, ptr_size: 8 };
        let comp = CompInfo { union_: false, rust_union: (false, false) };
        let layout = Layout::new(csize, sa);
        let ty = Type { layout: Some(layout), kind: TypeKind::Comp };
        let mut t = StructLayoutTracker::new(&ctx, &comp, &ty, "s", FieldVisibilityKind::Public, PK);
        let pad0 = field(t.saw_field_with_layout("m", Layout::new(s0, A0), Some(0)));
        assert!(pad0.is_none(), "padding in front of the first member");
        let ulayout = Layout::new(unit_size, 1);
        let unit_ty = helpers::bitfield_unit(&ctx, ulayout);
        let mut fields = unit_codegen::Toks::new(); let mut methods = unit_codegen::Toks::new();
        // the run as bitfields_to_allocation_units records it: optionally a leading zero-width bit-field (recorded against an EARLIER start: its own offset,
        // offset_into_unit 0), then the first real field at the unit start, then a second field right behind it
        let lead: bool = kani::any(); let lead_off: usize = kani::any(); kani::assume(lead_off % 8 == 0 && lead_off >= b0 && lead_off <= c_first);
        let w2: usize = kani::any(); kani::assume(w2 >= 1 && w2 <= 8);
        let f1 = unit_codegen::Bitfield { off: Some(c_first), into_unit };
        let f2 = unit_codegen::Bitfield { off: Some(c_first + w), into_unit: w };
        let z = unit_codegen::Bitfield { off: Some(lead_off), into_unit: 0 };
        let two: bool = kani::any(); kani::assume(two || into_unit == 0);      // a mispredicted first field (into_unit > 0) is only recoverable through a later, consistent one
        let bfs = if lead { unit_codegen::BfList { a: [z, f1, f2], n: if two { 3 } else { 2 } } } else { unit_codegen::BfList { a: [f1, f2, z], n: if two { 2 } else { 1 } } };
        unit_codegen::unit_tail(&ctx, &mut t, &mut fields, &mut methods, &bfs, ulayout, unit_ty, unit_ty, FieldVisibilityKind::Public, kani::any());
        let tail = field(t.add_tail_padding("s", layout));
        let pad = field(t.pad_struct(layout));
        // ---- Rust side: repr(C[, packed]) over m0, what unit_tail pushed (the unit member is the last thing it pushed), tail padding ----
        let n = if PK { 1 } else { 0 };
        let mut rcur = 0usize; let mut maxa = 1usize;
        place(&mut rcur, &mut maxa, s0, A0, n);
        assert!(fields.n >= 1 && fields.n <= 2, "BitfieldUnit::codegen pushes the unit member, possibly after one padding member");
        let mut unit_off = 0usize;
        let mut j = 0; while j < 4 { if j < fields.n { match fields.a[j] { Some(proc_macro2::TokenStream::Field(f)) => { unit_off = place(&mut rcur, &mut maxa, f.size, f.align, n); if j == fields.n - 1 { assert!(f.size == unit_size && f.align == 1, "unit member is not the byte array of the unit"); } }, _ => assert!(false, "not a member") } } j += 1; }
        assert!(unit_off * 8 == c_first, "the bit-field allocation unit does not start where C starts its first bit-field: every accessor of the unit reads and writes the wrong bytes");
        if into_unit == 0 {
            if let Some(p) = tail { place(&mut rcur, &mut maxa, p.size, p.align, n); }
            if let Some(p) = pad { place(&mut rcur, &mut maxa, p.size, p.align, n); }
            assert!(up(rcur, sa) == csize, "struct size differs between C and the emitted Rust struct");
        }
        kani::cover!(c_first != b0, "bit-field run pushed to a later boundary");
        kani::cover!(c_first == b0, "bit-field packed right behind the member");
    }
    /*GENERATED*/
}
