// C02: primitive type mapping at the libclang boundary: the `match ty.kind()` of BindgenContext::build_builtin_ty (ir/context.rs),
// with the real IntKind / FloatKind.  libclang's type-kind constants are an environment table of distinct codes.
#![allow(warnings)]
pub mod clang_sys {
    pub type CXTypeKind = u32;
    macro_rules! kinds { ($($n:ident = $v:expr),*) => { $(pub const $n: CXTypeKind = $v;)* } }
    kinds!(CXType_NullPtr = 1, CXType_Void = 2, CXType_Bool = 3, CXType_Int = 4, CXType_UInt = 5, CXType_Char_S = 6, CXType_Char_U = 7, CXType_SChar = 8, CXType_UChar = 9, CXType_Short = 10, CXType_UShort = 11,
           CXType_WChar = 12, CXType_Char16 = 13, CXType_Char32 = 14, CXType_Long = 15, CXType_ULong = 16, CXType_LongLong = 17, CXType_ULongLong = 18, CXType_Int128 = 19, CXType_UInt128 = 20, CXType_Float16 = 21,
           CXType_Half = 22, CXType_Float = 23, CXType_Double = 24, CXType_LongDouble = 25, CXType_Float128 = 26, CXType_Complex = 27, CXType_Record = 28, CXType_Pointer = 29);
}
pub mod int { /*INT_RS*/ }
pub use int::IntKind;
/*FLOAT_KIND*/
#[derive(Debug, Clone, Copy, PartialEq)] pub enum TypeKind { NullPtr, Void, Int(IntKind), Float(FloatKind), Complex(FloatKind) }
#[derive(Debug, Clone, Copy)] pub struct ClangTy { pub k: u32, pub elem: Option<u32> }
impl ClangTy { pub fn kind(&self) -> u32 { self.k } pub fn elem_type(&self) -> Option<ClangTy> { self.elem.map(|k| ClangTy { k, elem: None }) } }
pub struct Options { pub use_distinct_char16_t: bool }
pub struct BindgenContext { pub o: Options }
impl BindgenContext {
    pub fn options(&self) -> &Options { &self.o }
    pub fn builtin_kind(&self, ty: &ClangTy) -> Option<TypeKind> {
        use clang_sys::*;
        /*MATCH_STMT*/
        Some(type_kind)
    }
}
#[cfg(kani)]
mod proofs {
    use super::*; use clang_sys::*;
    fn float_of(k: u32) -> Option<FloatKind> { if k == CXType_Float16 || k == CXType_Half { Some(FloatKind::Float16) } else if k == CXType_Float { Some(FloatKind::Float) } else if k == CXType_Double { Some(FloatKind::Double) }
        else if k == CXType_LongDouble { Some(FloatKind::LongDouble) } else if k == CXType_Float128 { Some(FloatKind::Float128) } else { None } }
    /// small integer code of a classification (avoids the derived PartialEq, which drags in a &str comparison for IntKind::Custom)
    fn fcode(f: FloatKind) -> u32 { match f { FloatKind::Float16 => 1, FloatKind::Float => 2, FloatKind::Double => 3, FloatKind::LongDouble => 4, FloatKind::Float128 => 5 } }
    fn code(t: Option<TypeKind>) -> u32 {
        match t { None => 0, Some(TypeKind::NullPtr) => 1, Some(TypeKind::Void) => 2, Some(TypeKind::Float(f)) => 10 + fcode(f), Some(TypeKind::Complex(f)) => 20 + fcode(f),
            Some(TypeKind::Int(i)) => 100 + match i { IntKind::Bool => 1, IntKind::SChar => 2, IntKind::UChar => 3, IntKind::WChar => 4, IntKind::Char { is_signed: true } => 5, IntKind::Char { is_signed: false } => 6,
                IntKind::Short => 7, IntKind::UShort => 8, IntKind::Int => 9, IntKind::UInt => 10, IntKind::Long => 11, IntKind::ULong => 12, IntKind::LongLong => 13, IntKind::ULongLong => 14, IntKind::I8 => 15, IntKind::U8 => 16,
                IntKind::I16 => 17, IntKind::U16 => 18, IntKind::Char16 => 19, IntKind::I32 => 20, IntKind::U32 => 21, IntKind::I64 => 22, IntKind::U64 => 23, IntKind::I128 => 24, IntKind::U128 => 25, IntKind::Custom { .. } => 26 } }
    }
    #[kani::proof]
    fn builtin_c_types_keep_their_identity() {
        let ctx = BindgenContext { o: Options { use_distinct_char16_t: kani::any() } };
        let k: u32 = kani::any(); kani::assume(k >= 1 && k <= 29);
        let elem: u32 = kani::any(); kani::assume(elem >= 21 && elem <= 26);        // _Complex of a floating type
        let r = ctx.builtin_kind(&ClangTy { k, elem: Some(elem) });
        // the C standard's / clang's meaning of each builtin kind, written independently
        let want = if k == CXType_NullPtr { Some(TypeKind::NullPtr) } else if k == CXType_Void { Some(TypeKind::Void) }
            else if k == CXType_Bool { Some(TypeKind::Int(IntKind::Bool)) }
            else if k == CXType_Char_S { Some(TypeKind::Int(IntKind::Char { is_signed: true })) } else if k == CXType_Char_U { Some(TypeKind::Int(IntKind::Char { is_signed: false })) }
            else if k == CXType_SChar { Some(TypeKind::Int(IntKind::SChar)) } else if k == CXType_UChar { Some(TypeKind::Int(IntKind::UChar)) }
            else if k == CXType_Short { Some(TypeKind::Int(IntKind::Short)) } else if k == CXType_UShort { Some(TypeKind::Int(IntKind::UShort)) }
            else if k == CXType_Int { Some(TypeKind::Int(IntKind::Int)) } else if k == CXType_UInt { Some(TypeKind::Int(IntKind::UInt)) }
            else if k == CXType_Long { Some(TypeKind::Int(IntKind::Long)) } else if k == CXType_ULong { Some(TypeKind::Int(IntKind::ULong)) }
            else if k == CXType_LongLong { Some(TypeKind::Int(IntKind::LongLong)) } else if k == CXType_ULongLong { Some(TypeKind::Int(IntKind::ULongLong)) }
            else if k == CXType_Int128 { Some(TypeKind::Int(IntKind::I128)) } else if k == CXType_UInt128 { Some(TypeKind::Int(IntKind::U128)) }
            else if k == CXType_WChar { Some(TypeKind::Int(IntKind::WChar)) }
            else if k == CXType_Char16 { Some(TypeKind::Int(if ctx.o.use_distinct_char16_t { IntKind::Char16 } else { IntKind::U16 })) } else if k == CXType_Char32 { Some(TypeKind::Int(IntKind::U32)) }
            else if k == CXType_Complex { float_of(elem).map(TypeKind::Complex) }
            else if let Some(f) = float_of(k) { Some(TypeKind::Float(f)) } else { None };
        assert!(code(r) == code(want), "a builtin C type is classified as a different primitive (width / signedness / float format change)");
    }
}
