// C01: every helper type an emitted item refers to (__BindgenUnionField, __IncompleteArrayField, __BindgenBitfieldUnit, block / objc prologue)
// is defined, exactly once, where its uses look for it - for items nested in C++ namespaces to depth 3.
// Real code: struct CodegenResult, CodegenResult::{new, saw_*, inner}, Deref/DerefMut, impl CodeGenerator for Module.
// Module::codegen is recursive through Item::codegen; CBMC cannot bound that recursion separately from loops, so the impl is instantiated once per
// nesting level with the type names Module / Item / BindgenContext renamed to Module<L> / Item<L> / Ctx<L> (a rename only).
#![allow(warnings)]
use std::cell::Cell;
use std::ops;
use std::marker::PhantomData;
macro_rules! debug { ($($t:tt)*) => {} }
macro_rules! vec { () => { Vec::new() } }
/// a list of token streams, kept as its running summary (the order and identity of items is not part of this obligation)
pub struct Vec<T> { pub sum: T, pub n: usize }
pub trait Summary: Copy { const ZERO: Self; fn add(&mut self, other: &Self); }
impl<T: Summary> Vec<T> {
    pub fn new() -> Self { Vec { sum: T::ZERO, n: 0 } }
    pub fn push(&mut self, t: T) { self.sum.add(&t); self.n += 1; }
    pub fn insert(&mut self, _at: usize, t: T) { self.push(t) }
    pub fn extend(&mut self, other: Vec<T>) { self.sum.add(&other.sum); self.n += other.n; }
    pub fn append(&mut self, other: &mut Vec<T>) { self.sum.add(&other.sum); self.n += other.n; other.n = 0; other.sum = T::ZERO; }
}
impl Summary for proc_macro2::TokenStream { const ZERO: Self = proc_macro2::TokenStream::EMPTY; fn add(&mut self, x: &Self) { self.uses |= x.uses; self.defs += x.defs; self.inner_defs += x.inner_defs; self.deep_defs += x.deep_defs; } }
impl Summary for (ItemId, Option<WrapAsVariadic>) { const ZERO: Self = (ItemId(0), None); fn add(&mut self, _: &Self) {} }
impl<T: Summary> Default for Vec<T> { fn default() -> Self { Vec::new() } }
pub struct HashSet<T>(PhantomData<T>); impl<T> Default for HashSet<T> { fn default() -> Self { HashSet(PhantomData) } }
pub struct HashMap<K, V>(PhantomData<(K, V)>); impl<K, V> Default for HashMap<K, V> { fn default() -> Self { HashMap(PhantomData) } }
pub struct DynamicItems; impl DynamicItems { pub fn new() -> Self { DynamicItems } }
#[derive(Clone, Copy)] pub struct WrapAsVariadic;
#[derive(Clone, Copy, Debug, PartialEq, Eq)] pub struct ItemId(pub usize);
// helper kinds: 0 block, 1 union, 2 incomplete array, 3 float16, 4 complex, 5 opaque arrays, 6 objc, 7 bitfield unit
pub mod proc_macro2 {
    /// summary of a token stream: which helpers it USES (bit mask, anywhere inside), how many times each helper is DEFINED by this token itself (defs),
    /// directly inside this `mod` token (inner_defs), or deeper (deep_defs); 4-bit counter per helper kind
    #[derive(Clone, Copy, Debug)] pub struct TokenStream { pub uses: u8, pub defs: u32, pub inner_defs: u32, pub deep_defs: u32 }
    impl TokenStream {
        pub const EMPTY: TokenStream = TokenStream { uses: 0, defs: 0, inner_defs: 0, deep_defs: 0 };
        pub fn from_str(_: &super::RawLine) -> Result<TokenStream, ()> { Ok(TokenStream::EMPTY) }
    }
}
use proc_macro2::TokenStream;
/// `pub mod m { inner }`: what is defined directly inside becomes inner_defs, what was deeper becomes deep_defs
pub fn summarize(inner: &Vec<TokenStream>) -> TokenStream {
    let x = inner.sum;
    TokenStream { uses: x.uses, defs: 0, inner_defs: x.defs, deep_defs: x.inner_defs + x.deep_defs }
}
macro_rules! quote {
    (# [ $($a:tt)* ] pub mod # $i:ident { # ( # $v:ident ) * }) => { summarize(&$v) };
    (pub mod # $i:ident { # ( # $v:ident ) * }) => { summarize(&$v) };
}
pub struct RawLine;
pub struct PathV; impl PathV { pub fn join(&self, _: &str) -> PathS { PathS } }
pub struct PathS; impl PathS { pub fn into_boxed_str(self) -> Key { Key } }
pub struct Key;
pub struct ModuleLines { pub lines: [RawLine; 1], pub n: usize, pub present: bool }
impl ModuleLines { pub fn get(&self, _: &Key) -> Option<&[RawLine]> { if self.present { Some(&self.lines[..self.n]) } else { None } } }
pub struct Options { pub enable_cxx_namespaces: bool, pub conservative_inline_namespaces: bool, pub module_lines: ModuleLines }
pub struct ItemSet { pub present: [bool; 5] } impl ItemSet { pub fn contains(&self, id: &ItemId) -> bool { self.present[id.0] } }
pub struct Data { pub codegen_items: ItemSet, pub o: Options, pub f16: bool, pub complex: bool }
pub struct Name; pub struct Ident;
pub enum Never {}
/// a child of a module: a nested module (of the next level's type) or a leaf item using the helpers in its mask
pub enum Node<I> { Mod(I), Leaf(u8) }
pub trait CodeGenerator { type Extra; type Return; fn codegen(&self, ctx: &Self::Ctx, result: &mut CodegenResult<'_>, extra: &Self::Extra) -> Self::Return; type Ctx; }
/// a leaf item: emits one item that uses the helpers in its mask, and tells the result so - through the REAL saw_* methods
fn leaf(mask: u8, result: &mut CodegenResult<'_>) {
    if mask & 1 != 0 { result.saw_block(); }
    if mask & 2 != 0 { result.saw_bindgen_union(); }
    if mask & 4 != 0 { result.saw_incomplete_array(); }
    if mask & 64 != 0 { result.saw_objc(); }
    if mask & 128 != 0 { result.saw_bitfield_unit(); }
    let mut t = TokenStream::EMPTY; t.uses = mask; result.push(t);
    // a static function that received a binding named after its wrapper registers itself for the wrapper file (Function::codegen, checked under C16)
    unsafe { if LEAF_WRAPS { result.items_to_serialize.push((ItemId(4), None)); REGISTERED += 1; } }
}
pub static mut LEAF_WRAPS: bool = false; pub static mut REGISTERED: usize = 0;
macro_rules! level {
    ($Ctx:ident, $Item:ident, $Module:ident, $Child:ty) => {
        pub struct $Module { pub children: [ItemId; 1], pub inline: bool }
        impl $Module { pub fn children(&self) -> &[ItemId; 1] { &self.children } pub fn is_inline(&self) -> bool { self.inline } }
        pub struct $Item { pub id: ItemId, pub m: $Module, pub child: Node<$Child> }
        impl $Item {
            pub fn id(&self) -> ItemId { self.id }
            pub fn namespace_aware_canonical_path(&self, _: &$Ctx) -> PathV { PathV }
            pub fn canonical_name(&self, _: &$Ctx) -> Name { Name }
        }
        /// (raw pointers only to keep the sliced signatures `ctx: &Ctx<L>` free of lifetime parameters; they point to locals of the harness)
        pub struct $Ctx { pub d: *const Data, pub cur: *const $Item }
        impl $Ctx {
            pub fn data(&self) -> &Data { unsafe { &*self.d } }
            pub fn codegen_items(&self) -> &ItemSet { &self.data().codegen_items }
            pub fn resolve_item(&self, _: ItemId) -> Resolved<'_, $Child> { Resolved { node: unsafe { &(*self.cur).child } } }
            pub fn root_module(&self) -> ItemId { ItemId(0) }
            pub fn options(&self) -> &Options { &self.data().o }
            pub fn need_bindgen_float16_type(&self) -> bool { self.data().f16 }
            pub fn need_bindgen_complex_type(&self) -> bool { self.data().complex }
            pub fn rust_ident(&self, _: Name) -> Ident { Ident }
        }
    };
}
pub struct Resolved<'a, I> { pub node: &'a Node<I> }
level!(Ctx0, Item0, Module0, Item1);
level!(Ctx1, Item1, Module1, Item2);
level!(Ctx2, Item2, Module2, Never);
impl<'a> Resolved<'a, Item1> { pub fn codegen(&self, ctx: &Ctx0, result: &mut CodegenResult<'_>, _: &()) { match self.node { Node::Mod(it) => { let c = Ctx1 { d: ctx.d, cur: it as *const Item1 }; it.m.codegen(&c, result, it) } Node::Leaf(m) => leaf(*m, result) } } }
impl<'a> Resolved<'a, Item2> { pub fn codegen(&self, ctx: &Ctx1, result: &mut CodegenResult<'_>, _: &()) { match self.node { Node::Mod(it) => { let c = Ctx2 { d: ctx.d, cur: it as *const Item2 }; it.m.codegen(&c, result, it) } Node::Leaf(m) => leaf(*m, result) } } }
impl<'a> Resolved<'a, Never> { pub fn codegen(&self, ctx: &Ctx2, result: &mut CodegenResult<'_>, _: &()) { match self.node { Node::Mod(_) => {} Node::Leaf(m) => leaf(*m, result) } } }
pub fn root_import<C, I>(_: &C, _: &I) -> TokenStream { TokenStream::EMPTY }
pub mod utils {
    use super::*;
    fn def(result: &mut Vec<TokenStream>, k: usize) { let mut t = TokenStream::EMPTY; t.defs = 1 << (4 * k); result.insert(0, t); }
    pub fn prepend_block_header<C>(_: &C, r: &mut Vec<TokenStream>) { def(r, 0) }
    pub fn prepend_union_types<C>(_: &C, r: &mut Vec<TokenStream>) { def(r, 1) }
    pub fn prepend_incomplete_array_types<C>(_: &C, r: &mut Vec<TokenStream>) { def(r, 2) }
    pub fn prepend_float16_type(r: &mut Vec<TokenStream>) { def(r, 3) }
    pub fn prepend_complex_type(r: &mut Vec<TokenStream>) { def(r, 4) }
    pub fn prepend_opaque_array_types<C>(_: &C, r: &mut Vec<TokenStream>) { def(r, 5) }
    pub fn prepend_objc_header<C>(_: &C, r: &mut Vec<TokenStream>) { def(r, 6) }
    pub fn prepend_bitfield_unit_type<C>(_: &C, r: &mut Vec<TokenStream>) { def(r, 7) }
}
/*STRUCT*/
impl<'a> CodegenResult<'a> {
/*METHODS*/
}
/*DEREF*/
/*MODULE_CODEGEN_LEVELS*/
#[cfg(kani)]
mod proofs {
    use super::*;
    fn mask() -> u8 { let m: u8 = kani::any(); kani::assume(m & 0x38 == 0); m }   // float16 / complex / opaque arrays are not announced through the result
    /// root(0) -> child(1) -> child(2) -> leaf(3); `depth` (concrete) = number of modules on the chain (1..3)
    fn chain(depth: u8) {
        let d = Data { codegen_items: ItemSet { present: [true, kani::any(), kani::any(), kani::any(), kani::any()] },
            o: Options { enable_cxx_namespaces: kani::any(), conservative_inline_namespaces: kani::any(), module_lines: ModuleLines { lines: [RawLine], n: kani::any::<bool>() as usize, present: kani::any() } },
            f16: kani::any(), complex: kani::any() };
        let l2 = Item2 { id: ItemId(2), m: Module2 { children: [ItemId(3)], inline: kani::any() }, child: Node::Leaf(mask()) };
        let l1 = Item1 { id: ItemId(1), m: Module1 { children: [ItemId(2)], inline: kani::any() }, child: if depth >= 3 { Node::Mod(l2) } else { Node::Leaf(mask()) } };
        let root = Item0 { id: ItemId(0), m: Module0 { children: [ItemId(1)], inline: false }, child: if depth >= 2 { Node::Mod(l1) } else { Node::Leaf(mask()) } };
        unsafe { LEAF_WRAPS = kani::any(); REGISTERED = 0; }
        let id = Cell::new(0);
        let mut result = CodegenResult::new(&id);
        let c0 = Ctx0 { d: &d as *const Data, cur: &root as *const Item0 };
        root.m.codegen(&c0, &mut result, &root);
        let t = result.items.sum;
        let (uses, defs, inner, deep) = (t.uses, t.defs, t.inner_defs, t.deep_defs);
        let chk = |k: u32| {
            // with C++ namespaces everything lives in `pub mod root` and uses are spelled root::__Helper; without, at the top level
            let (dd, n) = ((defs >> (4 * k)) & 15, (inner >> (4 * k)) & 15);
            let (here, elsewhere) = if d.o.enable_cxx_namespaces { (n, dd) } else { (dd, n) };
            assert!(uses & (1 << k) == 0 || here >= 1, "an emitted item refers to a helper type that is never defined");
            assert!(here <= 1, "a helper type is defined twice");
            assert!(elsewhere == 0, "a helper type is defined where its uses do not look for it");
        };
        chk(0); chk(1); chk(2); chk(3); chk(4); chk(5); chk(6); chk(7);
        assert!(deep == 0, "a helper type is defined inside a nested module");
        assert!(result.items_to_serialize.n == unsafe { REGISTERED }, "a function registered for the static-function wrapper file inside a module is lost on the way up: its binding names a wrapper that is never written");
        kani::cover!(unsafe { REGISTERED } == 1, "a static function registered");
        kani::cover!(uses & 4 != 0, "some emitted item uses __IncompleteArrayField");
        kani::cover!(uses == 0, "nothing uses a helper");
        core::mem::forget(result);
    }
    #[kani::proof] #[kani::unwind(3)] fn helpers_defined_depth1() { chain(1) }
    #[kani::proof] #[kani::unwind(3)] fn helpers_defined_depth2() { chain(2) }
    #[kani::proof] #[kani::unwind(3)] fn helpers_defined_depth3() { chain(3) }
}
