// C16: the body of `impl CSerialize for Function` (from `let args = {` to the closing `}` line of the wrapper), real text, with the real
// serialize_args / serialize_sep.  Names are identities (Tok), every write! / writeln! records what it writes (one macro arm per literal).
// Listed rewrites: inline format captures `{name}` / `{count}` of two calls become positional (macro hygiene), `"ap".to_owned()` -> Tok::from("ap").
#![allow(warnings)]
pub const CAP: usize = 4;
#[derive(Clone, Copy, PartialEq, Eq, Debug, Default)] pub enum Tok { #[default] None, Named(u8), ArgN(usize), Ap, Lit }
impl From<&'static str> for Tok { fn from(s: &'static str) -> Tok { if s.len() == 2 { Tok::Ap } else { Tok::Lit } } }
pub type String = Tok;
#[derive(Clone, Copy, PartialEq, Eq, Debug, Default)] pub struct TypeId(pub u8);
#[derive(Debug)] pub struct CodegenError;
#[derive(Clone, Copy, PartialEq, Eq, Debug)]
pub enum Ev { RetTy, Header, Param(Tok), Void, Sep, OpenCall { ret: bool }, VarOpen, Indent, DeclRet, VaList, VaStart(Tok), RetAssign, Call, Fwd(Tok), CloseCall, VaEnd, ReturnRet, End }
/// what was written, sorted as it arrives (no event list to walk afterwards: every loop here is bounded by the parameter count)
pub struct Out { pub params: [Tok; CAP], pub np: usize, pub fwd: [Tok; CAP], pub nf: usize, pub va_start: Tok, pub void_params: bool, pub n: usize }
impl Out {
    pub fn new() -> Out { Out { params: [Tok::None; CAP], np: 0, fwd: [Tok::None; CAP], nf: 0, va_start: Tok::None, void_params: false, n: 0 } }
    pub fn rec(&mut self, e: Ev) { self.n += 1; match e { Ev::Param(t) => { assert!(self.np < CAP); self.params[self.np] = t; self.np += 1; } Ev::Fwd(t) => { assert!(self.nf < CAP); self.fwd[self.nf] = t; self.nf += 1; } Ev::VaStart(t) => self.va_start = t, Ev::Void => self.void_params = true, _ => {} } }
    pub fn write_all(&mut self, _: &[u8]) -> Result<(), CodegenError> { self.rec(Ev::Sep); Ok(()) } }
pub trait Write { } impl Write for Out {}
macro_rules! format { ("arg_{}", $c:expr) => { Tok::ArgN($c) }; ("{name}{}", $s:expr) => { Tok::Lit }; }
macro_rules! write {
    ($w:expr, "void") => {{ $w.rec(Ev::Void); Ok::<(), CodegenError>(()) }};
    ($w:expr, " {wrap_name}(") => {{ $w.rec(Ev::Header); Ok::<(), CodegenError>(()) }};
    ($w:expr, ") {{ {name}(") => {{ $w.rec(Ev::OpenCall { ret: false }); Ok::<(), CodegenError>(()) }};
    ($w:expr, ") {{ return {name}(") => {{ $w.rec(Ev::OpenCall { ret: true }); Ok::<(), CodegenError>(()) }};
    ($w:expr, "{INDENT}") => {{ $w.rec(Ev::Indent); Ok::<(), CodegenError>(()) }};
    ($w:expr, "ret = ") => {{ $w.rec(Ev::RetAssign); Ok::<(), CodegenError>(()) }};
    ($w:expr, "{name}(") => {{ $w.rec(Ev::Call); Ok::<(), CodegenError>(()) }};
    ($w:expr, "{}", $n:expr) => {{ $w.rec(Ev::Fwd(*$n)); Ok::<(), CodegenError>(()) }};
    ($w:expr, ");{}", $e:expr) => {{ let _ = $e; $w.rec(Ev::CloseCall); Ok::<(), CodegenError>(()) }};
}
macro_rules! writeln {
    ($w:expr, ", ...) {{") => {{ $w.rec(Ev::VarOpen); Ok::<(), CodegenError>(()) }};
    ($w:expr, " ret;") => {{ $w.rec(Ev::DeclRet); Ok::<(), CodegenError>(()) }};
    ($w:expr, "{INDENT}va_list ap;\n") => {{ $w.rec(Ev::VaList); Ok::<(), CodegenError>(()) }};
    ($w:expr, "{INDENT}va_start(ap, {});", $e:expr $(,)?) => {{ $w.rec(Ev::VaStart($e)); Ok::<(), CodegenError>(()) }};
    ($w:expr, "{INDENT}va_end(ap);") => {{ $w.rec(Ev::VaEnd); Ok::<(), CodegenError>(()) }};
    ($w:expr, "{INDENT}return ret;") => {{ $w.rec(Ev::ReturnRet); Ok::<(), CodegenError>(()) }};
    ($w:expr, "}}") => {{ $w.rec(Ev::End); Ok::<(), CodegenError>(()) }};
}
// ---- containers: Vec with contiguous storage (it derefs to a slice for serialize_args) ------------------------------------------
#[derive(Clone, Copy, Debug)] pub struct Vec<T: Copy + Default> { pub a: [T; CAP], pub n: usize }
impl<T: Copy + Default> Vec<T> {
    pub fn new() -> Self { Vec { a: [T::default(); CAP], n: 0 } }
    pub fn push(&mut self, t: T) { assert!(self.n < CAP, "stub Vec capacity"); self.a[self.n] = t; self.n += 1; }
    pub fn insert(&mut self, at: usize, t: T) { assert!(self.n < CAP && at <= self.n, "insert out of range"); let mut i = CAP - 1; while i > 0 { if i > at && i <= self.n { self.a[i] = self.a[i - 1]; } i -= 1; } self.a[at] = t; self.n += 1; }
    pub fn last(&self) -> Option<&T> { if self.n == 0 { None } else { Some(&self.a[self.n - 1]) } }
    pub fn is_empty(&self) -> bool { self.n == 0 }
    pub fn iter(&self) -> VIter<'_, T> { VIter { v: self, i: 0 } }
}
pub struct VIter<'a, T: Copy + Default> { v: &'a Vec<T>, i: usize }
impl<'a, T: Copy + Default> Iterator for VIter<'a, T> { type Item = &'a T; fn next(&mut self) -> Option<&'a T> { if self.i >= CAP { return None; } let k = self.i; self.i += 1; if k < self.v.n { Some(&self.v.a[k]) } else { None } } }
pub struct VInto<T: Copy + Default> { v: Vec<T>, i: usize }
impl<T: Copy + Default> Iterator for VInto<T> { type Item = T; fn next(&mut self) -> Option<T> { if self.i >= CAP { return None; } let k = self.i; self.i += 1; if k < self.v.n { Some(self.v.a[k]) } else { None } } }
impl<T: Copy + Default> IntoIterator for Vec<T> { type Item = T; type IntoIter = VInto<T>; fn into_iter(self) -> VInto<T> { VInto { v: self, i: 0 } } }
impl<T: Copy + Default> core::iter::FromIterator<T> for Vec<T> { fn from_iter<I: IntoIterator<Item = T>>(it: I) -> Self { let mut v = Vec::new(); for x in it { v.push(x); } v } }
impl<T: Copy + Default> core::ops::Deref for Vec<T> { type Target = [T]; fn deref(&self) -> &[T] { &self.a[..self.n] } }
macro_rules! vec { ($x:expr) => {{ let mut v = Vec::new(); v.push($x); v }} }
// ---- the signature's argument list and the adaptor chain `.iter().cloned().enumerate().filter_map(..)`; all inherent and eager: with the std adaptors
// the position counter becomes data dependent once the pruned index is symbolic (see DESIGN section 8) -------------------------------------------------
pub type Arg = (Option<Tok>, TypeId);
pub struct ArgList { pub a: [Arg; CAP], pub n: usize }
pub struct A1<'a> { l: &'a ArgList }
pub struct A2<'a> { l: &'a ArgList }
pub struct A3<'a> { l: &'a ArgList }
impl ArgList { pub fn iter(&self) -> A1<'_> { A1 { l: self } } pub fn len(&self) -> usize { self.n } }
impl<'a> A1<'a> { pub fn cloned(self) -> A2<'a> { A2 { l: self.l } }
    pub fn filter_map<B: Copy + Default, F: FnMut(&'a Arg) -> Option<B>>(self, mut f: F) -> VInto<B> { let mut v = Vec::new(); let mut k = 0; while k < CAP { if k < self.l.n { if let Some(b) = f(&self.l.a[k]) { v.push(b); } } k += 1; } VInto { v, i: 0 } } }
impl<'a> A2<'a> { pub fn enumerate(self) -> A3<'a> { A3 { l: self.l } } }
impl<'a> A3<'a> { pub fn filter_map<B: Copy + Default, F: FnMut((usize, Arg)) -> Option<B>>(self, mut f: F) -> VInto<B> { let mut v = Vec::new(); let mut k = 0; while k < CAP { if k < self.l.n { if let Some(b) = f((k, self.l.a[k])) { v.push(b); } } k += 1; } VInto { v, i: 0 } } }
pub struct FunctionSig { pub args: ArgList, pub ret: TypeId }
impl FunctionSig { pub fn argument_types(&self) -> &ArgList { &self.args } pub fn return_type(&self) -> TypeId { self.ret } pub fn is_variadic(&self) -> bool { false } }
pub struct WrapAsVariadic { pub new_name: Tok, pub idx_of_va_list_arg: usize }
pub struct Type { pub void: bool }
impl Type { pub fn is_void(&self) -> bool { self.void } pub fn serialize(&self, _: &BindgenContext, _: &Item, _: &mut Vec<Tok>, w: &mut Out) -> Result<(), CodegenError> { w.rec(Ev::RetTy); Ok(()) } }
pub struct Item { pub ty: Type } impl Item { pub fn expect_type(&self) -> &Type { &self.ty } }
pub struct BindgenContext { pub ret: Item }
impl BindgenContext { pub fn wrap_static_fns_suffix(&self) -> Tok { Tok::Lit } pub fn resolve_item(&self, _: TypeId) -> &Item { &self.ret } }
impl TypeId { pub fn serialize(&self, _: &BindgenContext, _: (), stack: &mut Vec<Tok>, w: &mut Out) -> Result<(), CodegenError> { w.rec(Ev::Param(stack.a[0])); Ok(()) } }
/*SERIALIZE_ARGS*/
/*SERIALIZE_SEP*/
pub struct Function { pub nm: Tok } impl Function { pub fn name(&self) -> Tok { self.nm } }
impl Function {
    pub fn wrapper_body(&self, ctx: &BindgenContext, signature: &FunctionSig, wrap_as_variadic: &Option<WrapAsVariadic>, stack: &mut Vec<Tok>, writer: &mut Out) -> Result<(), CodegenError> {
        let name = self.name();
/*BODY*/
    }
}
#[cfg(kani)]
mod proofs {
    use super::*;
    #[kani::proof] #[kani::unwind(7)]
    fn wrapper_forwards_every_parameter_in_its_place() {
        let n: usize = kani::any(); kani::assume(n <= 3);
        let mut a = [(None, TypeId(0)); CAP]; let mut i = 0;
        // a parameter is unnamed, has an ordinary name, or is itself called `arg_<k>` by the user (names given by the user are pairwise distinct, as C requires)
        while i < CAP { if i < n { let k: u8 = kani::any(); kani::assume(k <= 2); a[i] = (match k { 0 => None, 1 => Some(Tok::Named(10 + i as u8)), _ => { let j: usize = kani::any(); kani::assume(j <= 2); Some(Tok::ArgN(j)) } }, TypeId(i as u8)); } i += 1; }
        let mut x = 0; while x < CAP { let mut y = x + 1; while y < CAP { if y < n { if let (Some(p), Some(q)) = (a[x].0, a[y].0) { kani::assume(p != q); } } y += 1; } x += 1; }
        let sig = FunctionSig { args: ArgList { a, n }, ret: TypeId(9) };
        let variadic: bool = kani::any(); let idx: usize = kani::any();
        kani::assume(!variadic || (n >= 2 && idx < n));           // utils::wrap_as_variadic_fn: at least two parameters, exactly one of them a va_list
        let wav = if variadic { Some(WrapAsVariadic { new_name: Tok::Lit, idx_of_va_list_arg: idx }) } else { None };
        let ctx = BindgenContext { ret: Item { ty: Type { void: kani::any() } } };
        let mut out = Out::new(); let mut stack = Vec::new();
        let r = Function { nm: Tok::Lit }.wrapper_body(&ctx, &sig, &wav, &mut stack, &mut out);
        assert!(r.is_ok());
        // ---- read the events back ----
        let (params, np, fwd, nf, va_start, void_params) = (out.params, out.np, out.fwd, out.nf, out.va_start, out.void_params);
        // the wrapper's own parameters: the original ones except the va_list, in order; unnamed ones get arg_0, arg_1, .. in order
        let mut exp = [Tok::None; CAP]; let mut m = 0; let mut unnamed = 0; let mut i = 0;
        while i < CAP { if i < n && !(variadic && i == idx) { exp[m] = match a[i].0 { Some(t) => t, None => Tok::None }; m += 1; } i += 1; }
        assert!(np == m && void_params == (m == 0), "the wrapper does not declare exactly the wrapped function's parameters (minus the va_list)");
        let mut i = 0; while i < CAP { if i < m { if exp[i] == Tok::None { assert!(matches!(params[i], Tok::ArgN(_)), "an unnamed parameter did not get a made-up name"); exp[i] = params[i]; } else { assert!(params[i] == exp[i], "wrapper parameter differs from the wrapped function's"); } } i += 1; }
        // C rejects two parameters of one name
        let mut x = 0; while x < CAP { let mut y = x + 1; while y < CAP { if y < np { assert!(params[x] != params[y], "the wrapper declares two parameters of the same name (the name made up for an unnamed parameter collides with a parameter the user called arg_<k>): the wrapper source does not compile"); } y += 1; } x += 1; }
        // the forwarded call: every original parameter at its original position, `ap` where the va_list was
        assert!(nf == n, "the forwarded call does not pass as many arguments as the wrapped function takes");
        let mut j = 0; let mut i = 0;
        while i < CAP { if i < n { if variadic && i == idx { assert!(fwd[i] == Tok::Ap, "`ap` is not passed at the position of the va_list parameter"); } else { assert!(fwd[i] == exp[j], "an argument is forwarded at another position than the parameter it came from"); j += 1; } } i += 1; }
        if variadic { assert!(va_start == exp[m - 1], "va_start does not name the last named parameter of the wrapper"); }
        kani::cover!(variadic && idx == 0, "va_list first"); kani::cover!(variadic && idx + 1 < n, "va_list not last"); kani::cover!(!variadic && n == 0, "no parameters");
    }
}
