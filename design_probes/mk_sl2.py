# Feasibility probe (not framework): splice codegen/struct_layout.rs + ir/layout.rs
# unchanged against a stub environment; 2-member natural-layout harness per
# alignment tuple. Measured: 2-5 s per instance (DESIGN.md 2.7).
import re, os
os.makedirs('/tmp/probe/sl2/src', exist_ok=True)
os.chdir('/tmp/probe/sl2')
open('Cargo.toml', 'w').write('[package]\nname = "slprobe"\nversion = "0.0.0"\nedition = "2021"\n[workspace]\n[dependencies]\n')

def strip_uses(s):
    return '\n'.join(l for l in s.split('\n') if not re.match(r'^use\s', l))

layout = re.sub(r'^//!.*$', '', strip_uses(open('/repo/bindgen/ir/layout.rs').read()), flags=re.M)
sl = re.sub(r'^//!.*$', '', strip_uses(open('/repo/bindgen/codegen/struct_layout.rs').read()), flags=re.M)
prelude = r'''
#![allow(warnings)]
macro_rules! debug { ($($t:tt)*) => {} }
macro_rules! warn { ($($t:tt)*) => {} }
macro_rules! trace { ($($t:tt)*) => {} }
macro_rules! format { ($($t:tt)*) => { String::new() } }
macro_rules! quote {
    (# $vis:ident # $name:ident : # $ty:ident ,) => { proc_macro2::TokenStream::Field($ty.clone()) };
    ($($t:tt)*) => { proc_macro2::TokenStream::Other };
}
pub mod proc_macro2 {
    #[derive(Debug, Clone, Copy)] pub struct Ident;
    #[derive(Debug, Clone, Copy)] pub struct Span;
    impl Span { pub fn call_site() -> Span { Span } }
    impl Ident { pub fn new(_: &str, _: Span) -> Ident { Ident } }
    #[derive(Debug, Clone, Copy)] pub enum TokenStream { Field(crate::syn::Type), Other }
}
pub mod syn {
    #[derive(Debug, Clone, Copy, PartialEq, Eq)]
    pub struct Type { pub size: usize, pub align: usize }
    macro_rules! parse_quote {
        (u128) => { crate::syn::Type{size:16, align:16} };
        (u64) => { crate::syn::Type{size:8, align:8} };
        (u32) => { crate::syn::Type{size:4, align:4} };
        (u16) => { crate::syn::Type{size:2, align:2} };
        (u8) => { crate::syn::Type{size:1, align:1} };
    }
    pub(crate) use parse_quote;
}
use proc_macro2::{Ident, Span};
use std::cmp;
#[derive(Debug, Clone, Copy, PartialEq, Eq, PartialOrd, Ord)]
pub enum FieldVisibilityKind { Private, PublicCrate, Public }
#[derive(Debug, Clone, Copy)] pub struct Vis;
pub fn access_specifier(_: FieldVisibilityKind) -> Vis { Vis }
#[derive(Debug)] pub struct Options { pub force_explicit_padding: bool }
#[derive(Debug)] pub struct BindgenContext { pub opts: Options, pub ptr_size: usize }
impl BindgenContext {
    pub fn options(&self) -> &Options { &self.opts }
    pub fn target_pointer_size(&self) -> usize { self.ptr_size }
    pub fn resolve_type(&self, t: &'static Type) -> &'static Type { t }
}
#[derive(Debug)] pub struct CompInfo { pub union_: bool, pub rust_union: (bool,bool) }
impl CompInfo {
    pub fn is_union(&self) -> bool { self.union_ }
    pub fn is_rust_union(&self, _: &BindgenContext, _: Option<&Layout>, _: &str) -> (bool,bool) { self.rust_union }
}
#[derive(Debug)] pub enum TypeKind { Int, Comp, Array(&'static Type, usize) }
#[derive(Debug)] pub struct Type { pub layout: Option<Layout>, pub kind: TypeKind }
impl Type {
    pub fn layout(&self, _: &BindgenContext) -> Option<Layout> { self.layout }
    pub fn canonical_type(&self, _: &BindgenContext) -> &Type { self }
    pub fn kind(&self) -> &TypeKind { &self.kind }
}
pub mod helpers {
    use super::*;
    // stub blob: a type with exactly the requested layout (the real blob is a separate kernel)
    pub fn blob(_: &BindgenContext, l: Layout, _: bool) -> syn::Type { syn::Type { size: l.size, align: if l.align == 0 {1} else {l.align} } }
}
'''
harness = r'''
#[cfg(kani)]
mod proofs {
    use super::*;
    use super::struct_layout::*;
    fn up(x: usize, a: usize) -> usize { (x + a - 1) / a * a }
    fn mn(a: usize, b: usize) -> usize { if a < b { a } else { b } }
    fn mx(a: usize, b: usize) -> usize { if a > b { a } else { b } }
    fn field(ts: Option<proc_macro2::TokenStream>) -> Option<syn::Type> {
        match ts { Some(proc_macro2::TokenStream::Field(t)) => Some(t), _ => None }
    }
    // Rust repr(C[, packed(n)]) placement of one field; n == 0 means not packed
    fn place(cur: &mut usize, maxa: &mut usize, size: usize, align: usize, n: usize) -> usize {
        let a = if n == 0 { align } else { mn(align, n) };
        let off = up(*cur, a); *cur = off + size; if a > *maxa { *maxa = a; } off
    }
    // P: 0 = no pragma pack, otherwise #pragma pack(P) / attribute packed for P == 1
    fn case<const A0: usize, const A1: usize, const P: usize>() {
        let k0: usize = kani::any(); let k1: usize = kani::any();
        kani::assume(k0 >= 1 && k0 <= 8 && k1 >= 1 && k1 <= 8);
        let s0 = k0 * A0; let s1 = k1 * A1;
        let e0 = if P == 0 { A0 } else { mn(A0, P) };
        let e1 = if P == 0 { A1 } else { mn(A1, P) };
        let sa = mx(e0, e1);
        let off0 = 0usize; let off1 = up(s0, e1); let size = up(off1 + s1, sa);
        let packed_attr: bool = if P == 1 { kani::any() } else { false };
        let ctx = BindgenContext { opts: Options { force_explicit_padding: kani::any() }, ptr_size: 8 };
        let comp = CompInfo { union_: false, rust_union: (false, false) };
        let layout = Layout::new(size, sa);
        let ty = Type { layout: Some(layout), kind: TypeKind::Comp };
        // --- driver model, parallel to CompInfo::codegen (codegen/mod.rs 2203-2501) ---
        // CompInfo::is_packed
        let mut packed = packed_attr || A0 > sa || A1 > sa;
        let mut t = StructLayoutTracker::new(&ctx, &comp, &ty, "s", FieldVisibilityKind::Public, packed);
        let p0 = field(t.saw_field_with_layout("a", Layout::new(s0, A0), Some(off0 * 8)));
        let p1 = field(t.saw_field_with_layout("b", Layout::new(s1, A1), Some(off1 * 8)));
        let tail = field(t.add_tail_padding("s", layout));
        let pad = field(t.pad_struct(layout));
        let mut explicit_align = 0usize;
        if t.requires_explicit_align(layout) { if layout.align == 1 { packed = true; } else { explicit_align = layout.align; } }
        // CompInfo::already_packed
        let already_packed = !(A0 != 0 && 0 % A0 != 0) && !(A1 != 0 && s0 % A1 != 0);
        let n = if packed && !(explicit_align != 0 && already_packed) { layout.align } else { 0 };
        // --- Rust side ---
        let mut cur = 0usize; let mut maxa = 1usize;
        if let Some(p) = p0 { place(&mut cur, &mut maxa, p.size, p.align, n); }
        let r0 = place(&mut cur, &mut maxa, s0, A0, n);
        if let Some(p) = p1 { place(&mut cur, &mut maxa, p.size, p.align, n); }
        let r1 = place(&mut cur, &mut maxa, s1, A1, n);
        if let Some(p) = tail { place(&mut cur, &mut maxa, p.size, p.align, n); }
        if let Some(p) = pad { place(&mut cur, &mut maxa, p.size, p.align, n); }
        if explicit_align > maxa { maxa = explicit_align; }
        let rsize = up(cur, maxa);
        assert!(r0 == off0);
        assert!(r1 == off1);
        assert!(rsize == size);
        assert!(maxa == sa);
        kani::cover!(n != 0);
        kani::cover!(pad.is_some());
    }
INSTANCES
}
'''
inst = []
for a0 in (1,2,4,8):
    for a1 in (1,2,4,8):
        for p in (0,1,2):
            inst.append("    #[kani::proof] fn c_%d_%d_p%d() { case::<%d, %d, %d>() }" % (a0,a1,p,a0,a1,p))
harness = harness.replace("INSTANCES", "\n".join(inst))
src = (prelude + "\npub mod layout_mod { use super::*; " + layout + "}\npub(crate) use layout_mod::Layout;\n"
       + "pub mod struct_layout { use super::*; " + sl + "}\n" + harness)
open('src/lib.rs', 'w').write(src)
