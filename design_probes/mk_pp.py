import re, os, sys
from slicer import *
os.chdir('/tmp/probe/pp')
open('Cargo.toml','w').write('[package]\nname = "ppprobe"\nversion = "0.0.0"\nedition = "2021"\n[workspace]\n[dependencies]\n')
merge = extract('codegen/postprocessing/merge_extern_blocks.rs', r'^fn visit_items\(items: &mut Vec<Item>\) \{')
sort_ = extract('codegen/postprocessing/sort_semantically.rs', r'^fn visit_items\(items: &mut \[Item\]\) \{')
prelude = r'''
#![allow(warnings)]
pub const K: usize = 4;
#[derive(Clone, Copy, Debug, PartialEq, Eq, Default)] pub struct ForeignItem(pub u8);
#[derive(Clone, Copy, Debug, PartialEq, Eq, Default)] pub struct Tok;
#[derive(Clone, Copy, Debug, PartialEq, Eq, Default)]
pub struct ItemForeignMod { pub attrs: u8, pub abi: u8, pub brace_token: Tok, pub unsafety: bool, pub items: Vec<ForeignItem> }
#[derive(Clone, Copy, Debug, PartialEq, Eq)]
pub enum Item { Type(u8), Struct(u8), Const(u8), Fn(u8), Enum(u8), Union(u8), Static(u8), Trait(u8), TraitAlias(u8), Impl(u8), Mod(u8), Use(u8), Verbatim(u8), ExternCrate(u8), ForeignMod(ItemForeignMod), Macro(u8), Other(u8) }
impl Default for Item { fn default() -> Self { Item::Other(0) } }
#[derive(Clone, Copy, Debug, PartialEq, Eq)]
pub struct Vec<T> { pub buf: [T; K], pub len: usize }
impl<T: Copy + Default> Default for Vec<T> { fn default() -> Self { Vec { buf: [T::default(); K], len: 0 } } }
impl<T: Copy + Default> Vec<T> {
    pub fn new() -> Self { Self::default() }
    pub fn push(&mut self, t: T) { assert!(self.len < K); self.buf[self.len] = t; self.len += 1; }
    pub fn extend_from_slice(&mut self, s: &Vec<T>) { let mut i = 0; while i < K { if i < s.len { self.push(s.buf[i]); } i += 1; } }
}
pub struct IntoIt<T> { v: Vec<T>, i: usize }
impl<T: Copy> Iterator for IntoIt<T> { type Item = T; fn next(&mut self) -> Option<T> { if self.i >= K { return None; } let k = self.i; self.i += 1; if k < self.v.len { Some(self.v.buf[k]) } else { None } } }
impl<T: Copy> IntoIterator for Vec<T> { type Item = T; type IntoIter = IntoIt<T>; fn into_iter(self) -> IntoIt<T> { IntoIt { v: self, i: 0 } } }
pub struct MutIt<'a, T> { v: *mut Vec<T>, i: usize, _p: core::marker::PhantomData<&'a mut T> }
impl<'a, T> Iterator for MutIt<'a, T> { type Item = &'a mut T; fn next(&mut self) -> Option<&'a mut T> { if self.i >= K { return None; } let k = self.i; self.i += 1; unsafe { if k < (*self.v).len { Some(&mut (*self.v).buf[k]) } else { None } } } }
impl<'a, T> IntoIterator for &'a mut Vec<T> { type Item = &'a mut T; type IntoIter = MutIt<'a, T>; fn into_iter(self) -> MutIt<'a, T> { MutIt { v: self, i: 0, _p: core::marker::PhantomData } } }
'''
harness = r'''
#[cfg(kani)]
mod proofs {
    use super::*;
    fn any_item(id: u8) -> Item {
        let t: u8 = kani::any();
        match t {
            0 => Item::Type(id), 1 => Item::Struct(id), 2 => Item::Const(id), 3 => Item::Impl(id), 4 => Item::Use(id),
            _ => { kani::assume(t == 5); let mut fi = Vec::new(); fi.push(ForeignItem(id)); Item::ForeignMod(ItemForeignMod { attrs: kani::any::<u8>() & 1, abi: kani::any::<u8>() & 1, brace_token: Tok, unsafety: false, items: fi }) }
        }
    }
    #[kani::proof]
    #[kani::unwind(6)]
    fn merge_preserves() {
        let n: usize = kani::any(); kani::assume(n <= 3);
        let mut v: Vec<Item> = Vec::new();
        let mut i = 0u8; while (i as usize) < 3 { if (i as usize) < n { v.push(any_item(i + 1)); } i += 1; }
        let orig = v;
        merge::run(&mut v);
        // every original non-foreign item appears once, in the same relative order, before all foreign blocks
        let mut id = 1u8;
        while id <= 3 {
            if (id as usize) <= n {
                // find where id ended up
                let mut cnt = 0; let mut k = 0;
                while k < K { if k < v.len { match v.buf[k] { Item::ForeignMod(m) => { let mut j = 0; while j < K { if j < m.items.len && m.items.buf[j].0 == id { cnt += 1;
                        // same attrs/abi as its original block
                        if let Item::ForeignMod(o) = orig.buf[(id - 1) as usize] { assert!(o.attrs == m.attrs && o.abi == m.abi); } else { assert!(false); } } j += 1; } }
                    Item::Type(x) | Item::Struct(x) | Item::Const(x) | Item::Impl(x) | Item::Use(x) => { if x == id { cnt += 1; assert!(v.buf[k] == orig.buf[(id - 1) as usize]); } }
                    _ => {} } } k += 1; }
                assert!(cnt == 1);
            }
            id += 1;
        }
        // idempotent
        let once = v; merge::run(&mut v); assert!(v == once);
    }
    fn rank(i: &Item) -> u8 { match i { Item::Type(_) => 0, Item::Struct(_) => 1, Item::Const(_) => 2, Item::Impl(_) => 9, Item::Use(_) => 11, Item::ForeignMod(_) => 14, _ => 18 } }
    fn idof(i: &Item) -> u8 { match i { Item::Type(x) | Item::Struct(x) | Item::Const(x) | Item::Impl(x) | Item::Use(x) => *x, Item::ForeignMod(m) => m.items.buf[0].0, _ => 0 } }
    #[kani::proof]
    #[kani::unwind(6)]
    fn sort_is_stable_by_rank() {
        let mut a = [any_item(1), any_item(2), any_item(3)];
        sort::run(&mut a);
        assert!(rank(&a[0]) <= rank(&a[1]) && rank(&a[1]) <= rank(&a[2]));
        assert!(rank(&a[0]) != rank(&a[1]) || idof(&a[0]) < idof(&a[1]));
        assert!(rank(&a[1]) != rank(&a[2]) || idof(&a[1]) < idof(&a[2]));
        let s = idof(&a[0]) as u32 + idof(&a[1]) as u32 + idof(&a[2]) as u32; assert!(s == 6);
        assert!(idof(&a[0]) != idof(&a[1]) && idof(&a[1]) != idof(&a[2]) && idof(&a[0]) != idof(&a[2]));
    }
}
'''
src = prelude + "\npub mod merge { use super::*; " + merge + " pub fn run(items: &mut Vec<Item>) { visit_items(items) } }\npub mod sort { use super::*; " + sort_ + " pub fn run(items: &mut [Item]) { visit_items(items) } }\n" + harness
open('src/lib.rs','w').write(src)
