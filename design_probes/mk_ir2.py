import re, os, sys
R='/repo/bindgen/'
VAR=sys.argv[1]
D='/tmp/probe/ir_'+VAR
os.makedirs(D+'/src', exist_ok=True)
os.chdir(D)
open('Cargo.toml','w').write('''[package]
name = "irprobe"
version = "0.0.0"
edition = "2021"
[workspace]
[dependencies]
''')

def skip_ws_comments(s, i):
    return i

def match_brace(s, i):
    """s[i] == '{'; return index just after matching '}' (aware of strings, chars, comments)."""
    depth = 0
    n = len(s)
    while i < n:
        c = s[i]
        if s.startswith('//', i):
            i = s.index('\n', i)
            continue
        if s.startswith('/*', i):
            i = s.index('*/', i) + 2
            continue
        if c == '"':
            i += 1
            while s[i] != '"':
                if s[i] == '\\': i += 1
                i += 1
            i += 1
            continue
        if c == "'":
            # char literal or lifetime
            m = re.match(r"'(\\.|[^\\'])'", s[i:])
            if m:
                i += m.end()
                continue
            i += 1
            continue
        if c == '{':
            depth += 1
        elif c == '}':
            depth -= 1
            if depth == 0:
                return i + 1
        i += 1
    raise Exception('unbalanced')

def extract(path, header_regex):
    s = open(R + path).read()
    m = re.search(header_regex, s, flags=re.M)
    if not m:
        raise Exception('not found: %s in %s' % (header_regex, path))
    start = m.start()
    # include preceding attributes / doc comments
    b = s.index('{', m.end() - 1) if s[m.end()-1] != '{' else m.end() - 1
    end = match_brace(s, b)
    return s[start:end]

def strip_uses(s):
    s = re.sub(r'^//!.*$', '', s, flags=re.M)
    s = re.sub(r'^(pub(\(crate\))? )?use (crate|super|self)\b[^;]*;', '', s, flags=re.M | re.S)
    s = re.sub(r'^mod \w+;', '', s, flags=re.M)
    return s

prelude = r'''
#![allow(warnings)]
macro_rules! trace { ($($t:tt)*) => {} }
macro_rules! debug { ($($t:tt)*) => {} }
macro_rules! warn { ($($t:tt)*) => {} }

pub const N: usize = 3;       // items 1..=N are types; item 0 is the root module
pub const NI: usize = N + 1;

#[derive(Copy, Clone, Debug, PartialEq, Eq, PartialOrd, Ord, Hash, Default)]
pub struct ItemId(pub usize);
#[derive(Copy, Clone, Debug, PartialEq, Eq, PartialOrd, Ord, Hash, Default)]
pub struct TypeId(pub ItemId);
impl From<TypeId> for ItemId { fn from(t: TypeId) -> ItemId { t.0 } }
impl From<&TypeId> for ItemId { fn from(t: &TypeId) -> ItemId { t.0 } }
#[derive(Copy, Clone, Debug, PartialEq, Eq, Default)] pub struct FunctionId(pub ItemId);
impl From<FunctionId> for ItemId { fn from(t: FunctionId) -> ItemId { t.0 } }
impl From<&FunctionId> for ItemId { fn from(t: &FunctionId) -> ItemId { t.0 } }
#[derive(Copy, Clone, Debug, PartialEq, Eq, Default)] pub struct VarId(pub ItemId);
impl From<VarId> for ItemId { fn from(t: VarId) -> ItemId { t.0 } }


pub const CAP: usize = 12;
#[derive(Clone, Debug)]
pub struct Vec<T> { buf: [Option<T>; CAP], len: usize }
impl<T: Copy> Vec<T> {
    pub fn new() -> Self { Vec { buf: [None; CAP], len: 0 } }
    pub fn push(&mut self, t: T) { assert!(self.len < CAP, "stub Vec capacity"); self.buf[self.len] = Some(t); self.len += 1; }
    pub fn pop(&mut self) -> Option<T> { if self.len == 0 { None } else { self.len -= 1; self.buf[self.len] } }
}
pub struct VecIter<'a, T> { v: &'a Vec<T>, i: usize }
impl<'a, T> Iterator for VecIter<'a, T> { type Item = &'a T; fn next(&mut self) -> Option<&'a T> { if self.i >= CAP { return None; } let k = self.i; self.i += 1; if k < self.v.len { self.v.buf[k].as_ref() } else { None } } }
impl<'a, T> IntoIterator for &'a Vec<T> { type Item = &'a T; type IntoIter = VecIter<'a, T>; fn into_iter(self) -> Self::IntoIter { VecIter { v: self, i: 0 } } }
impl<T: Copy> core::iter::FromIterator<T> for Vec<T> { fn from_iter<I: IntoIterator<Item = T>>(it: I) -> Self { let mut v = Vec::new(); for x in it { v.push(x); } v } }

// ---- tiny containers (array backed, keyed by ItemId) ----
#[derive(Clone, Debug)]
pub struct HashSet<K> { pub present: [bool; NI], _k: core::marker::PhantomData<K> }
impl Default for HashSet<ItemId> { fn default() -> Self { HashSet { present: [false; NI], _k: core::marker::PhantomData } } }
impl HashSet<ItemId> {
    pub fn insert(&mut self, k: ItemId) -> bool { let was = self.present[k.0]; self.present[k.0] = true; !was }
    pub fn contains(&self, k: &ItemId) -> bool { self.present[k.0] }
}
#[derive(Clone, Debug)]
pub struct HashMap<K, V> { vals: [Option<V>; NI], _k: core::marker::PhantomData<K> }
impl<V> Default for HashMap<ItemId, V> { fn default() -> Self { HashMap { vals: core::array::from_fn(|_| None), _k: core::marker::PhantomData } } }
pub struct EntryRef<'a, V> { slot: &'a mut Option<V> }
impl<'a, V> EntryRef<'a, V> {
    pub fn or_insert_with<F: FnOnce() -> V>(self, f: F) -> &'a mut V { if self.slot.is_none() { *self.slot = Some(f()); } self.slot.as_mut().unwrap() }
}
impl<V> HashMap<ItemId, V> {
    pub fn entry(&mut self, k: ItemId) -> EntryRef<'_, V> { EntryRef { slot: &mut self.vals[k.0] } }
    pub fn get(&self, k: &ItemId) -> Option<&V> { self.vals[k.0].as_ref() }
}
#[derive(Clone, Debug)]
pub struct ItemSet { present: [bool; NI], ids: [ItemId; NI] }
impl ItemSet {
    pub fn all() -> Self { ItemSet { present: [true; NI], ids: core::array::from_fn(|i| ItemId(i)) } }
    pub fn contains(&self, k: &ItemId) -> bool { self.present[k.0] }
    pub fn iter(&self) -> core::slice::Iter<'_, ItemId> { self.ids.iter() }
}
impl<'a> IntoIterator for &'a ItemSet { type Item = &'a ItemId; type IntoIter = core::slice::Iter<'a, ItemId>; fn into_iter(self) -> Self::IntoIter { self.ids.iter() } }


#[derive(Clone, Debug)]
pub struct List<T, const K: usize> { pub a: [T; K], pub n: usize }
pub struct ListIter<'a, T, const K: usize> { l: &'a List<T, K>, i: usize }
impl<'a, T, const K: usize> Iterator for ListIter<'a, T, K> { type Item = &'a T; fn next(&mut self) -> Option<&'a T> { if self.i >= K { return None; } let k = self.i; self.i += 1; if k < self.l.n { Some(&self.l.a[k]) } else { None } } }
impl<T, const K: usize> List<T, K> { pub fn iter(&self) -> ListIter<'_, T, K> { ListIter { l: self, i: 0 } } pub fn is_empty(&self) -> bool { self.n == 0 } }
impl<'a, T, const K: usize> IntoIterator for &'a List<T, K> { type Item = &'a T; type IntoIter = ListIter<'a, T, K>; fn into_iter(self) -> Self::IntoIter { self.iter() } }

// ---- stub IR ----
#[derive(Clone, Debug)] pub struct Base { pub ty: TypeId }
#[derive(Clone, Debug)] pub struct FieldData { pub ty: TypeId }
pub trait FieldMethods { fn ty(&self) -> TypeId; }
impl FieldMethods for FieldData { fn ty(&self) -> TypeId { self.ty } }
#[derive(Clone, Debug)] pub struct Bitfield { pub ty: TypeId }
impl FieldMethods for Bitfield { fn ty(&self) -> TypeId { self.ty } }
#[derive(Clone, Debug)] pub struct BitfieldUnit { pub bitfields: List<Bitfield, 1> }
impl BitfieldUnit { pub fn bitfields(&self) -> &List<Bitfield, 1> { &self.bitfields } }
#[derive(Clone, Debug)] pub enum Field { DataMember(FieldData), Bitfields(BitfieldUnit) }
#[derive(Clone, Debug)] pub struct RawField(pub FieldData);
impl FieldMethods for RawField { fn ty(&self) -> TypeId { self.0.ty } }
pub type FieldList = List<Field, 2>;
pub type RawFieldList = List<RawField, 1>;
#[derive(Clone, Debug)] pub enum CompFields { Before(RawFieldList), After { fields: FieldList, has_bitfield_units: bool }, Error }
#[derive(Clone, Copy, Debug, PartialEq, Eq)] pub enum CompKind { Struct, Union }
#[derive(Clone, Debug)] pub struct Method { pub signature: FunctionId }
#[derive(Clone, Debug)] pub struct CompInfo {
    pub fields: CompFields, pub bases: List<Base, 1>, pub opaque: bool, pub kind: CompKind, pub own_dtor: bool,
    pub e_ty: List<TypeId, 0>, pub e_var: List<VarId, 0>, pub e_m: List<Method, 0>, pub e_f: List<FunctionId, 0>, pub e_fields: FieldList,
}
impl CompInfo {
    pub fn base_members(&self) -> &List<Base, 1> { &self.bases }
    pub fn kind(&self) -> CompKind { self.kind }
    pub fn has_own_destructor(&self) -> bool { self.own_dtor }
    pub fn fields(&self) -> &FieldList { match &self.fields { CompFields::After { fields, .. } => fields, _ => &self.e_fields } }
    pub fn inner_types(&self) -> &List<TypeId, 0> { &self.e_ty }
    pub fn inner_vars(&self) -> &List<VarId, 0> { &self.e_var }
    pub fn methods(&self) -> &List<Method, 0> { &self.e_m }
    pub fn destructor(&self) -> Option<(u8, FunctionId)> { None }
    pub fn constructors(&self) -> &List<FunctionId, 0> { &self.e_f }
}
#[derive(Clone, Debug)] pub struct TemplateInstantiation { pub definition: TypeId, pub args: List<TypeId, 1> }
impl TemplateInstantiation {
    pub fn template_definition(&self) -> TypeId { self.definition }
    pub fn template_arguments(&self) -> &List<TypeId, 1> { &self.args }
}
#[derive(Clone, Debug)] pub struct FunctionSig { pub ret: TypeId, pub args: List<(Option<u8>, TypeId), 1> }
impl FunctionSig {
    pub fn return_type(&self) -> TypeId { self.ret }
    pub fn argument_types(&self) -> &List<(Option<u8>, TypeId), 1> { &self.args }
}
#[derive(Clone, Debug)] pub struct Enum { pub repr: Option<TypeId> }
impl Enum { pub fn repr(&self) -> Option<TypeId> { self.repr } }
#[derive(Clone, Debug)] pub struct ObjCInterface;
impl Trace for ObjCInterface { type Extra = (); fn trace<T: Tracer>(&self, _: &BindgenContext, _: &mut T, _: &()) {} }
pub type TParams = List<TypeId, 1>;

#[derive(Clone, Debug)]
pub enum TypeKind {
    Void, NullPtr, Comp(CompInfo), Opaque, Int(u8), Float(u8), Complex(u8), Alias(TypeId),
    TemplateAlias(TypeId, TParams), Vector(TypeId, usize), Array(TypeId, usize), Function(FunctionSig),
    Enum(Enum), Pointer(TypeId), BlockPointer(TypeId), Reference(TypeId), TemplateInstantiation(TemplateInstantiation),
    UnresolvedTypeRef(u8, u8, Option<ItemId>), ResolvedTypeRef(TypeId), TypeParam, ObjCInterface(ObjCInterface), ObjCId, ObjCSel,
}
#[derive(Clone, Debug)] pub struct Type { pub kind: TypeKind }
impl Type {
    pub fn kind(&self) -> &TypeKind { &self.kind }
    pub fn name(&self) -> Option<&str> { None }
}
#[derive(Clone, Debug)] pub struct Function { pub sig: TypeId }
impl Function { pub fn signature(&self) -> TypeId { self.sig } }
#[derive(Clone, Debug)] pub struct Var { pub ty: TypeId }
impl Var { pub fn ty(&self) -> TypeId { self.ty } }
#[derive(Clone, Debug)] pub struct Module;
#[derive(Clone, Debug)] pub enum ItemKind { Module(Module), Type(Type), Function(Function), Var(Var) }
#[derive(Clone, Debug)] pub struct Item { pub id: ItemId, pub kind: ItemKind, pub opaque: bool }
pub trait IsOpaque { type Extra; fn is_opaque(&self, ctx: &BindgenContext, extra: &Self::Extra) -> bool; }
impl IsOpaque for Item { type Extra = (); fn is_opaque(&self, _: &BindgenContext, _: &()) -> bool { self.opaque } }
impl Item {
    pub fn id(&self) -> ItemId { self.id }
    pub fn kind(&self) -> &ItemKind { &self.kind }
    pub fn as_type(&self) -> Option<&Type> { match &self.kind { ItemKind::Type(t) => Some(t), _ => None } }
    pub fn all_template_params(&self, _: &BindgenContext) -> [TypeId; 0] { [] }
}
#[derive(Debug)]
pub struct BindgenContext { pub items: [Item; NI], pub allow: ItemSet }
impl BindgenContext {
    pub fn resolve_item<Id: Into<ItemId>>(&self, id: Id) -> &Item { &self.items[id.into().0] }
    pub fn allowlisted_items(&self) -> &ItemSet { &self.allow }
    pub fn is_stdint_type(&self, _: &str) -> bool { false }
}
'''

# real slices
trav = open(R+'ir/traversal.rs').read()
edgekind = extract('ir/traversal.rs', r'^#\[derive\([^\]]*\)\]\s*pub\(crate\) enum EdgeKind \{')
tracer_trait = extract('ir/traversal.rs', r'^pub\(crate\) trait Tracer \{')
tracer_impl = extract('ir/traversal.rs', r'^impl<F> Tracer for F\b[^{]*\{')
trace_trait = extract('ir/traversal.rs', r'^pub\(crate\) trait Trace \{')
trace_id = extract('ir/item.rs', r'^impl<Id> Trace for Id\b[^{]*\{')
trace_item = extract('ir/item.rs', r'^impl Trace for Item \{')
trace_type = extract('ir/ty.rs', r'^impl Trace for Type \{')
sbtu = "impl Type {\n" + extract('ir/ty.rs', r'^    pub\(crate\) fn should_be_traced_unconditionally\(&self\) -> bool \{') + "\n}\n"
trace_comp = extract('ir/comp.rs', r'^impl Trace for CompInfo \{')
trace_cf = extract('ir/comp.rs', r'^impl Trace for CompFields \{')
trace_field = extract('ir/comp.rs', r'^impl Trace for Field \{')
trace_ti = extract('ir/template.rs', r'^impl Trace for TemplateInstantiation \{')
trace_fs = extract('ir/function.rs', r'^impl Trace for FunctionSig \{')
amod = strip_uses(open(R+'ir/analysis/mod.rs').read())
# drop the test module of analysis/mod.rs
amod = amod[:amod.index('#[cfg(test)]')]
amod = re.sub(r'pub\(crate\) use self::[^;]*;', '', amod, flags=re.S)
amod = re.sub(r'pub use self::[^;]*;', '', amod, flags=re.S)
hf = strip_uses(open(R+'ir/analysis/has_float.rs').read())

STEP = r'''
#[cfg(kani)]
mod proofs {
    use super::*;
    const X: usize = 3;
    fn r(k: usize) -> TypeId { TypeId(ItemId(k)) }
    fn any_kind() -> TypeKind {
        let tag: u8 = kani::any();
        match tag {
            0 => TypeKind::Int(0),
            1 => TypeKind::Float(0),
            2 => TypeKind::Pointer(r(1)),
            3 => TypeKind::Array(r(1), kani::any()),
            4 => TypeKind::Alias(r(1)),
            5 => TypeKind::ResolvedTypeRef(r(1)),
            6 => TypeKind::Vector(r(1), kani::any()),
            7 => TypeKind::Reference(r(1)),
            8 => TypeKind::BlockPointer(r(1)),
            9 => TypeKind::TemplateAlias(r(1), List { a: [r(2)], n: kani::any::<bool>() as usize }),
            10 => TypeKind::Function(FunctionSig { ret: r(1), args: List { a: [(None, r(2))], n: kani::any::<bool>() as usize } }),
            11 => TypeKind::Enum(Enum { repr: if kani::any() { Some(r(1)) } else { None } }),
            12 => {
                let nf: usize = kani::any(); kani::assume(nf <= 2);
                let nb: usize = kani::any(); kani::assume(nb <= 1);
                TypeKind::Comp(CompInfo {
                    fields: CompFields::After { fields: List { a: [Field::DataMember(FieldData{ty: r(1)}), Field::Bitfields(BitfieldUnit{ bitfields: List { a: [Bitfield{ty: r(2)}], n: 1 } })], n: nf }, has_bitfield_units: false },
                    bases: List { a: [Base { ty: r(2) }], n: nb }, opaque: false, kind: if kani::any() { CompKind::Struct } else { CompKind::Union }, own_dtor: kani::any(),
                    e_ty: List{a:[],n:0}, e_var: List{a:[],n:0}, e_m: List{a:[],n:0}, e_f: List{a:[],n:0}, e_fields: List{a:[Field::DataMember(FieldData{ty: r(1)}), Field::DataMember(FieldData{ty: r(1)})], n:0} })
            }
            13 => TypeKind::TemplateInstantiation(TemplateInstantiation { definition: r(1), args: List { a: [r(2)], n: 1 } }),
            14 => TypeKind::Void, 15 => TypeKind::NullPtr, 16 => TypeKind::Opaque, 17 => TypeKind::TypeParam,
            18 => TypeKind::Complex(0), 19 => TypeKind::ObjCId, 20 => TypeKind::ObjCSel,
            _ => { kani::assume(tag == 21); TypeKind::UnresolvedTypeRef(0, 0, None) }
        }
    }
    fn mk_ctx() -> BindgenContext {
        let leaf = |i: usize| Item { id: ItemId(i), kind: ItemKind::Type(Type { kind: TypeKind::Int(0) }), opaque: false };
        BindgenContext { items: [
            Item { id: ItemId(0), kind: ItemKind::Module(Module), opaque: false },
            leaf(1), leaf(2),
            Item { id: ItemId(X), kind: ItemKind::Type(Type { kind: any_kind() }), opaque: kani::any() },
        ], allow: ItemSet::all() }
    }
    #[kani::proof]
    #[kani::unwind(6)]
    fn has_float_step() {
        let ctx = mk_ctx();
        let mut a = HasFloat::new(&ctx);
        let m1: bool = kani::any(); let m2: bool = kani::any(); let mx: bool = kani::any();
        if m1 { a.has_float.insert(ItemId(1)); }
        if m2 { a.has_float.insert(ItemId(2)); }
        if mx { a.has_float.insert(ItemId(X)); }
        let mut b = a.clone();
        // b differs from a exactly in the membership of child c
        let c: usize = kani::any(); kani::assume(c == 1 || c == 2);
        if c == 1 { b.has_float.present[1] = !m1; } else { b.has_float.present[2] = !m2; }
        let ra = a.constrain(ItemId(X));
        let rb = b.constrain(ItemId(X));
        // inflationary, local
        assert!(a.has_float.contains(&ItemId(1)) == m1 && a.has_float.contains(&ItemId(2)) == m2);
        assert!(!mx || a.has_float.contains(&ItemId(X)));
        assert!((ra == ConstrainResult::Changed) == (a.has_float.contains(&ItemId(X)) != mx));
        // dependency completeness (non-interference)
        if a.has_float.contains(&ItemId(X)) != b.has_float.contains(&ItemId(X)) {
            let deps = a.dependencies.get(&ItemId(c));
            let mut found = false;
            if let Some(v) = deps { for d in v { if *d == ItemId(X) { found = true; } } }
            assert!(found);
        }
        // monotone: if b's state is above a's (child flipped false->true) then result above
        let child_up = if c == 1 { !m1 } else { !m2 };
        if child_up { assert!(!a.has_float.contains(&ItemId(X)) || b.has_float.contains(&ItemId(X))); }
        kani::cover!(a.has_float.contains(&ItemId(X)) != b.has_float.contains(&ItemId(X)));
        kani::cover!(ra == ConstrainResult::Changed);
        core::mem::forget(a); core::mem::forget(b); core::mem::forget(ctx);
    }
}
'''
harness = r'''
#[cfg(kani)]
mod proofs {
    use super::*;
    fn any_ref(max: usize) -> TypeId { let k: usize = kani::any(); kani::assume(k >= 1 && k <= max); TypeId(ItemId(k)) }
    fn any_kind() -> TypeKind {
        let tag: u8 = kani::any();
        match tag {
            0 => TypeKind::Int(0),
            1 => TypeKind::Float(0),
            2 => TypeKind::Pointer(any_ref(N)),
            3 => TypeKind::Array(any_ref(N), kani::any()),
            4 => TypeKind::Alias(any_ref(N)),
            5 => TypeKind::ResolvedTypeRef(any_ref(N)),
            6 => {
                let nf: usize = kani::any(); kani::assume(nf <= 2);
                let nb: usize = kani::any(); kani::assume(nb <= 1);
                TypeKind::Comp(CompInfo {
                    fields: CompFields::After { fields: List { a: [Field::DataMember(FieldData{ty: any_ref(N)}), Field::DataMember(FieldData{ty: any_ref(N)})], n: nf }, has_bitfield_units: false },
                    bases: List { a: [Base { ty: any_ref(N) }], n: nb }, opaque: false, kind: CompKind::Struct, own_dtor: false,
                    e_ty: List{a:[],n:0}, e_var: List{a:[],n:0}, e_m: List{a:[],n:0}, e_f: List{a:[],n:0}, e_fields: List{a:[Field::DataMember(FieldData{ty: TypeId(ItemId(1))}), Field::DataMember(FieldData{ty: TypeId(ItemId(1))})], n:0} })
            }
            _ => { kani::assume(tag == 7); TypeKind::TemplateInstantiation(TemplateInstantiation { definition: any_ref(N), args: List { a: [any_ref(N)], n: 1 } }) }
        }
    }
    // independent specification: does item i "have float"? least fixed point by N rounds of Jacobi iteration over the definition
    fn spec(ctx: &BindgenContext) -> [bool; NI] {
        let mut cur = [false; NI];
        let mut round = 0;
        while round < NI {
            let mut nxt = cur;
            let mut i = 1;
            while i < NI {
                let has = |t: &TypeId| cur[(t.0).0];
                nxt[i] = cur[i] || match &ctx.items[i].kind {
                    ItemKind::Type(t) => match &t.kind {
                        TypeKind::Float(_) | TypeKind::Complex(_) => true,
                        TypeKind::Array(t, _) | TypeKind::Alias(t) | TypeKind::ResolvedTypeRef(t) => has(t),
                        TypeKind::Comp(ci) => {
                            let mut r = false;
                            for b in ci.base_members() { r |= has(&b.ty); }
                            for f in ci.fields() { if let Field::DataMember(d) = f { r |= has(&d.ty); } }
                            r
                        }
                        TypeKind::TemplateInstantiation(ti) => has(&ti.definition) || has(&ti.args.a[0]),
                        _ => false,
                    },
                    _ => false,
                };
                i += 1;
            }
            cur = nxt;
            round += 1;
        }
        cur
    }
    #[kani::proof]
    #[kani::unwind(20)]
    fn has_float_is_least_fixed_point() {
        let items: [Item; NI] = core::array::from_fn(|i| {
            if i == 0 { Item { id: ItemId(0), kind: ItemKind::Module(Module), opaque: false } }
            else { Item { id: ItemId(i), kind: ItemKind::Type(Type { kind: any_kind() }), opaque: false } }
        });
        let ctx = BindgenContext { items, allow: ItemSet::all() };
        let res = analyze::<HasFloat>(&ctx);
        let want = spec(&ctx);
        let mut i = 1;
        while i < NI { assert!(res.contains(&ItemId(i)) == want[i]); i += 1; }
        kani::cover!(want[1] && want[2] && want[3]);
        core::mem::forget(res);
        core::mem::forget(ctx);
    }
}
'''

if VAR=='v1':
    prelude = prelude.replace('pub const N: usize = 3;','pub const N: usize = 2;')
    harness = harness.replace('#[kani::unwind(20)]','#[kani::unwind(12)]').replace('kani::cover!(want[1] && want[2] && want[3]);','kani::cover!(want[1] && want[2]);')
    harness = harness.replace('let tag: u8 = kani::any();','let tag: u8 = kani::any(); kani::assume(tag == 0 || tag == 1 || tag == 3 || tag == 4 || tag == 6);')
    harness = harness.replace('kani::assume(nf <= 2);','kani::assume(nf <= 1);').replace('kani::assume(nb <= 1);','kani::assume(nb == 0);')
if VAR in ('hv','hd','ha'):
    f={'hv':'has_vtable.rs','hd':'has_destructor.rs','ha':'has_type_param_in_array.rs'}[VAR]
    hf = hf + '\n// ---- '+f+' ----\n' + strip_uses(open(R+'ir/analysis/'+f).read())
    harness = ''
if VAR=='dv':
    hf = hf + '\n// ---- derive.rs ----\n' + strip_uses(open(R+'ir/analysis/derive.rs').read()) + '\n// ---- ir/derive.rs ----\n' + strip_uses(open(R+'ir/derive.rs').read())
    harness = ''
if VAR=='st':
    harness = STEP
if VAR=='sd':
    hf = strip_uses(open(R+'ir/analysis/has_destructor.rs').read())
    harness = STEP.replace('HasFloat::new','HasDestructorAnalysis::new').replace('has_float_step','has_destructor_step').replace('.has_float','.have_destructor')
if VAR=='v3':
    harness = harness.replace('#[kani::unwind(20)]','#[kani::unwind(14)]')
    harness = harness.replace('''        let items: [Item; NI] = core::array::from_fn(|i| {
            if i == 0 { Item { id: ItemId(0), kind: ItemKind::Module(Module), opaque: false } }
            else { Item { id: ItemId(i), kind: ItemKind::Type(Type { kind: any_kind() }), opaque: false } }
        });''','''        let r = |k: usize| TypeId(ItemId(k));
        let leaf = if kani::any() { TypeKind::Float(0) } else { TypeKind::Int(0) };
        let w: u8 = kani::any(); kani::assume(w < 4);
        let wrap = match w { 0 => TypeKind::Pointer(r(1)), 1 => TypeKind::Array(r(1), kani::any()), 2 => TypeKind::Alias(r(1)), _ => TypeKind::ResolvedTypeRef(r(1)) };
        let nf: usize = kani::any(); kani::assume(nf <= 2);
        let nb: usize = kani::any(); kani::assume(nb <= 1);
        let comp = TypeKind::Comp(CompInfo {
                    fields: CompFields::After { fields: List { a: [Field::DataMember(FieldData{ty: r(2)}), Field::DataMember(FieldData{ty: r(1)})], n: nf }, has_bitfield_units: false },
                    bases: List { a: [Base { ty: r(1) }], n: nb }, opaque: false, kind: CompKind::Struct, own_dtor: false,
                    e_ty: List{a:[],n:0}, e_var: List{a:[],n:0}, e_m: List{a:[],n:0}, e_f: List{a:[],n:0}, e_fields: List{a:[Field::DataMember(FieldData{ty: r(1)}), Field::DataMember(FieldData{ty: r(1)})], n:0} });
        let items: [Item; NI] = [
            Item { id: ItemId(0), kind: ItemKind::Module(Module), opaque: false },
            Item { id: ItemId(1), kind: ItemKind::Type(Type { kind: leaf }), opaque: false },
            Item { id: ItemId(2), kind: ItemKind::Type(Type { kind: wrap }), opaque: false },
            Item { id: ItemId(3), kind: ItemKind::Type(Type { kind: comp }), opaque: false },
        ];''')
if VAR=='v2':
    harness = harness.replace('#[kani::unwind(20)]','#[kani::unwind(14)]')
    harness = harness.replace('let tag: u8 = kani::any();','let tag: u8 = kani::any(); kani::assume(tag == 0 || tag == 1 || tag == 3 || tag == 4);')
src = prelude + "\n" + edgekind + "\n" + tracer_trait + "\n" + tracer_impl + "\n" + trace_trait + "\n" + trace_id + "\n" + trace_item + "\n" + trace_type + "\n" + sbtu + trace_comp + "\n" + trace_cf + "\n" + trace_field + "\n" + trace_ti + "\n" + trace_fs + "\n// ---- analysis/mod.rs ----\n" + amod + "\n// ---- has_float.rs ----\n" + hf + "\n" + harness
open('src/lib.rs','w').write(src)
print(len(src.split('\n')), 'lines')
