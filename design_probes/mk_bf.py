# Feasibility probe (not framework): codegen/bitfield_unit.rs included by path,
# get/set vs a bit-level reference model on [u8; 9].
# Measured: set_then_get_and_frame 9 s OK; get_matches_ref (shift+width<=64) 20 s OK;
# get_matches_ref_wide 23 s FAILS ("attempt to shift left with overflow", finding F2).
import os
os.makedirs('/tmp/probe/bf/src', exist_ok=True)
os.chdir('/tmp/probe/bf')
open('Cargo.toml', 'w').write('[package]\nname = "bfprobe"\nversion = "0.0.0"\nedition = "2021"\n[workspace]\n[dependencies]\n')
open('src/lib.rs', 'w').write(r'''
#![allow(dead_code, clippy::all)]
#[path = "/repo/bindgen/codegen/bitfield_unit.rs"]
mod bitfield_unit;
use bitfield_unit::__BindgenBitfieldUnit as Unit;

fn ref_get(st: &[u8], off: usize, width: u8) -> u64 {
    let mut v = 0u64;
    let mut i = 0usize;
    while i < width as usize {
        let bit = off + i;
        if (st[bit / 8] >> (bit % 8)) & 1 == 1 { v |= 1u64 << i; }
        i += 1;
    }
    v
}

#[cfg(kani)]
mod proofs {
    use super::*;
    const N: usize = 9;

    #[kani::proof]
    #[kani::unwind(66)]
    fn get_matches_ref() {
        let st: [u8; N] = kani::any();
        let off: usize = kani::any();
        let width: u8 = kani::any();
        kani::assume(width >= 1 && width <= 64);
        kani::assume(off < N * 8);
        kani::assume(off + width as usize <= N * 8);
        kani::assume((off % 8) + width as usize <= 64);
        let u = Unit::new(st);
        assert_eq!(u.get(off, width), ref_get(&st, off, width));
    }

    #[kani::proof]
    #[kani::unwind(66)]
    fn get_matches_ref_wide() {
        let st: [u8; N] = kani::any();
        let off: usize = kani::any();
        let width: u8 = kani::any();
        kani::assume(width >= 1 && width <= 64);
        kani::assume(off < N * 8);
        kani::assume(off + width as usize <= N * 8);
        let u = Unit::new(st);
        assert_eq!(u.get(off, width), ref_get(&st, off, width));
    }

    #[kani::proof]
    #[kani::unwind(11)]
    fn set_then_get_and_frame() {
        let st: [u8; N] = kani::any();
        let off: usize = kani::any();
        let width: u8 = kani::any();
        let val: u64 = kani::any();
        kani::assume(width >= 1 && width <= 64);
        kani::assume(off < N * 8);
        kani::assume(off + width as usize <= N * 8);
        kani::assume((off % 8) + width as usize <= 64);
        let mut u = Unit::new(st);
        u.set(off, width, val);
        let mask = if width == 64 { !0u64 } else { (1u64 << width) - 1 };
        assert_eq!(u.get(off, width), val & mask);
        let b: usize = kani::any();
        kani::assume(b < N * 8);
        kani::assume(b < off || b >= off + width as usize);
        let orig = Unit::new(st);
        assert_eq!(u.get_bit(b), orig.get_bit(b));
    }
}
''')
