import re, os
from slicer import *
os.chdir('/tmp/probe/st')
open('Cargo.toml','w').write('[package]\nname = "stprobe"\nversion = "0.0.0"\nedition = "2021"\n[workspace]\n[dependencies]\n')
def splice(path, harness):
    s=open(path).read()
    s=re.sub(r'^#!\[.*?\]\s*$', '', s, flags=re.M)
    s=re.sub(r'^//!.*$', '', s, flags=re.M)
    return s + "\n" + harness
mangle = extract('ir/context.rs', r'^    pub\(crate\) fn rust_mangle<')
feat = splice('/repo/bindgen/features.rs', r'''
#[cfg(kani)]
mod proofs {
    use super::*;
    pub fn naive_memchr(x: u8, text: &[u8]) -> Option<usize> { let mut i = 0; while i < text.len() { if text[i] == x { return Some(i); } i += 1; } None }
    pub fn stub_format(_: core::fmt::Arguments<'_>) -> String { String::new() }
    // shape "1.D-nightly": only the digit is symbolic
    #[kani::proof]
    #[kani::stub(core::slice::memchr::memchr, naive_memchr)]
    #[kani::stub(alloc::fmt::format, stub_format)]
    #[kani::unwind(13)]
    fn from_str_shape_1_d_nightly() {
        let d: u8 = kani::any(); kani::assume(d <= 9);
        let buf: [u8; 11] = [b'1', b'.', b'0' + d, b'-', b'n', b'i', b'g', b'h', b't', b'l', b'y'];
        let s = unsafe { core::str::from_utf8_unchecked(&buf) };
        let r = s.parse::<RustTarget>();
        core::mem::forget(r);
    }
    #[kani::proof]
    #[kani::stub(core::slice::memchr::memchr, naive_memchr)]
    #[kani::stub(alloc::fmt::format, stub_format)]
    #[kani::unwind(13)]
    fn from_str_shape_1_dd_d() {
        let d1: u8 = kani::any(); kani::assume(d1 <= 9);
        let d2: u8 = kani::any(); kani::assume(d2 <= 9);
        let d3: u8 = kani::any(); kani::assume(d3 <= 9);
        let buf: [u8; 6] = [b'1', b'.', b'0' + d1, b'0' + d2, b'.', b'0' + d3];
        let s = unsafe { core::str::from_utf8_unchecked(&buf) };
        let r = s.parse::<RustTarget>();
        if let Ok(t) = &r { assert!(t.minor() == Some((d1 as u64) * 10 + d2 as u64)); }
        core::mem::forget(r);
    }
}
''')
deps = splice('/repo/bindgen/deps.rs', r'''
#[cfg(kani)]
mod proofs {
    use super::*;
    pub fn naive_memchr(x: u8, text: &[u8]) -> Option<usize> { let mut i = 0; while i < text.len() { if text[i] == x { return Some(i); } i += 1; } None }
    // class pattern
    #[kani::proof]
    #[kani::stub(core::slice::memchr::memchr, naive_memchr)]
    #[kani::unwind(16)]
    fn depfile_pattern_o_s_b() {
        let o: u8 = kani::any(); kani::assume(o != b' ' && o != b'\\' && o < 0x80);
        let bytes = [o, b' ', b'\\'];
        let name = unsafe { core::str::from_utf8_unchecked(&bytes) };
        let spec = DepfileSpec { output_module: String::from("t"), depfile_path: PathBuf::new() };
        let mut deps = BTreeSet::new();
        deps.insert(Box::<str>::from(name));
        let s = spec.to_string(&deps);
        let b = s.as_bytes();
        // expected: "t: " + o + "\\ " + "\\\\"
        assert!(b.len() == 8);
        assert!(b[0] == b't' && b[1] == b':' && b[2] == b' ' && b[3] == o && b[4] == b'\\' && b[5] == b' ' && b[6] == b'\\' && b[7] == b'\\');
        core::mem::forget(s); core::mem::forget(deps); core::mem::forget(spec);
    }
}
''')
mg = r'''
use std::borrow::Cow;
pub struct BindgenContext;
impl BindgenContext {
''' + mangle + r'''
}
#[cfg(kani)]
mod proofs {
    use super::*;
    pub fn naive_memchr(x: u8, text: &[u8]) -> Option<usize> { let mut i = 0; while i < text.len() { if text[i] == x { return Some(i); } i += 1; } None }
    fn is_kw(s: &[u8]) -> bool {
        const KW: &[&[u8]] = &[b"as", b"break", b"const", b"continue", b"crate", b"else", b"enum", b"extern", b"false", b"fn", b"for", b"if", b"impl", b"in", b"let", b"loop", b"match", b"mod", b"move", b"mut", b"pub", b"ref", b"return", b"self", b"Self", b"static", b"struct", b"super", b"trait", b"true", b"type", b"unsafe", b"use", b"where", b"while", b"async", b"await", b"dyn", b"abstract", b"become", b"box", b"do", b"final", b"macro", b"override", b"priv", b"typeof", b"unsized", b"virtual", b"yield", b"try", b"gen"];
        let mut i = 0; while i < KW.len() { if KW[i].len() == s.len() { let mut eq = true; let mut j = 0; while j < s.len() { if KW[i][j] != s[j] { eq = false; } j += 1; } if eq { return true; } } i += 1; }
        false
    }
    fn case<const L: usize>() {
        let bytes: [u8; L] = kani::any();
        let mut i = 0; while i < L { let b = bytes[i]; kani::assume((b >= b'a' && b <= b'z') || b == b'_' || b == b'$' || b == b'S' || (i > 0 && b >= b'0' && b <= b'9')); i += 1; }
        let s = unsafe { core::str::from_utf8_unchecked(&bytes) };
        let ctx = BindgenContext;
        let out = ctx.rust_mangle(s);
        let ob = out.as_bytes();
        let mut k = 0; while k < ob.len() { assert!(ob[k] != b'$' && ob[k] != b'@' && ob[k] != b'?'); k += 1; }
        assert!(!is_kw(ob));
        core::mem::forget(out);
    }
    #[kani::proof] #[kani::stub(core::slice::memchr::memchr, naive_memchr)] #[kani::unwind(60)] fn mangle_len2() { case::<2>() }
    #[kani::proof] #[kani::stub(core::slice::memchr::memchr, naive_memchr)] #[kani::unwind(60)] fn mangle_len5() { case::<5>() }
}
'''
open('src/features.rs','w').write(feat)
open('src/deps.rs','w').write(deps)
open('src/mangle.rs','w').write(mg)
open('src/lib.rs','w').write("#![allow(warnings)]\nmod features;\nmod deps;\nmod mangle;\n")
