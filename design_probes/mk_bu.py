import re, os, sys
sys.path.insert(0,'/tmp/probe')
from slicer import *
os.chdir('/tmp/probe/bu')
open('Cargo.toml','w').write('[package]\nname = "buprobe"\nversion = "0.0.0"\nedition = "2021"\n[workspace]\n[dependencies]\n')
fn = extract('ir/comp.rs', r'^fn bitfields_to_allocation_units<E, I>\(')
align_to = extract('codegen/struct_layout.rs', r'^pub\(crate\) fn align_to\(')
layout = open(R+'ir/layout.rs').read()
layout = re.sub(r'^//!.*$', '', layout, flags=re.M)
layout = re.sub(r'^use (crate|super)[^;]*;', '', layout, flags=re.M)
prelude = r'''
#![allow(warnings)]
use std::cmp;
pub const K: usize = 3;
macro_rules! vec { () => { Vec::new() } }
#[derive(Clone, Debug)]
pub struct Vec<T> { pub buf: [Option<T>; K], pub len: usize }
impl<T: Copy> Vec<T> {
    pub fn new() -> Self { Vec { buf: [None; K], len: 0 } }
    pub fn push(&mut self, t: T) { assert!(self.len < K); self.buf[self.len] = Some(t); self.len += 1; }
}
pub mod syn { pub struct Type; macro_rules! parse_quote { ($($t:tt)*) => { crate::syn::Type } } pub(crate) use parse_quote; }
#[derive(Debug)] pub struct BindgenContext { pub ptr: usize }
impl BindgenContext {
    pub fn collected_typerefs(&self) -> bool { true }
    pub fn resolve_type(&self, t: TypeId) -> Type { Type { layout: t.0 } }
    pub fn target_pointer_size(&self) -> usize { self.ptr }
}
#[derive(Clone, Copy, Debug)] pub struct TypeId(pub Option<Layout>);
#[derive(Clone, Copy, Debug)] pub struct Type { pub layout: Option<Layout> }
impl Type { pub fn layout(&self, _: &BindgenContext) -> Option<Layout> { self.layout } }
#[derive(Clone, Copy, Debug)] pub struct RawField { pub width: u32, pub ty: TypeId, pub offset: Option<usize>, pub named: bool }
impl RawField {
    pub fn bitfield_width(&self) -> Option<u32> { Some(self.width) }
    pub fn ty(&self) -> TypeId { self.ty }
    pub fn offset(&self) -> Option<usize> { self.offset }
    pub fn name(&self) -> Option<&str> { if self.named { Some("f") } else { None } }
}
#[derive(Clone, Copy, Debug)] pub struct Bitfield { pub offset_into_unit: usize, pub raw: RawField }
impl Bitfield { pub fn new(offset_into_unit: usize, raw: RawField) -> Bitfield { Bitfield { offset_into_unit, raw } } }
#[derive(Clone, Debug)] pub struct BitfieldUnit { pub nth: usize, pub layout: Layout, pub bitfields: Vec<Bitfield> }
#[derive(Clone, Debug)] pub enum Field { Bitfields(BitfieldUnit) }
pub struct Out { pub units: [Option<BitfieldUnit>; 2], pub n: usize }
impl Extend<Field> for Out { fn extend<I: IntoIterator<Item = Field>>(&mut self, it: I) { for f in it { let Field::Bitfields(u) = f; assert!(self.n < 2); self.units[self.n] = Some(u); self.n += 1; } } }
pub struct In { pub a: [RawField; K], pub n: usize, pub i: usize }
impl Iterator for In { type Item = RawField; fn next(&mut self) -> Option<RawField> { if self.i >= K { return None; } let k = self.i; self.i += 1; if k < self.n { Some(self.a[k]) } else { None } } }
'''
harness = r'''
#[cfg(kani)]
mod proofs {
    use super::*;
    // C-side reference: Itanium bit-field placement for a run of named bit-fields of one base type size TS (bytes), non-packed
    fn case<const TS: usize>() {
        let n: usize = kani::any(); kani::assume(n >= 1 && n <= K);
        let start: usize = kani::any(); kani::assume(start <= 256 && start % 8 == 0);
        let mut a = [RawField { width: 1, ty: TypeId(Some(Layout::new(TS, TS))), offset: Some(0), named: true }; K];
        let mut cur = start; // next free bit
        let mut offs = [0usize; K]; let mut ws = [0usize; K];
        let mut i = 0;
        while i < K {
            if i < n {
                let w: u32 = kani::any(); kani::assume(w >= 1 && (w as usize) <= TS * 8);
                // Itanium: if the field would straddle a TS-aligned unit boundary, move to next boundary
                let unit = TS * 8;
                let mut off = cur;
                if (off % unit) + (w as usize) > unit { off = (off / unit + 1) * unit; }
                a[i] = RawField { width: w, ty: TypeId(Some(Layout::new(TS, TS))), offset: Some(off), named: true };
                offs[i] = off; ws[i] = w as usize;
                cur = off + w as usize;
            }
            i += 1;
        }
        let ctx = BindgenContext { ptr: 8 };
        let mut out = Out { units: [None, None], n: 0 };
        let mut count = 0usize;
        let r = bitfields_to_allocation_units(&ctx, &mut count, &mut out, In { a, n, i: 0 }, false);
        assert!(r.is_ok());
        assert!(out.n == 1 && count == 1);
        let u = out.units[0].as_ref().unwrap();
        assert!(u.bitfields.len == n);
        let mut j = 0;
        while j < K {
            if j < n {
                let b = u.bitfields.buf[j].unwrap();
                assert!(b.offset_into_unit == offs[j] - offs[0]);
                assert!(b.offset_into_unit + ws[j] <= u.layout.size * 8);
            }
            j += 1;
        }
        assert!(u.layout.size * 8 < (cur - offs[0]) + 8);
        kani::cover!(n == 3 && offs[2] > offs[1] + ws[1]);
    }
    #[kani::proof] #[kani::unwind(5)] fn bu_1() { case::<1>() }
    #[kani::proof] #[kani::unwind(5)] fn bu_4() { case::<4>() }
    #[kani::proof] #[kani::unwind(5)] fn bu_8() { case::<8>() }
}
'''
src = prelude + "\n" + layout + "\n" + align_to + "\n" + fn + "\n" + harness
open('src/lib.rs','w').write(src)
