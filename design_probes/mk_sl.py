# Feasibility probe (not framework): splice codegen/struct_layout.rs + ir/layout.rs
# unchanged against a stub environment; 2-member natural-layout harness per
# alignment tuple. Measured: 2-5 s per instance (DESIGN.md 2.7).
import re, os
os.makedirs('/tmp/probe/sl/src', exist_ok=True)
os.chdir('/tmp/probe/sl')
open('Cargo.toml', 'w').write('[package]\nname = "slprobe"\nversion = "0.0.0"\nedition = "2021"\n[workspace]\n[dependencies]\n')

def strip_uses(s):
    return '\n'.join(l for l in s.split('\n') if not re.match(r'^use\s', l))

layout = re.sub(r'^//!.*$', '', strip_uses(open('/repo/bindgen/ir/layout.rs').read()), flags=re.M)
sl = re.sub(r'^//!.*$', '', strip_uses(open('/repo/bindgen/codegen/struct_layout.rs').read()), flags=re.M)
prelude = r'''
#![allow(warnings)]
macro_rules! debug { ($($t:tt)*) => {} }
macro_rules! warn { ($($t:tt)*) => {} }
macro_rules! trace { ($($t:tt)*) => {} }
macro_rules! format { ($($t:tt)*) => { String::new() } }
macro_rules! quote {
    (# $vis:ident # $name:ident : # $ty:ident ,) => { proc_macro2::TokenStream::Field($ty.clone()) };
    ($($t:tt)*) => { proc_macro2::TokenStream::Other };
}
pub mod proc_macro2 {
    #[derive(Debug, Clone, Copy)] pub struct Ident;
    #[derive(Debug, Clone, Copy)] pub struct Span;
    impl Span { pub fn call_site() -> Span { Span } }
    impl Ident { pub fn new(_: &str, _: Span) -> Ident { Ident } }
    #[derive(Debug, Clone, Copy)] pub enum TokenStream { Field(crate::syn::Type), Other }
}
pub mod syn {
    #[derive(Debug, Clone, Copy, PartialEq, Eq)]
    pub struct Type { pub size: usize, pub align: usize }
    macro_rules! parse_quote {
        (u128) => { crate::syn::Type{size:16, align:16} };
        (u64) => { crate::syn::Type{size:8, align:8} };
        (u32) => { crate::syn::Type{size:4, align:4} };
        (u16) => { crate::syn::Type{size:2, align:2} };
        (u8) => { crate::syn::Type{size:1, align:1} };
    }
    pub(crate) use parse_quote;
}
use proc_macro2::{Ident, Span};
use std::cmp;
#[derive(Debug, Clone, Copy, PartialEq, Eq, PartialOrd, Ord)]
pub enum FieldVisibilityKind { Private, PublicCrate, Public }
#[derive(Debug, Clone, Copy)] pub struct Vis;
pub fn access_specifier(_: FieldVisibilityKind) -> Vis { Vis }
#[derive(Debug)] pub struct Options { pub force_explicit_padding: bool }
#[derive(Debug)] pub struct BindgenContext { pub opts: Options, pub ptr_size: usize }
impl BindgenContext {
    pub fn options(&self) -> &Options { &self.opts }
    pub fn target_pointer_size(&self) -> usize { self.ptr_size }
    pub fn resolve_type(&self, t: &'static Type) -> &'static Type { t }
}
#[derive(Debug)] pub struct CompInfo { pub union_: bool, pub rust_union: (bool,bool) }
impl CompInfo {
    pub fn is_union(&self) -> bool { self.union_ }
    pub fn is_rust_union(&self, _: &BindgenContext, _: Option<&Layout>, _: &str) -> (bool,bool) { self.rust_union }
}
#[derive(Debug)] pub enum TypeKind { Int, Comp, Array(&'static Type, usize) }
#[derive(Debug)] pub struct Type { pub layout: Option<Layout>, pub kind: TypeKind }
impl Type {
    pub fn layout(&self, _: &BindgenContext) -> Option<Layout> { self.layout }
    pub fn canonical_type(&self, _: &BindgenContext) -> &Type { self }
    pub fn kind(&self) -> &TypeKind { &self.kind }
}
pub mod helpers {
    use super::*;
    // stub blob: a type with exactly the requested layout (the real blob is a separate kernel)
    pub fn blob(_: &BindgenContext, l: Layout, _: bool) -> syn::Type { syn::Type { size: l.size, align: if l.align == 0 {1} else {l.align} } }
}
'''
harness = r'''
#[cfg(kani)]
mod proofs {
    use super::*;
    use super::struct_layout::*;
    fn up(x: usize, a: usize) -> usize { (x + a - 1) / a * a }
    fn field(ts: Option<proc_macro2::TokenStream>) -> Option<syn::Type> {
        match ts { Some(proc_macro2::TokenStream::Field(t)) => Some(t), _ => None }
    }
    fn place(cur: &mut usize, maxa: &mut usize, size: usize, align: usize) -> usize {
        let off = up(*cur, align); *cur = off + size; if align > *maxa { *maxa = align; } off
    }
    fn case<const A0: usize, const A1: usize>() {
        let k0: usize = kani::any(); let k1: usize = kani::any();
        kani::assume(k0 >= 1 && k0 <= 16 && k1 >= 1 && k1 <= 16);
        let s0 = k0 * A0; let s1 = k1 * A1;
        let sa = if A0 > A1 { A0 } else { A1 };
        let off0 = 0usize; let off1 = up(s0, A1); let size = up(off1 + s1, sa);
        let ctx = BindgenContext { opts: Options { force_explicit_padding: kani::any() }, ptr_size: 8 };
        let comp = CompInfo { union_: false, rust_union: (false, false) };
        let ty = Type { layout: Some(Layout::new(size, sa)), kind: TypeKind::Comp };
        let mut t = StructLayoutTracker::new(&ctx, &comp, &ty, "s", FieldVisibilityKind::Public, false);
        let p0 = field(t.saw_field_with_layout("a", Layout::new(s0, A0), Some(off0 * 8)));
        let p1 = field(t.saw_field_with_layout("b", Layout::new(s1, A1), Some(off1 * 8)));
        let tail = field(t.add_tail_padding("s", Layout::new(size, sa)));
        let pad = field(t.pad_struct(Layout::new(size, sa)));
        let explicit = t.requires_explicit_align(Layout::new(size, sa));
        let mut cur = 0usize; let mut maxa = 1usize;
        if let Some(p) = p0 { place(&mut cur, &mut maxa, p.size, p.align); }
        let r0 = place(&mut cur, &mut maxa, s0, A0);
        if let Some(p) = p1 { place(&mut cur, &mut maxa, p.size, p.align); }
        let r1 = place(&mut cur, &mut maxa, s1, A1);
        if let Some(p) = tail { place(&mut cur, &mut maxa, p.size, p.align); }
        if let Some(p) = pad { place(&mut cur, &mut maxa, p.size, p.align); }
        if explicit && sa > maxa { maxa = sa; }
        let rsize = up(cur, maxa);
        assert!(r0 == off0);
        assert!(r1 == off1);
        assert!(rsize == size);
        assert!(maxa == sa);
        kani::cover!(p1.is_some());
        kani::cover!(tail.is_some());
    }
    #[kani::proof] fn case_1_4() { case::<1, 4>() }
    #[kani::proof] fn case_4_8() { case::<4, 8>() }
    #[kani::proof] fn case_8_2() { case::<8, 2>() }
    #[kani::proof] fn case_16_1() { case::<16, 1>() }
}
'''
src = (prelude + "\npub mod layout_mod { use super::*; " + layout + "}\npub(crate) use layout_mod::Layout;\n"
       + "pub mod struct_layout { use super::*; " + sl + "}\n" + harness)
open('src/lib.rs', 'w').write(src)
