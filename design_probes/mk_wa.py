import re, os
from slicer import *
os.chdir('/tmp/probe/wa')
open('Cargo.toml','w').write('[package]\nname = "waprobe"\nversion = "0.0.0"\nedition = "2021"\n[workspace]\n[dependencies]\n')
amod = open(R+'ir/analysis/mod.rs').read()
amod = re.sub(r'^//!.*$', '', amod, flags=re.M)
amod = re.sub(r'^(pub(\(crate\))? )?use (crate|super|self)\b[^;]*;', '', amod, flags=re.M | re.S)
amod = re.sub(r'^mod \w+;', '', amod, flags=re.M)
amod = amod[:amod.index('#[cfg(test)]')]
# generate_dependencies needs the IR: cut it out for this kernel
gd = extract('ir/analysis/mod.rs', r'^pub\(crate\) fn generate_dependencies<F>\(')
amod = amod.replace(gd, '')
prelude = r'''
#![allow(warnings)]
pub const N: usize = 3;
pub const CAP: usize = 24;
#[derive(Clone, Debug)]
pub struct Vec<T> { buf: [Option<T>; CAP], len: usize }
impl<T: Copy> Vec<T> {
    pub fn new() -> Self { Vec { buf: [None; CAP], len: 0 } }
    pub fn push(&mut self, t: T) { assert!(self.len < CAP, "stub Vec capacity"); self.buf[self.len] = Some(t); self.len += 1; }
    pub fn pop(&mut self) -> Option<T> { if self.len == 0 { None } else { self.len -= 1; self.buf[self.len] } }
}
'''
harness = r'''
#[derive(Debug)]
pub struct Sym { g: [[bool; N]; N], seed: [u8; N], val: [u8; N], order: [u8; N], break_edge: Option<(u8, u8)> }
impl MonotoneFramework for Sym {
    type Node = u8; type Extra = Sym; type Output = [u8; N];
    fn new(e: Sym) -> Sym { e }
    fn initial_worklist(&self) -> Vec<u8> { let mut v = Vec::new(); let mut i = 0; while i < N { v.push(self.order[i]); i += 1; } v }
    fn constrain(&mut self, n: u8) -> ConstrainResult {
        let n = n as usize; let mut m = self.seed[n]; if self.val[n] > m { m = self.val[n]; }
        let mut j = 0; while j < N { if self.g[n][j] && self.val[j] > m { m = self.val[j]; } j += 1; }
        if m != self.val[n] { self.val[n] = m; ConstrainResult::Changed } else { ConstrainResult::Same }
    }
    fn each_depending_on<F: FnMut(u8)>(&self, n: u8, mut f: F) {
        let mut i = 0; while i < N { if self.g[i][n as usize] && self.break_edge != Some((i as u8, n)) { f(i as u8); } i += 1; }
    }
}
impl From<Sym> for [u8; N] { fn from(s: Sym) -> [u8; N] { s.val } }
#[cfg(kani)]
mod proofs {
    use super::*;
    fn lfp(g: &[[bool; N]; N], seed: &[u8; N]) -> [u8; N] {
        let mut cur = *seed; let mut r = 0;
        while r < N { let mut nxt = cur; let mut i = 0; while i < N { let mut j = 0; while j < N { if g[i][j] && cur[j] > nxt[i] { nxt[i] = cur[j]; } j += 1; } i += 1; } cur = nxt; r += 1; }
        cur
    }
    fn setup(break_edge: bool) -> (Sym, [u8; N]) {
        let g: [[bool; N]; N] = kani::any();
        let seed: [u8; N] = kani::any(); let mut i = 0; while i < N { kani::assume(seed[i] <= 2); i += 1; }
        let order: [u8; N] = kani::any();
        // order is a permutation of 0..N
        let mut seen = [false; N]; let mut k = 0; while k < N { kani::assume((order[k] as usize) < N); kani::assume(!seen[order[k] as usize]); seen[order[k] as usize] = true; k += 1; }
        let be = if break_edge { let a: u8 = kani::any(); let b: u8 = kani::any(); kani::assume((a as usize) < N && (b as usize) < N && g[a as usize][b as usize] && a != b); Some((a, b)) } else { None };
        let want = lfp(&g, &seed);
        (Sym { g, seed, val: [0; N], order, break_edge: be }, want)
    }
    #[kani::proof]
    #[kani::unwind(26)]
    fn analyze_reaches_lfp() {
        let (s, want) = setup(false);
        let got = analyze::<Sym>(s);
        let mut i = 0; while i < N { assert!(got[i] == want[i]); i += 1; }
    }
    #[kani::proof]
    #[kani::unwind(26)]
    fn twin_missing_dependency_must_fail() {
        let (s, want) = setup(true);
        let got = analyze::<Sym>(s);
        let mut i = 0; while i < N { assert!(got[i] == want[i]); i += 1; }
    }
}
'''
open('src/lib.rs','w').write(prelude + amod + harness)
