import re, os
os.makedirs('/tmp/probe/sp/src', exist_ok=True)
os.chdir('/tmp/probe/sp')
open('Cargo.toml','w').write('''[package]
name = "spprobe"
version = "0.0.0"
edition = "2021"
[workspace]
[dependencies]
''')
def splice(path, harness):
    s=open(path).read()
    s=re.sub(r'^#!\[.*?\]\s*$', '', s, flags=re.M)
    s=re.sub(r'^//!.*$', '', s, flags=re.M)
    return s + "\n" + harness
feat = splice('/repo/bindgen/features.rs', r'''
#[cfg(kani)]
mod proofs {
    use super::*;
    fn any_edition() -> RustEdition {
        let e: u8 = kani::any(); kani::assume(e < 3);
        RustEdition::ALL[e as usize]
    }
    #[kani::proof]
    #[kani::unwind(5)]
    fn features_monotone_and_not_too_early() {
        let m1: u64 = kani::any(); let m2: u64 = kani::any();
        let p1: u64 = kani::any(); let p2: u64 = kani::any();
        kani::assume(m1 <= m2);
        let e = any_edition();
        let t1 = RustTarget(Version::Stable(m1, p1));
        let t2 = RustTarget(Version::Stable(m2, p2));
        let f1 = RustFeatures::new(t1, e);
        let f2 = RustFeatures::new(t2, e);
        let fnight = RustFeatures::new(RustTarget::nightly(), e);
        macro_rules! mono { ($($f:ident => $min:expr),*) => { $(
            assert!(!f1.$f || f2.$f);
            assert!(!f2.$f || fnight.$f);
            assert!(!f1.$f || m1 >= $min);
        )* } }
        mono!(unsafe_extern_blocks => 82, offset_of => 77, literal_cstr => 77, thiscall_abi => 73,
              c_unwind_abi => 71, abi_efiapi => 68, core_ffi_c => 64, const_cstr => 59,
              vectorcall_abi => u64::MAX, ptr_metadata => u64::MAX, layout_for_ptr => u64::MAX);
        assert!(!f1.literal_cstr || e >= RustEdition::Edition2021);
    }

    fn build(buf: &mut [u8; 16]) -> usize {
        let mut n = 0;
        buf[0] = b'1'; buf[1] = b'.'; n = 2;
        let d1: u8 = kani::any(); kani::assume(d1 <= 9); buf[n] = b'0' + d1; n += 1;
        if kani::any() { let d2: u8 = kani::any(); kani::assume(d2 <= 9); buf[n] = b'0' + d2; n += 1; }
        if kani::any() { buf[n] = b'.'; n += 1; let p: u8 = kani::any(); kani::assume(p <= 9); buf[n] = b'0' + p; n += 1; }
        let suf: u8 = kani::any();
        let sfx: &[u8] = match suf { 0 => b"", 1 => b"-beta", 2 => b"-nightly", _ => b"-beta.1" };
        let mut i = 0; while i < sfx.len() { buf[n] = sfx[i]; n += 1; i += 1; }
        n
    }
    pub fn naive_memchr(x: u8, text: &[u8]) -> Option<usize> {
        let mut i = 0; while i < text.len() { if text[i] == x { return Some(i); } i += 1; } None
    }
    #[kani::proof]
    #[kani::unwind(17)]
    #[kani::stub(core::slice::memchr::memchr, naive_memchr)]
    fn from_str_never_panics() {
        let mut buf = [0u8; 16];
        let n = build(&mut buf);
        let s = unsafe { core::str::from_utf8_unchecked(&buf[..n]) };
        let r = s.parse::<RustTarget>();
        core::mem::forget(r);
    }
}
''')
deps = splice('/repo/bindgen/deps.rs', r'''
#[cfg(kani)]
mod proofs {
    use super::*;
    fn parse(line: &[u8], out: &mut [[u8; 8]; 3], lens: &mut [usize; 3]) -> usize {
        let mut n = 0usize; let mut cur = 0usize; let mut i = 0usize; let mut in_tok = false;
        while i < line.len() {
            let c = line[i];
            if c == b'\\' && i + 1 < line.len() { out[n][cur] = line[i+1]; cur += 1; i += 2; in_tok = true; continue; }
            if c == b' ' { if in_tok { lens[n] = cur; n += 1; cur = 0; in_tok = false; } i += 1; continue; }
            out[n][cur] = c; cur += 1; in_tok = true; i += 1;
        }
        if in_tok { lens[n] = cur; n += 1; }
        n
    }
    pub fn naive_memchr(x: u8, text: &[u8]) -> Option<usize> {
        let mut i = 0; while i < text.len() { if text[i] == x { return Some(i); } i += 1; } None
    }
    #[kani::proof]
    #[kani::unwind(14)]
    #[kani::stub(core::slice::memchr::memchr, naive_memchr)]
    fn depfile_roundtrip_one_dep() {
        const L: usize = 2;
        let bytes: [u8; L] = kani::any();
        let len: usize = L;
        let mut i = 0;
        while i < L { let b = bytes[i]; kani::assume(b == b' ' || b == b'\\' || b == b'a' || b == b'#'); i += 1; }
        let name = unsafe { core::str::from_utf8_unchecked(&bytes[..len]) };
        let spec = DepfileSpec { output_module: String::from("t"), depfile_path: PathBuf::new() };
        let mut deps = BTreeSet::new();
        deps.insert(Box::<str>::from(name));
        let s = spec.to_string(&deps);
        let mut out = [[0u8; 8]; 3]; let mut lens = [0usize; 3];
        let n = parse(s.as_bytes(), &mut out, &mut lens);
        assert!(n == 2);
        assert!(lens[1] == len);
        let mut k = 0; while k < len { assert!(out[1][k] == bytes[k]); k += 1; }
        core::mem::forget(s); core::mem::forget(deps); core::mem::forget(spec);
    }
}
''')
open('src/features.rs','w').write(feat)
open('src/deps.rs','w').write(deps)
open('src/lib.rs','w').write("#![allow(warnings)]\nmod features;\nmod deps;\n")
