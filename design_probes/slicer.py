import re
R='/repo/bindgen/'
def skip_ws_comments(s, i):
    return i

def match_brace(s, i):
    """s[i] == '{'; return index just after matching '}' (aware of strings, chars, comments)."""
    depth = 0
    n = len(s)
    while i < n:
        c = s[i]
        if s.startswith('//', i):
            i = s.index('\n', i)
            continue
        if s.startswith('/*', i):
            i = s.index('*/', i) + 2
            continue
        if c == '"':
            i += 1
            while s[i] != '"':
                if s[i] == '\\': i += 1
                i += 1
            i += 1
            continue
        if c == "'":
            # char literal or lifetime
            m = re.match(r"'(\\.|[^\\'])'", s[i:])
            if m:
                i += m.end()
                continue
            i += 1
            continue
        if c == '{':
            depth += 1
        elif c == '}':
            depth -= 1
            if depth == 0:
                return i + 1
        i += 1
    raise Exception('unbalanced')

def extract(path, header_regex):
    s = open(R + path).read()
    m = re.search(header_regex, s, flags=re.M)
    if not m:
        raise Exception('not found: %s in %s' % (header_regex, path))
    start = m.start()
    # include preceding attributes / doc comments
    b = s.index('{', m.end() - 1) if s[m.end()-1] != '{' else m.end() - 1
    end = match_brace(s, b)
    return s[start:end]

def strip_uses(s):
    s = re.sub(r'^//!.*$', '', s, flags=re.M)
    s = re.sub(r'^(pub(\(crate\))? )?use (crate|super|self)\b[^;]*;', '', s, flags=re.M | re.S)
    s = re.sub(r'^mod \w+;', '', s, flags=re.M)
    return s

