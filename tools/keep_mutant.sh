#!/bin/bash
# usage: tools/keep_mutant.sh <PROP> <mN> : copy a confirmed mutant into /verif/seeded/<PROP>-<mN>/
PROP=$1; M=$2; S=/tmp/mut/$PROP/OUT/$M; D=/verif/seeded/$PROP-$M
python3 - <<PY || exit 1
import json,sys
c=json.load(open("$S/confirm.json"))
ok = c["applies"] and c["build_rc"]==0 and c["suite_passed"]==690 and sorted(c["suite_failed"])==["header_atomic_constant_h","header_issue_753_h","header_ptr32_has_different_size_h"] and c["demo_with_rc"]!=0 and c["demo_without_rc"]==0
sys.exit(0 if ok else 1)
PY
mkdir -p $D
# keep patch, demo and its small inputs, meta; drop logs/binaries/big files
find $S -maxdepth 2 -type f -size -200k ! -name "*.log" ! -name "confirm_*" | while read f; do rel=${f#$S/}; mkdir -p $D/$(dirname $rel); cp $f $D/$rel; done
python3 - <<PY
import json
m=json.load(open("$S/meta.json")); c=json.load(open("$S/confirm.json"))
m["confirmed_by_verifier"]={"ran":"tools/confirm_mutant.sh $PROP $M (apply in scratch worktree, cargo build, full nextest suite, demo.sh with and without the patch)", **c}
json.dump(m,open("$D/meta.json","w"),indent=1)
PY
echo kept $D
