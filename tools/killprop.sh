#!/bin/bash
# usage: tools/killprop.sh C07   -- kills the runner started from /verif for that property and the kani/cbmc processes working under /verif/work/<PROP>
# (by pid and working directory, never by pattern-kill; runs started from another copy of /verif - e.g. a `vp run` snapshot - are left alone)
P=$1
for pid in $(ps -eo pid,args | grep "gen/run.py --prop $P" | grep -v grep | grep -v "bash -c" | awk '{print $1}'); do d=$(readlink /proc/$pid/cwd 2>/dev/null); [ "$d" = "/verif" ] && kill -9 $pid 2>/dev/null; done
for pid in $(ps -eo pid,comm | grep -E "cbmc|cargo-kani|kani-driver|cargo|rustc|goto" | awk '{print $1}'); do d=$(readlink /proc/$pid/cwd 2>/dev/null); case "$d" in /verif/work/$P/*|/verif/work/$P) kill -9 $pid 2>/dev/null;; esac; done
echo killed
