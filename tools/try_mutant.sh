#!/bin/bash
# usage: tools/try_mutant.sh <patch.diff> <PROP> [extra run.py args]
# applies the patch to /repo, runs the check, always reverts.
set -u
exec 9>/tmp/try_mutant.lock; flock 9   # one mutant at a time touches /repo
P=$1; PROP=$2; shift 2
cd /repo || exit 3
if ! git diff --quiet; then echo "repo dirty, refusing"; exit 3; fi
git apply "$P" || { echo "patch does not apply"; exit 3; }
cd /verif
VERIF_WORK=/verif/work/mut VERIF_EVIDENCE_DIR=/verif/work/mut/evidence python3 gen/run.py --prop "$PROP" "$@" 2>/dev/null | grep -E "^(VIOLATION|KNOWN|INCONCLUSIVE|VACUOUS|TOOL|ENCODING|SUMMARY|  harness)" | cut -c1-400
rc=${PIPESTATUS[0]}
git -C /repo checkout -- .
echo "exit=$rc"
exit $rc
