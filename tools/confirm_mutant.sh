#!/bin/bash
# usage: tools/confirm_mutant.sh <PROP> <mN>    (mutant dir /tmp/mut/<PROP>/OUT/<mN>, scratch worktree /tmp/mut/<PROP>)
# Confirms independently: patch applies, builds, suite = 690 pass + the 3 baseline failures, demo fails with / passes without.
# Writes /tmp/mut/<PROP>/OUT/<mN>/confirm.json
PROP=$1; M=$2
WT=/tmp/mut/$PROP; D=$WT/OUT/$M
cd $WT || exit 3
git checkout -q -- . 
export CARGO_NET_OFFLINE=true
git apply $D/patch.diff || { echo '{"applies": false}' > $D/confirm.json; exit 1; }
cargo build --offline -p bindgen-cli > $D/confirm_build.log 2>&1; b=$?
cargo nextest run --workspace --no-fail-fast --tool-config-file pb:/w/lib/nextest.toml --profile pb --test-threads 6 --offline > $D/confirm_suite.log 2>&1
passed=$(grep -oE "[0-9]+ passed" $D/confirm_suite.log | tail -1 | grep -oE "[0-9]+")
failed=$(grep -E "^\s+FAIL " $D/confirm_suite.log | awk '{print $NF}' | sort -u | tr '\n' ' ')
(cd $D && timeout 900 bash ./demo.sh $WT > $D/confirm_demo_with.log 2>&1); dw=$?
git checkout -q -- .
cargo build --offline -p bindgen-cli >> $D/confirm_build.log 2>&1
(cd $D && timeout 900 bash ./demo.sh $WT > $D/confirm_demo_without.log 2>&1); dwo=$?
python3 - <<PY
import json
json.dump({"applies": True, "build_rc": $b, "suite_passed": int("${passed:-0}"), "suite_failed": "$failed".split(), "demo_with_rc": $dw, "demo_without_rc": $dwo}, open("$D/confirm.json","w"), indent=1)
PY
cat $D/confirm.json
