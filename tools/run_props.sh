#!/bin/bash
# usage: tools/run_props.sh C07 C09 ...   (sequential quick runs; summary lines to stdout)
cd /verif
for p in "$@"; do
  t0=$(date +%s)
  python3 gen/run.py --prop $p --tier ${VERIF_TIER:-quick} > /tmp/all_$p.log 2>&1; rc=$?
  t1=$(date +%s)
  echo "$p rc=$rc wall=$((t1-t0))s $(grep -a '^SUMMARY' /tmp/all_$p.log | cut -c1-200)"
  grep -a -E "^(VIOLATION|ENCODING|VACUOUS|TOOL-ERROR|INCONCLUSIVE)" /tmp/all_$p.log | cut -c1-200
done
