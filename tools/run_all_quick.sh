#!/bin/bash
# runs every registered quick check sequentially on the current tree; prints exit code and wall time
cd /verif
for p in $(python3 -c "import json; print(' '.join(c['property_id'] for c in json.load(open('MANIFEST.json'))['checks']))"); do
  t0=$(date +%s)
  python3 gen/run.py --prop $p --tier quick > /tmp/all_$p.log 2>&1; rc=$?
  t1=$(date +%s)
  echo "$p rc=$rc wall=$((t1-t0))s $(grep -a '^SUMMARY' /tmp/all_$p.log | cut -c1-200)"
  grep -a -E "^(VIOLATION|ENCODING|VACUOUS|TOOL-ERROR|INCONCLUSIVE)" /tmp/all_$p.log | cut -c1-200
done
