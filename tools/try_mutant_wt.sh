#!/bin/bash
# usage: tools/try_mutant_wt.sh <patch.diff> <PROP> [extra run.py args]
# like try_mutant.sh, but applies the patch in a scratch worktree (VERIF_REPO) so that /repo itself is never touched
# (safe while other checks are regenerating from /repo).  The worktree is removed afterwards.
set -u
P=$(readlink -f "$1"); PROP=$2; shift 2
WT=$(mktemp -d /tmp/mutwt.XXXXXX)
git -C /repo worktree add --detach -f "$WT" HEAD >/dev/null 2>&1 || { echo "worktree failed"; exit 3; }
git -C "$WT" apply "$P" || { echo "patch does not apply"; git -C /repo worktree remove --force "$WT"; exit 3; }
cd /verif
W=/verif/work/mut_$$
VERIF_REPO="$WT" VERIF_WORK=$W VERIF_EVIDENCE_DIR=$W/evidence python3 gen/run.py --prop "$PROP" "$@" 2>/dev/null | grep -E "^(VIOLATION|KNOWN|INCONCLUSIVE|VACUOUS|TOOL|ENCODING|SUMMARY|  harness)" | cut -c1-400
rc=${PIPESTATUS[0]}
git -C /repo worktree remove --force "$WT"; rm -rf "$W"
echo "exit=$rc"
exit $rc
